/-
ArtModel.Driver — line protocol: one operation per line in, one canonical line
out.  Every line is self-contained (stateless), so the harness can shard and
replay freely.  Core Lean only.

Numbers:  `R` lines carry exact rationals `p/q` (or integers);
          `F` lines carry IEEE-754 doubles as 16 hex digits (`nan` = NaN).
Order-only model runs execute on the *sign-magnitude key* of a double, an `Int`
that is strictly monotone in the IEEE order of non-NaN doubles.
-/
import ArtModel.Search
import ArtModel.Kernels
import ArtModel.ARTMAP

namespace Art.Drv

/-! ### parsing helpers -/

def splitList (s : String) (sep : String := ",") : List String :=
  if s == "-" || s == "" then [] else s.splitOn sep

def hexVal (c : Char) : Option Nat :=
  if '0' ≤ c && c ≤ '9' then some (c.toNat - '0'.toNat)
  else if 'a' ≤ c && c ≤ 'f' then some (c.toNat - 'a'.toNat + 10)
  else if 'A' ≤ c && c ≤ 'F' then some (c.toNat - 'A'.toNat + 10)
  else none

def parseHex (s : String) : Option Nat :=
  s.toList.foldl (fun acc c => do let a ← acc; let v ← hexVal c; pure (a * 16 + v)) (some 0)

def hex16 (n : Nat) : String :=
  let ds := Nat.toDigits 16 n
  String.ofList (List.replicate (16 - ds.length) '0' ++ ds)

def signBit : Nat := 2 ^ 63

/-- sign-magnitude key of a double given by its bits; `-0` and `+0` share key 0 -/
def keyOfBits (b : Nat) : Int := if b ≥ signBit then -((b - signBit : Nat) : Int) else (b : Int)

def bitsOfKey (k : Int) : Nat := if k < 0 then signBit + k.natAbs else k.toNat

def floatOfKey (k : Int) : Float := Float.ofBits (UInt64.ofNat (bitsOfKey k))

def keyOfFloat (f : Float) : Int := keyOfBits f.toBits.toNat

/-- a double as key; `none` for NaN -/
def parseKey (s : String) : Option (Option Int) :=
  if s == "nan" then some none
  else do
    let b ← parseHex s
    if (Float.ofBits (UInt64.ofNat b)).isNaN then some none else some (some (keyOfBits b))

def showKey (k : Int) : String := hex16 (bitsOfKey k)

def parseRat (s : String) : Option Rat :=
  match s.splitOn "/" with
  | [p] => p.toInt?.map (fun (i : Int) => (i : Rat))
  | [p, q] => do
    let i ← p.toInt?
    let n ← q.toNat?
    if n == 0 then none else some (mkRat i n)
  | _ => none

def showRat (r : Rat) : String := if r.den == 1 then toString r.num else s!"{r.num}/{r.den}"

def parseFloatBits (s : String) : Option Float := do
  if s == "nan" then some (0.0 / 0.0)
  else
    let b ← parseHex s
    some (Float.ofBits (UInt64.ofNat b))

def showFloatBits (f : Float) : String := if f.isNaN then "nan" else hex16 f.toBits.toNat

def parseMT (s : String) : Option MT :=
  match s with
  | "MT+" => some .plus | "MT-" => some .minus | "MT0" => some .zero
  | "MT1" => some .one | "MT~" => some .tilde | _ => none

def parseBool (s : String) : Option Bool :=
  match s with | "1" => some true | "0" => some false | _ => none

def showBool (b : Bool) : String := if b then "1" else "0"

def showNats (l : List Nat) : String := if l.isEmpty then "-" else ",".intercalate (l.map toString)

def showOptNat : Option Nat → String
  | some n => toString n
  | none => "-"

def mapM' {β γ : Type} (f : β → Option γ) (l : List β) : Option (List γ) := l.mapM f

/-- a number type that can travel over the protocol -/
class Wire (α : Type) where
  parse : String → Option α
  render : α → String

instance : Transc Float := ⟨Float.sqrt, Float.exp⟩

instance : Wire Rat := ⟨parseRat, showRat⟩
instance : Wire Float := ⟨parseFloatBits, showFloatBits⟩

def parseVec {α : Type} [Wire α] (s : String) : Option (List α) := (splitList s).mapM Wire.parse
def showVec {α : Type} [Wire α] (v : List α) : String :=
  if v.isEmpty then "-" else ",".intercalate (v.map Wire.render)
/-- matrix rows separated by `|` -/
def parseMat {α : Type} [Wire α] (s : String) : Option (List (List α)) :=
  (splitList s "|").mapM parseVec
def showMat {α : Type} [Wire α] (m : List (List α)) : String :=
  if m.isEmpty then "-" else "|".intercalate (m.map showVec)

/-! ### thresholds on float keys (possibly one per channel) -/

/-- `M + eps` / `M - eps` in IEEE arithmetic, on keys -/
def adjKey (eps : Float) (plus : Bool) (k : Int) : Int :=
  let f := floatOfKey k
  keyOfFloat (if plus then f + eps else f - eps)

def infKey : Int := keyOfBits 0x7FF0000000000000

/-- per-channel scalar configuration lifted to vectors of thresholds:
`passes` = every channel passes, `track` = every channel tracks -/
def vecCfg (mode : MT) (inv : List Bool) (eps : Float) : SearchCfg (List Int) (List Int) :=
  let one (i : Bool) : SearchCfg Int Int :=
    scalarCfg mode i (adjKey eps (!i)) (adjKey eps i) (if i then -infKey else infKey)
  { passes := fun th m => (List.zip inv (List.zip th m)).all (fun (i, t, v) => (one i).passes t v)
    track := fun th m => (List.zip inv (List.zip th m)).map (fun (i, t, v) => (one i).track t v)
    keep := mode != .one
    tilde := mode == .tilde }

def showVisit (v : Visit (List Int)) : String :=
  s!"{v.c}:{":".intercalate (v.th.map showKey)}:{showBool v.m}:{showBool v.ok}"

/-- `search MODE INVs RHOs EPS T Ms VETO` (all `F`):
`T` activations (`nan` allowed), `Ms` one `:`-joined channel vector per category,
`?` for a category whose match value was never computed. -/
def opSearch (a : List String) : Option String := do
  match a with
  | [mode, invs, rhos, eps, ts, ms, vetos] =>
    let mode ← parseMT mode
    let inv ← (splitList invs).mapM parseBool
    let rho ← (splitList rhos).mapM (fun s => (parseKey s).join)
    let eps ← parseFloatBits eps
    let T ← (splitList ts).mapM parseKey
    let Ms ← (splitList ms).mapM (fun s =>
      if s == "?" then some none else ((splitList s ":").mapM (fun t => (parseKey t).join)).map some)
    let veto ← (splitList vetos).mapM parseBool
    let cfg := vecCfg mode inv eps
    let M : Nat → List Int := fun c => ((Ms[c]?).join).getD []
    let vt : Nat → Bool := fun c => veto.getD c false
    let T' := strikeVetoed cfg.tilde vt T
    let r := search cfg M vt T'.length T' rho
    -- a visit whose match value was not recorded means model and code diverged
    let bad := r.visits.any (fun v => ((Ms[v.c]?).join).isNone)
    if bad then some "unrecorded-match"
    else
      some s!"w={showOptNat r.winner} th={":".intercalate (r.th.map showKey)} v={",".intercalate (r.visits.map showVisit)}"
  | _ => none

/-! ### histories on a generic kernel -/

def showState {Wt : Type} (showW : Wt → String) (s : ArtState Wt) : String :=
  let w := if s.W.isEmpty then "-" else "|".intercalate (s.W.map showW)
  s!"W={w} cnt={showNats s.cnt} n={s.n} labels={showNats s.labels}"

def showMap (m : List (Option Nat)) : String :=
  if m.isEmpty then "-" else ",".intercalate (m.map showOptNat)

def showOptNats (l : List (Option Nat)) : String :=
  if l.isEmpty then "-" else ",".intercalate (l.map showOptNat)

/-- scalar-threshold configuration over an exact ordered field -/
def ratCfg (mode : MT) (eps : Rat) : SearchCfg Rat Rat :=
  { (scalarCfg mode false (· + eps) (· - eps) 0) with
    -- MT1 sets rho = +inf; the search is abandoned at once, so the value is
    -- never compared.  `0` is a placeholder that no test reads.
    keep := mode != .one }

def floatCfg (mode : MT) (eps : Float) : SearchCfg Float Float :=
  scalarCfg mode false (· + eps) (· - eps) (1.0 / 0.0)

/-- calls of a history: `fit X [y]`, `pfit X [y]`, `pred X` -/
inductive Call (X : Type) where
  | fit (xs : List X) (ys : List Nat)
  | pfit (xs : List X) (ys : List Nat)
  | pred (xs : List X)

def parseCall {X : Type} (pX : String → Option (List X)) (s : String) : Option (Call X) := do
  match s.splitOn " " with
  | ["fit", xs] => some (.fit (← pX xs) [])
  | ["fit", xs, ys] => some (.fit (← pX xs) (← (splitList ys).mapM String.toNat?))
  | ["pfit", xs] => some (.pfit (← pX xs) [])
  | ["pfit", xs, ys] => some (.pfit (← pX xs) (← (splitList ys).mapM String.toNat?))
  | ["pred", xs] => some (.pred (← pX xs))
  | _ => none

section
variable {X Wt α μ θ : Type} [LT α] [DecidableRel (α := α) (· < ·)]

/-- run a history on a bare module; `vetoTab[i][c]` is the answer of the
caller-supplied reset function for the `i`-th presented sample (0-based over the
whole history) and category `c`; absent = not vetoed. -/
def runBase (K : Kernel X Wt α μ) (cfg : SearchCfg μ θ) (th0 : θ)
    (vetoTab : List (List Bool)) (showW : Wt → String) (calls : List (Call X)) : List String :=
  -- `g` = samples presented before this call, `base` = `labels_` length when the call starts
  let veto (g base : Nat) : ArtState Wt → X → Nat → Bool := fun s _ c =>
    ((vetoTab[g + (s.labels.length - base)]?).getD []).getD c false
  let rec go (s : ArtState Wt) (g : Nat) : List (Call X) → List String
    | [] => []
    | .fit xs _ :: cs =>
      let s' := fit K cfg th0 (veto g 0) s xs
      showState showW s' :: go s' (g + xs.length) cs
    | .pfit xs _ :: cs =>
      let s' := partialFit K cfg th0 (veto g s.labels.length) s xs
      showState showW s' :: go s' (g + xs.length) cs
    | .pred xs :: cs =>
      ("pred=" ++ showOptNats (predict K s.W xs)) :: go s g cs
  go {} 0 calls

/-- run a history on a SimpleARTMAP -/
def runSMap (K : Kernel X Wt α μ) (cfg : SearchCfg μ θ) (th0 : θ)
    (showW : Wt → String) (calls : List (Call X)) : List String :=
  let show' (s : SMapState Wt) : String :=
    s!"{showState showW s.a} map={showMap s.map} lb={showNats s.labelsB}"
  let rec go (s : SMapState Wt) : List (Call X) → List String
    | [] => []
    | .fit xs ys :: cs =>
      let s' := smapFit K cfg th0 s (xs.zip ys)
      show' s' :: go s' cs
    | .pfit xs ys :: cs =>
      let s' := smapPartialFit K cfg th0 s (xs.zip ys)
      show' s' :: go s' cs
    | .pred xs :: cs =>
      ("pred=" ++ ",".intercalate ((smapPredictAB K s xs).map (fun
        | some (a, b) => s!"{a}:{b}"
        | none => "-"))) :: go s cs
  go {} calls

/-- `fit(X, y, max_iter = k)` on a fresh SimpleARTMAP: snapshot after the last epoch -/
def runSMapEpochs (K : Kernel X Wt α μ) (cfg : SearchCfg μ θ) (th0 : θ)
    (showW : Wt → String) (k : Nat) (xs : List X) (ys : List Nat) : String :=
  let s := smapFitEpochs K cfg th0 k (xs.zip ys)
  s!"{showState showW s.a} map={showMap s.map} lb={showNats s.labelsB}"

end

/-! ### table-driven kernel: activations and match values recorded from the
implementation.  A sample is `(step index, number of categories before the
step)`, a weight is the category's creation index. -/

structure TabStep where
  T : List (Option Int)
  M : List (Option (List Int))

def tabKernel (tab : List TabStep) : Kernel (Nat × Nat) Nat Int (List Int) :=
  { choice := fun _ x w => ((tab[x.1]?).bind (fun st => (st.T[w]?).join))
    matchv := fun x w => ((tab[x.1]?).bind (fun st => (st.M[w]?).join)).getD []
    update := fun _ w => w
    newW := fun x => x.2 }

/-- a table step: `T/M` with `T` comma-joined keys and `M` comma-joined
`:`-vectors or `?` -/
def parseTabStep (s : String) : Option TabStep := do
  match s.splitOn "/" with
  | [ts, ms] =>
    let T ← (splitList ts).mapM parseKey
    let M ← (splitList ms).mapM (fun s =>
      if s == "?" then some none else ((splitList s ":").mapM (fun t => (parseKey t).join)).map some)
    some ⟨T, M⟩
  | _ => none

/-- samples of a table history: `i:ncat` joined by `,` -/
def parseTabXs (s : String) : Option (List (Nat × Nat)) :=
  (splitList s).mapM (fun t => match t.splitOn ":" with
    | [i, n] => do some (← i.toNat?, ← n.toNat?)
    | _ => none)

def parseVetoTab (s : String) : Option (List (List Bool)) :=
  (splitList s "|").mapM (fun r => (r.toList.mapM (fun c => parseBool (String.singleton c))))

/-- `hist` dispatcher.
`hist base tab MODE INVs RHOs EPS VETOTAB STEPS # call # call …`
`hist base fuzzy MODE EPS VETOTAB RHO ALPHA BETA D # …`   (R)
`hist smap …` likewise without VETOTAB. -/
def opHist (line : String) : Option String := do
  match line.splitOn " # " with
  | [] => none
  | hd :: callStrs =>
    let a := hd.splitOn " "
    match a with
    | ["base", "tab", mode, invs, rhos, eps, vt, steps] =>
      let mode ← parseMT mode
      let inv ← (splitList invs).mapM parseBool
      let rho ← (splitList rhos).mapM (fun s => (parseKey s).join)
      let eps ← parseFloatBits eps
      let vt ← parseVetoTab vt
      let tab ← (splitList steps ";").mapM parseTabStep
      let calls ← callStrs.mapM (parseCall parseTabXs)
      some (" # ".intercalate (runBase (tabKernel tab) (vecCfg mode inv eps) rho vt toString calls))
    | ["smap", "tab", mode, invs, rhos, eps, steps] =>
      let mode ← parseMT mode
      let inv ← (splitList invs).mapM parseBool
      let rho ← (splitList rhos).mapM (fun s => (parseKey s).join)
      let eps ← parseFloatBits eps
      let tab ← (splitList steps ";").mapM parseTabStep
      let calls ← callStrs.mapM (parseCall parseTabXs)
      some (" # ".intercalate (runSMap (tabKernel tab) (vecCfg mode inv eps) rho toString calls))
    | [kind, "fuzzy", mode, eps, vt, rho, alpha, beta, d] =>
      let mode ← parseMT mode
      let eps ← parseRat eps
      let vt ← parseVetoTab vt
      let K := fuzzyKernel (← parseRat alpha) (← parseRat beta) (← parseRat d)
      let rho ← parseRat rho
      if kind == "smapk" then
        -- one call `K X y`: SimpleARTMAP.fit with max_iter = K on a fresh estimator
        match callStrs with
        | [c] => match c.splitOn " " with
          | [k, xs, ys] =>
            some (runSMapEpochs K (ratCfg mode eps) rho showVec (← k.toNat?) (← parseMat (α := Rat) xs)
              (← (splitList ys).mapM String.toNat?))
          | _ => none
        | _ => none
      else
        let calls ← callStrs.mapM (parseCall (parseMat (α := Rat)))
        if kind == "base" then
          some (" # ".intercalate (runBase K (ratCfg mode eps) rho vt showVec calls))
        else if kind == "smap" then
          some (" # ".intercalate (runSMap K (ratCfg mode eps) rho showVec calls))
        else none
    | [kind, "sph", mode, eps, vt, rho, alpha, beta, rhat] =>
      -- HypersphereART on IEEE doubles (bit patterns): same definitions, `Float` instance
      let mode ← parseMT mode
      let eps ← parseFloatBits eps
      let vt ← parseVetoTab vt
      let K := sphKernel (← parseFloatBits alpha) (← parseFloatBits beta) (← parseFloatBits rhat)
      let calls ← callStrs.mapM (parseCall (parseMat (α := Float)))
      let rho ← parseFloatBits rho
      if kind == "base" then
        some (" # ".intercalate (runBase K (floatCfg mode eps) rho vt showVec calls))
      else if kind == "smap" then
        some (" # ".intercalate (runSMap K (floatCfg mode eps) rho showVec calls))
      else none
    | [kind, "art1", mode, eps, vt, rho, L, dim] =>
      let mode ← parseMT mode
      let eps ← parseRat eps
      let vt ← parseVetoTab vt
      let dim ← dim.toNat?
      let K := art1Kernel (← parseRat L) dim
      let calls ← callStrs.mapM (parseCall (parseMat (α := Rat)))
      let rho ← parseRat rho
      if kind == "base" then
        some (" # ".intercalate (runBase K (ratCfg mode eps) rho vt showVec calls))
      else if kind == "smap" then
        some (" # ".intercalate (runSMap K (ratCfg mode eps) rho showVec calls))
      else none
    | [kind, "art2a", mode, eps, vt, rho, alpha, beta] =>
      let mode ← parseMT mode
      let eps ← parseRat eps
      let vt ← parseVetoTab vt
      let K := art2Kernel (← parseRat alpha) (← parseRat beta)
      let calls ← callStrs.mapM (parseCall (parseMat (α := Rat)))
      let rho ← parseRat rho
      if kind == "base" then
        some (" # ".intercalate (runBase K (ratCfg mode eps) rho vt showVec calls))
      else if kind == "smap" then
        some (" # ".intercalate (runSMap K (ratCfg mode eps) rho showVec calls))
      else none
    | _ => none

end Art.Drv
