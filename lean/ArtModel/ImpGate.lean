/-
ArtModel.ImpGate — target-language helpers of the validity-index-gate translator (`harness/artv/gtrans.py`).
Core Lean only.

* `npSet`      numpy's in-place `v[i] = a` on a 1-D array (an index past the end raises `IndexError` = `none`).
* `callback`   a Python callable that is handed to the generated `BaseART.step_fit` as `match_reset_func`.  The
               generated `step_fit` (ArtGen/Control.lean) takes a *total* function into `Bool`; the gates run in the
               `Option` monad (`none` = the Python code raises).  A raise inside the callback is rendered as the
               answer `False` ("reset"), exactly as `ArtModel/ICVI.lean`'s `icviMatch` does; the spec file proves that
               it does not occur on the states training reaches (`Gate.iCVI_match_defined`).
* `Metrics`    the three `sklearn.metrics` scores `CVIART.CVI_match` chooses from: abstract functions of the data
               and a labelling (`none` = sklearn raises, e.g. on a labelling with a single label: finding F35).
* `Extra`      the dict display `{"index": …, "validity": …}` that `CVIART.fit` passes to `CVI_match`.
-/
import ArtModel.Imp

namespace Art.ImpGate

/-- numpy `v[i] = a`; `IndexError` = `none` -/
def npSet {β : Type} (v : List β) (i : Nat) (a : β) : Option (List β) :=
  if i < v.length then some (v.set i a) else none

/-- the answer of a callback whose body may raise: a raise counts as `False` -/
def callback (o : Option Bool) : Bool := o.getD false

/-- `sklearn.metrics.{calinski_harabasz,davies_bouldin,silhouette}_score(data, labels)` -/
structure Metrics (Xt α : Type) where
  calinski_harabasz_score : List Xt → List Nat → Option α
  davies_bouldin_score : List Xt → List Nat → Option α
  silhouette_score : List Xt → List Nat → Option α

/-- the dict `{"index": index, "validity": self.params["validity"]}` -/
structure Extra where
  index : Nat
  validity : Nat

end Art.ImpGate
