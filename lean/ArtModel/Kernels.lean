/-
ArtModel.Kernels — the published activation / match / learning rules of the
elementary modules, one definition per equation, generic over the number type.
Core Lean only.  Executed at `Rat` (exact, grid data) and `Float`.
-/
import ArtModel.Search

namespace Art

/-- `np.sqrt` / `np.exp`, supplied per number type (`Float`: the C functions;
proofs: `Real.sqrt`, `Real.exp`). -/
class Transc (α : Type) where
  sqrt : α → α
  exp : α → α

section
variable {α : Type} [Add α] [Sub α] [Mul α] [Div α] [Min α] [Max α] [Zero α] [One α]
  [LT α] [LE α] [DecidableRel (α := α) (· < ·)] [DecidableRel (α := α) (· ≤ ·)]

/-! ### Fuzzy ART  (Carpenter, Grossberg & Rosen 1991) -/

/-- `T = |x ∧ w| / (alpha + |w|)` -/
def fuzzyChoice (alpha : α) (x w : List α) : α := vsum (vmin x w) / (alpha + vsum w)

/-- `M = |x ∧ w| / d`, `d` = original (un-complemented) dimension, passed as a number -/
def fuzzyMatch (d : α) (x w : List α) : α := vsum (vmin x w) / d

/-- `w' = beta (x ∧ w) + (1 - beta) w` -/
def fuzzyUpdate (beta : α) (x w : List α) : List α :=
  vadd (smul beta (vmin x w)) (smul (1 - beta) w)

def fuzzyNew (x : List α) : List α := x

def fuzzyKernel (alpha beta d : α) : Kernel (List α) (List α) α α :=
  { choice := fun _ x w => some (fuzzyChoice alpha x w)
    matchv := fuzzyMatch d
    update := fuzzyUpdate beta
    newW := fuzzyNew }

/-- `get_bounding_box(w, n)`: reference point `w[i]` and width `1 - w[d+i] - w[i]`
for the first `n ≤ d` dimensions (`d = len(w)/2`). -/
def fuzzyBBox (w : List α) (n : Nat) : List α × List α :=
  let d := w.length / 2
  let lo := w.take n
  let hi := (w.drop d).take n
  (lo, List.zipWith (fun a b => (1 - b) - a) lo hi)

/-- `shrink_clusters(ratio)` on one weight: both halves move by `width * ratio`. -/
def fuzzyShrink (ratio : α) (w : List α) : List α :=
  let d := w.length / 2
  let u := w.take d
  let vc := w.drop d
  let widths := List.zipWith (fun a b => (1 - b) - a) u vc
  let delta := smul ratio widths
  -- numpy computes `widths * ratio`; multiplication commutes in every instance used
  vadd u delta ++ vadd vc delta

/-- Fuzzy cluster centre before de-normalisation: `(w[:d] + (1 - w[d:])) / 2`. -/
def fuzzyCentre (w : List α) : List α :=
  let d := w.length / 2
  List.zipWith (fun a b => (a + (1 - b)) / (1 + 1)) (w.take d) (w.drop d)

end

section
variable {α : Type} [Add α] [Sub α] [Mul α] [Div α] [Min α] [Max α] [Zero α] [One α]
  [LT α] [LE α] [DecidableRel (α := α) (· < ·)] [DecidableRel (α := α) (· ≤ ·)] [DecidableEq α]

/-! ### ART1  (Carpenter & Grossberg 1987).  A weight is `w_bu ++ w_td`;
binary data are the numbers 0 and 1. -/

/-- `np.logical_and(i, w_td)` as 0/1 numbers -/
def band' (x w : List α) : List α :=
  List.zipWith (fun a b => if a = 0 then (0 : α) else if b = 0 then 0 else 1) x w

/-- `T = x · w_bu` -/
def art1Choice (dim : Nat) (x w : List α) : α := dot x (w.take dim)

/-- `M = |x ∧ w_td| / |x|` -/
def art1Match (dim : Nat) (x w : List α) : α := vsum (band' x (w.drop dim)) / vsum x

/-- `w_td' = x ∧ w_td`, `w_bu' = L / (L - 1 + |w_td'|) * w_td'` -/
def art1Update (L : α) (dim : Nat) (x w : List α) : List α :=
  let td := band' x (w.drop dim)
  smul (L / (L - 1 + vsum td)) td ++ td

/-- new category: `w_td = x`, `w_bu = L / (L - 1 + |x|) * x` — the same rule as
`update` with template `x` (repaired defect F10: the code scaled by the input width). -/
def art1New (L : α) (x : List α) : List α :=
  smul (L / (L - 1 + vsum x)) x ++ x

def art1Kernel (L : α) (dim : Nat) : Kernel (List α) (List α) α α :=
  { choice := fun _ x w => some (art1Choice dim x w)
    matchv := art1Match dim
    update := art1Update L dim
    newW := art1New L }

/-! ### ART2-A  (Carpenter, Grossberg & Rosen 1991b) -/

def art2Choice (x w : List α) : α := dot x w

/-- match = activation, suppressed to `-1` when below the uncommitted-node
activation `alpha * Σx` -/
def art2Match (alpha : α) (x w : List α) : α :=
  if dot x w < alpha * vsum x then (0 : α) - 1 else dot x w

def art2Update (beta : α) (x w : List α) : List α :=
  vadd (smul beta x) (smul (1 - beta) w)

def art2Kernel (alpha beta : α) : Kernel (List α) (List α) α α :=
  { choice := fun _ x w => some (art2Choice x w)
    matchv := art2Match alpha
    update := art2Update beta
    newW := fun x => x }

end

section
variable {α : Type} [Add α] [Sub α] [Mul α] [Div α] [Min α] [Max α] [Zero α] [One α]
  [LT α] [LE α] [DecidableRel (α := α) (· < ·)] [DecidableRel (α := α) (· ≤ ·)]
  [Transc α]

/-! ### Hypersphere ART  (Anagnostopoulos & Georgiopoulos 2000).
A weight is `centroid ++ [radius]`. -/

def sphCentre (w : List α) : List α := w.dropLast
def sphRadius (w : List α) : α := w.getLastD 0

/-- `‖x - c‖` -/
def sphDist (x w : List α) : α := Transc.sqrt (l2sq (vsub x (sphCentre w)))

/-- `T = (r̂ - max(R, ‖x-c‖)) / (r̂ - R + alpha)` -/
def sphChoice (alpha rhat : α) (x w : List α) : α :=
  (rhat - max (sphRadius w) (sphDist x w)) / (rhat - sphRadius w + alpha)

/-- `M = 1 - max(R, ‖x-c‖) / r̂` -/
def sphMatch (rhat : α) (x w : List α) : α :=
  1 - max (sphRadius w) (max (sphRadius w) (sphDist x w)) / rhat

/-- `R' = R + beta/2 (max(R,d) - R)`,
`c' = c + beta/2 (x - c)(1 - min(R,d)/d)`; when `d = 0` (not `0 < d`) the sample is the centre
and the centre does not move (repaired 0/0, finding F02). -/
def sphUpdate (beta : α) (x w : List α) : List α :=
  let c := sphCentre w
  let R := sphRadius w
  let d := sphDist x w
  let R' := R + beta / (1 + 1) * (max R d - R)
  let f := if 0 < d then 1 - min R d / d else (0 : α)
  let c' := vadd c (smul f (smul (beta / (1 + 1)) (vsub x c)))
  c' ++ [R']

def sphNew (x : List α) : List α := x ++ [0]

def sphKernel (alpha beta rhat : α) : Kernel (List α) (List α) α α :=
  { choice := fun _ x w => some (sphChoice alpha rhat x w)
    matchv := sphMatch rhat
    update := sphUpdate beta
    newW := sphNew }

end

/-! ### Ellipsoid ART  (Anagnostopoulos & Georgiopoulos 2001).
A weight is `centroid ++ major_axis ++ [radius]` (`2·dim + 1` numbers). -/

section
variable {α : Type} [Add α] [Sub α] [Mul α] [Div α] [Min α] [Max α] [Zero α] [One α]
  [LT α] [LE α] [DecidableRel (α := α) (· < ·)] [DecidableRel (α := α) (· ≤ ·)] [DecidableEq α]
  [Transc α]

def ellCentre (dim : Nat) (w : List α) : List α := w.take dim
def ellAxis (dim : Nat) (w : List α) : List α := (w.drop dim).dropLast
def ellRadius (w : List α) : α := w.getLastD 0

/-- `1/mu · sqrt(‖x−c‖² − (1−mu²)(axis·(x−c))²)`, the plain Euclidean distance while the category has
no direction yet (`major_axis` all zero) -/
def ellDist (mu : α) (x c axis : List α) : α :=
  if axis.any (fun t => t != 0) then
    1 / mu * Transc.sqrt (l2sq (vsub x c) - (1 - mu * mu) * (dot axis (vsub x c) * dot axis (vsub x c)))
  else Transc.sqrt (l2sq (vsub x c))

/-- `T = (r̂ − R − max(R, dist)) / (r̂ − 2R + alpha)` -/
def ellChoice (alpha mu rhat : α) (dim : Nat) (x w : List α) : α :=
  let R := ellRadius w
  let d := ellDist mu x (ellCentre dim w) (ellAxis dim w)
  (rhat - R - max R d) / (rhat - (1 + 1) * R + alpha)

/-- `M = 1 − (R + max(R, dist)) / r̂` -/
def ellMatch (mu rhat : α) (dim : Nat) (x w : List α) : α :=
  let R := ellRadius w
  let d := ellDist mu x (ellCentre dim w) (ellAxis dim w)
  1 - (R + max R d) / rhat

/-- radius and centre move like the hypersphere's; the major axis is the unit vector from the new
centre to the sample once the category has a positive radius (kept when the sample sits on the new
centre — repaired 0/0, finding F02) -/
def ellUpdate (beta mu : α) (dim : Nat) (x w : List α) : List α :=
  let c := ellCentre dim w
  let axis := ellAxis dim w
  let R := ellRadius w
  let d := ellDist mu x c axis
  let R' := R + beta / (1 + 1) * (max R d - R)
  let f := if 0 < d then 1 - min R d / d else (0 : α)
  let c' := vadd c (smul f (smul (beta / (1 + 1)) (vsub x c)))
  let off := vsub x c'
  let nrm := Transc.sqrt (l2sq off)
  let axis' := if ¬ (R = 0) ∧ 0 < nrm then off.map (· / nrm) else axis
  c' ++ axis' ++ [R']

def ellNew (x : List α) : List α := x ++ x.map (fun _ => (0 : α)) ++ [0]

end

/-! ### Gaussian / Bayesian ART: running moments (the part of the rule that is
rational).  A Gaussian weight is `mean ++ sigma ++ inv_sig ++ [sqrt_det, n]`;
only `mean` and `n` are modelled exactly. -/

section
variable {α : Type} [Add α] [Sub α] [Mul α] [Div α] [Zero α] [One α]

/-- `mean' = (1 - 1/n') mean + (1/n') x` with `n' = n + 1` -/
def runningMean (n : α) (mean x : List α) : List α :=
  List.zipWith (fun m xi => (1 - 1 / (n + 1)) * m + 1 / (n + 1) * xi) mean x

end

/-! ### Gaussian ART (Williamson 1996), the whole rule.
weight = `mean ++ sigma ++ 1/sigma² ++ [sqrt(prod sigma²)] ++ [n]` (lengths `dim, dim, dim, 1, 1`) -/

section
variable {α : Type} [Add α] [Sub α] [Mul α] [Div α] [Neg α] [Zero α] [One α] [Transc α]

/-- `np.prod` -/
def vprod : List α → α
  | [] => 1
  | x :: xs => x * vprod xs

def gaussMean (dim : Nat) (w : List α) : List α := w.take dim
def gaussSigma (dim : Nat) (w : List α) : List α := (w.drop dim).take dim
def gaussInv (dim : Nat) (w : List α) : List α := (w.drop (2 * dim)).take dim
def gaussSqrtDet (w : List α) : α := w.getD (w.length - 2) 0
def gaussCount (w : List α) : α := w.getLastD 0

/-- the likelihood term `exp(-1/2 (m - x)ᵀ Σ⁻¹ (m - x))`: it is also the match value -/
def gaussLik (dim : Nat) (x w : List α) : α :=
  Transc.exp (-(1 / (1 + 1)) * dot (List.zipWith (· - ·) (gaussMean dim w) x)
    (List.zipWith (· * ·) (gaussInv dim w) (List.zipWith (· - ·) (gaussMean dim w) x)))

/-- `T = lik / (alpha + sqrt det) * (n / sum of all counts)` (the `(2π)^d` constant is dropped, as in the code) -/
def gaussChoice (alpha : α) (dim : Nat) (allW : List (List α)) (x w : List α) : α :=
  gaussLik dim x w / (alpha + gaussSqrtDet w) * (gaussCount w / vsum (allW.map gaussCount))

/-- running mean and running (diagonal) standard deviation; `1/sigma²`, `sqrt(prod sigma²)` and the count are re-derived -/
def gaussUpdate (dim : Nat) (x w : List α) : List α :=
  let n' := gaussCount w + 1
  let mean' := List.zipWith (· + ·) ((gaussMean dim w).map ((1 - 1 / n') * ·)) (x.map ((1 / n') * ·))
  let d := List.zipWith (· - ·) mean' x
  let sigma' := (List.zipWith (· + ·)
      ((List.zipWith (· * ·) (gaussSigma dim w) (gaussSigma dim w)).map ((1 - 1 / n') * ·))
      ((List.zipWith (· * ·) d d).map ((1 / n') * ·))).map Transc.sqrt
  let s2 := List.zipWith (· * ·) sigma' sigma'
  mean' ++ sigma' ++ s2.map (1 / ·) ++ [Transc.sqrt (vprod s2)] ++ [n']

def gaussNew (sigmaInit x : List α) : List α :=
  let s2 := List.zipWith (· * ·) sigmaInit sigmaInit
  x ++ sigmaInit ++ s2.map (1 / ·) ++ [Transc.sqrt (vprod s2)] ++ [1]

end

end Art
