/-
ArtModel.Prep — data preparation and validation (`artlib/common/utils.py`,
`BaseART.prepare_data / restore_data / validate_data / check_dimensions` and
their overrides in FuzzyART, ART1, ART2A).  Core Lean only; generic over the
number type; executed at `Rat`.

Conventions
* a matrix is a list of rows (`List (List α)`); numpy matrices are rectangular
  by construction, here `Rect X d` is an explicit hypothesis of the theorems.
  `width X` = `X.shape[1]` = length of the first row.  Zero-row matrices are
  outside the model (`np.min(axis=0)` raises on them).
* remembered state of one module = `PrepState` (`d_max_`, `d_min_`, both `None`
  after `__init__`) and `DimState` (`dim_`, absent after `__init__`).
* numpy divides by zero without raising (0/0 = NaN, x/0 = ±inf).  A field has a
  total division with x/0 = 0, so the *plain* `normalize` below is only faithful
  when every divisor is non-zero (`NonConst`).  `normalizeChk` is the IEEE-aware
  twin: an entry is `none` (not a value) when its divisor is zero.
-/
import ArtModel.Basic

namespace Art

/-- a matrix: list of rows -/
abbrev Mat (α : Type) := List (List α)

/-- `X.shape[1]` -/
def width {α : Type} (X : Mat α) : Nat :=
  match X with
  | [] => 0
  | r :: _ => r.length

/-- every row has `d` entries -/
def Rect {α : Type} (X : Mat α) (d : Nat) : Prop := ∀ r ∈ X, r.length = d

section Norm
variable {α : Type} [Add α] [Sub α] [Mul α] [Div α] [Min α] [Max α] [Zero α] [One α]

/-- `np.min(data, axis=0)` (row-wise reduction with `np.minimum`) -/
def colMin : Mat α → List α
  | [] => []
  | r :: rs => rs.foldl vmin r

/-- `np.max(data, axis=0)` -/
def colMax : Mat α → List α
  | [] => []
  | r :: rs => rs.foldl vmax r

/-- one row of `(data - d_min) / (d_max - d_min)` (broadcast along rows) -/
def normRow : List α → List α → List α → List α
  | x :: xs, mx :: mxs, mn :: mns => (x - mn) / (mx - mn) :: normRow xs mxs mns
  | _, _, _ => []

/-- one row of `data * (d_max - d_min) + d_min` -/
def denormRow : List α → List α → List α → List α
  | y :: ys, mx :: mxs, mn :: mns => (y * (mx - mn) + mn) :: denormRow ys mxs mns
  | _, _, _ => []

/-- the affine map with fixed bounds, on a whole matrix -/
def normWith (dmax dmin : List α) (X : Mat α) : Mat α := X.map (fun r => normRow r dmax dmin)

/-- `utils.normalize(data, d_max, d_min)`: each bound is computed from `data`
only when it is not yet remembered; returns `(normalized, d_max, d_min)`. -/
def normalize (X : Mat α) (dmax? dmin? : Option (List α)) : Mat α × List α × List α :=
  let dmin := match dmin? with
    | none => colMin X
    | some m => m
  let dmax := match dmax? with
    | none => colMax X
    | some m => m
  (normWith dmax dmin X, dmax, dmin)

/-- `utils.de_normalize(data, d_max, d_min)` -/
def deNormalize (Y : Mat α) (dmax dmin : List α) : Mat α := Y.map (fun r => denormRow r dmax dmin)

/-- one row of `np.hstack([data, 1.0 - data])` -/
def ccRow (r : List α) : List α := r ++ vcompl r

/-- `utils.compliment_code` -/
def complementCode (X : Mat α) : Mat α := X.map ccRow

/-- one row of `(data[:, :m] + (1 - data[:, m:])) / 2`, `m = total_columns // 2` -/
def deccRow (r : List α) : List α :=
  let m := r.length / 2
  List.zipWith (fun a b => (a + (1 - b)) / (1 + 1)) (r.take m) (r.drop m)

/-- `utils.de_compliment_code`; `none` = the assertion "The number of columns
must be even" fails -/
def deComplementCode (X : Mat α) : Option (Mat α) :=
  if X.all (fun r => r.length % 2 == 0) then some (X.map deccRow) else none

end Norm

/-! ### IEEE-aware normalisation: what the code does on a constant column -/

section Chk
variable {α : Type} [Sub α] [Div α] [Min α] [Max α] [Zero α] [DecidableEq α]

/-- one row; `none` = the divisor `d_max - d_min` is zero, numpy yields NaN (0/0)
or ±inf (x/0): not a value, and rejected by every `validate_data` -/
def normRowChk : List α → List α → List α → List (Option α)
  | x :: xs, mx :: mxs, mn :: mns =>
    (if mx - mn = 0 then none else some ((x - mn) / (mx - mn))) :: normRowChk xs mxs mns
  | _, _, _ => []

def normWithChk (dmax dmin : List α) (X : Mat α) : List (List (Option α)) :=
  X.map (fun r => normRowChk r dmax dmin)

end Chk

/-! ### remembered bounds: `prepare_data` / `restore_data` -/

/-- `d_max_`, `d_min_` of a module; `none` = `None` (never prepared) -/
structure PrepState (α : Type) where
  dmax : Option (List α) := none
  dmin : Option (List α) := none
  deriving Repr, DecidableEq

/-- which pair a module has: `BaseART`'s or `FuzzyART`'s override -/
inductive PrepKind where
  | base | fuzzy
  deriving DecidableEq, Repr

section Prepare
variable {α : Type} [Add α] [Sub α] [Mul α] [Div α] [Min α] [Max α] [Zero α] [One α]

/-- `BaseART.prepare_data`:
`normalized, self.d_max_, self.d_min_ = normalize(X, self.d_max_, self.d_min_)` -/
def prepareBase (s : PrepState α) (X : Mat α) : Mat α × PrepState α :=
  let r := normalize X s.dmax s.dmin
  (r.1, { dmax := some r.2.1, dmin := some r.2.2 })

/-- `BaseART.restore_data`; `none` = bounds are still `None` (numpy raises TypeError) -/
def restoreBase (s : PrepState α) (Y : Mat α) : Option (Mat α) :=
  match s.dmax, s.dmin with
  | some mx, some mn => some (deNormalize Y mx mn)
  | _, _ => none

/-- `FuzzyART.prepare_data`: normalise, then complement-code -/
def prepareFuzzy (s : PrepState α) (X : Mat α) : Mat α × PrepState α :=
  let r := prepareBase s X
  (complementCode r.1, r.2)

/-- `FuzzyART.restore_data`: de-complement-code, then `BaseART.restore_data` -/
def restoreFuzzy (s : PrepState α) (Y : Mat α) : Option (Mat α) :=
  match deComplementCode Y with
  | some Z => restoreBase s Z
  | none => none

def prepareMod : PrepKind → PrepState α → Mat α → Mat α × PrepState α
  | .base => prepareBase
  | .fuzzy => prepareFuzzy

def restoreMod : PrepKind → PrepState α → Mat α → Option (Mat α)
  | .base => restoreBase
  | .fuzzy => restoreFuzzy

/-- one channel of a compound estimator: the module's kind, its remembered
bounds, and the matrix handed to / returned by that module -/
abbrev Chan (α : Type) := PrepKind × PrepState α × Mat α

/-- compound `prepare_data` (ARTMAP: A and B side; DeepARTMAP/SMART: one per
module; FusionART: one per channel, before `join_channel_data`; FALCON: states,
actions, rewards): every module prepares its own matrix with its own bounds. -/
def prepareChans (cs : List (Chan α)) : List (Chan α) :=
  cs.map (fun c => let r := prepareMod c.1 c.2.1 c.2.2; (c.1, r.2, r.1))

/-- compound `restore_data` -/
def restoreChans (cs : List (Chan α)) : List (Option (Mat α)) :=
  cs.map (fun c => restoreMod c.1 c.2.1 c.2.2)

end Prepare

/-! ### validation -/

/-- `dim_` of a module; `none` = attribute absent (`hasattr(self, "dim_")` false) -/
structure DimState where
  dim : Option Nat := none
  deriving Repr, DecidableEq

section Validate
variable {α : Type} [Add α] [Sub α] [Mul α] [Div α] [Zero α] [One α] [NatCast α]
  [LE α] [DecidableRel (α := α) (· ≤ ·)] [DecidableEq α]

/-- `np.all(X >= 0) and np.all(X <= 1.0)` -/
def inUnit (X : Mat α) : Bool := X.all (fun r => r.all (fun v => decide (0 ≤ v) && decide (v ≤ 1)))

/-- `np.array_equal(X, X.astype(bool))`: every entry is the number 0 or 1 -/
def isBinary (X : Mat α) : Bool := X.all (fun r => r.all (fun v => decide (v = 0) || decide (v = 1)))

/-- the `else` branch of `check_dimensions`: `X.shape[1] == self.dim_`
(vacuous while `dim_` is absent) -/
def widthOk (dim? : Option Nat) (X : Mat α) : Bool :=
  match dim? with
  | none => true
  | some d => width X == d

/-- the tolerance `0.01` of `FuzzyART.validate_data` -/
def ccTol : α := 1 / ((100 : Nat) : α)

/-- `np.all(abs(np.sum(X, axis=1) - float(X.shape[1] / 2)) <= 0.01)` -/
def rowSumsOk (X : Mat α) : Bool :=
  let d : α := ((width X / 2 : Nat) : α)
  X.all (fun r => decide (vsum r - d ≤ ccTol) && decide (d - vsum r ≤ ccTol))

/-- `BaseART.validate_data` as a predicate: range, then width -/
def validBase (dim? : Option Nat) (X : Mat α) : Bool := inUnit X && widthOk dim? X

/-- `FuzzyART.validate_data`: even width, range, row sums, then width -/
def validFuzzy (dim? : Option Nat) (X : Mat α) : Bool :=
  (width X % 2 == 0) && inUnit X && rowSumsOk X && widthOk dim? X

/-- `ART1.validate_data`: binary, then width -/
def validART1 (dim? : Option Nat) (X : Mat α) : Bool := isBinary X && widthOk dim? X

/-- `alpha <= 1 / sqrt(dim)` for `alpha ≥ 0`, without the square root -/
def art2AlphaOk (alpha : α) (w : Nat) : Bool := decide (alpha * alpha * (w : α) ≤ 1)

/-- `ART2A`: `BaseART.validate_data` + the `alpha` bound, which
`ART2A.check_dimensions` tests only on the call that first sees a width -/
def validART2A (alpha : α) (dim? : Option Nat) (X : Mat α) : Bool :=
  inUnit X && (match dim? with
    | none => art2AlphaOk alpha (width X)
    | some d => width X == d)

/-- `validate_data` of BaseART / FuzzyART / ART1 (and ART2A, see
`runValidateART2A`) as the state transformer it is:
the last statement, `check_dimensions`, writes `dim_` when it is absent and
asserts nothing afterwards, so `dim_` is written only by an accepting call. -/
def runValidate (valid : Option Nat → Mat α → Bool) (s : DimState) (X : Mat α) : DimState × Bool :=
  if valid s.dim X then
    (match s.dim with
      | none => { dim := some (width X) }
      | some _ => s, true)
  else (s, false)

/-- `ART2A`'s `validate_data` as written: the range test, then
`ART2A.check_dimensions`, which on the call that first sees a width asserts
`alpha <= 1/sqrt(X.shape[1])` and only then assigns `self.dim_ = X.shape[1]`
(BayesianART's `cov_init` shape test has the same order).  Until /repo commit
9901844 the assignment came first and a rejecting first call left `dim_`
behind (findings C18-a, C18-b, fixed). -/
def runValidateART2A (alpha : α) (s : DimState) (X : Mat α) : DimState × Bool :=
  if inUnit X then
    match s.dim with
    | none => if art2AlphaOk alpha (width X) then ({ dim := some (width X) }, true) else (s, false)
    | some d => (s, width X == d)
  else (s, false)

end Validate

/-! ### entry points: `validate_data(X)` first, then the body -/

inductive PrepErr where
  | assert
  deriving DecidableEq, Repr

/-- `fit` / `partial_fit` / `predict` of a clustering estimator: the estimator
state is `dim_` plus everything else (`τ`: weights, labels, counters, maps);
`validate` may touch `dim_` only; the body runs only after acceptance.  Returns
the state after the call and the result or the error raised. -/
def checked {X τ ρ : Type} (validate : DimState → X → DimState × Bool)
    (body : DimState × τ → X → (DimState × τ) × ρ) (s : DimState × τ) (x : X) :
    (DimState × τ) × Except PrepErr ρ :=
  let v := validate s.1 x
  if v.2 then
    let r := body (v.1, s.2) x
    (r.1, .ok r.2)
  else ((v.1, s.2), .error .assert)

/-- a validation procedure that leaves no trace when it rejects -/
def PureOnReject {X : Type} (validate : DimState → X → DimState × Bool) : Prop :=
  ∀ s x, (validate s x).2 = false → (validate s x).1 = s

end Art
