/-
ArtModel.Fusion — FusionART (`artlib/fusion/FusionART.py`) on top of the generic
`Kernel` / `search` / `stepFit` machinery.  Core Lean only; generic over the
number type (executed at `Rat`).

How the Python is mirrored
* a channel = (module kernel, data width, gamma);
* the sample is cut with `self._channel_indices[k]` = `slice (widths chans) k`; the
  fused weight is cut with `self._weight_indices[k]` = `slice (wlens chans) k`, the
  positions `new_weight` derives from the lengths of the modules' own weights
  (`Chan.wlen`: what module `k`'s `new_weight` returns — for every artlib module a
  function of the channel width only, so `_weight_indices` is constant from the first
  sample on; before that there is no weight to cut).  (Until commit 9bccfb4 the weight
  was cut with the data ranges — DESIGN finding F07, fixed.);
* `category_choice` = `sum([a_k * gamma_k ...])`, Python's left-to-right `sum`
  starting from `0`; a skipped channel contributes `1.0 * gamma_k`;
  a NaN channel activation (`none`) makes the fused activation NaN;
* `match_criterion_bin` = `all(...)` of the modules' own tests, vacuous for a
  skipped channel; `_match_tracking` lets every channel track;
* `update` / `new_weight` = concatenation of the modules' results; what
  `set_weight` / `add_weight` keep are the `_weight_indices` slices of that vector and
  the `W` property re-assembles them by concatenation: `stored`;
* `modules[k].W`, `modules[k].weight_sample_counter_` are projections of the
  fused state (`chanState`); the sample counter lives on the FusionART object;
  `modsStep` / `modsRun` are the same training loop written on the module lists, the
  way the code runs it (`W` property, `add_weight`, `set_weight`) — proved to be these
  projections in `ArtProofs/Fusion.lean`;
* `predict(X, skip_channels)` normalises negative indices once (`normIdx`);
  `predict_regression` normalises, calls `predict` (which normalises again) and reads
  its list of centres by position (since /repo f0de10c; by channel number before);
* `join_channel_data` / `split_channel_data`, `prepare_data` / `restore_data`
  row by row; `restore_data` pairs every kept channel with its position in the split
  list (since /repo aea0d0b; it used the channel number before).
Everything lives in `namespace Art.Fusion`.
-/
import ArtModel.Kernels

namespace Art.Fusion
open Art

/-- one data channel of a FusionART: the module's four kernel functions (for its
current hyper-parameters), the width of its data slice, its `gamma`, and the length
of the module's weight vector (the length of what its `new_weight` returns) -/
structure Chan (α : Type) where
  K : Kernel (List α) (List α) α α
  width : Nat
  gamma : α
  wlen : Nat

/-! ### slices -/
section Slices
variable {β : Type}

/-- cut a vector at the positions of `get_channel_position_tuples(widths)`;
Python slices clip at the end of the vector, and so do `take` / `drop` -/
def splitBy : List Nat → List β → List (List β)
  | [], _ => []
  | w :: ws, v => v.take w :: splitBy ws (v.drop w)

/-- `v[_channel_indices[k][0] : _channel_indices[k][1]]` -/
def slice (ws : List Nat) (k : Nat) (v : List β) : List β := (splitBy ws v).getD k []

/-- start of channel `k`: `_channel_indices[k][0]` -/
def offset (ws : List Nat) (k : Nat) : Nat := (ws.take k).sum

/-- what `add_weight` / `set_weight` keep of a freshly computed fused weight,
re-assembled by the `W` property: the concatenation of its slices at the positions `ws` -/
def stored (ws : List Nat) (v : List β) : List β := (splitBy ws v).flatten

/-- all entries present (an exception anywhere aborts the whole list comprehension) -/
def allSome : List (Option β) → Option (List β)
  | [] => some []
  | none :: _ => none
  | some a :: l => (allSome l).map (a :: ·)

/-- swap the entries `i` and `i+1` of a list (identity when there are not both) -/
def swapAt : Nat → List β → List β
  | 0, a :: b :: l => b :: a :: l
  | 0, l => l
  | _ + 1, [] => []
  | i + 1, a :: l => a :: swapAt i l

/-- the same rows with the column blocks of channels `i` and `i+1` exchanged -/
def swapCols (ws : List Nat) (i : Nat) (v : List β) : List β := (swapAt i (splitBy ws v)).flatten

end Slices

/-! ### the fused kernel -/
section Kernel
variable {α : Type} [Add α] [Mul α] [Zero α] [One α]

/-- `_channel_indices` as widths -/
def widths (chans : List (Chan α)) : List Nat := chans.map (·.width)

/-- `_weight_indices` as widths -/
def wlens (chans : List (Chan α)) : List Nat := chans.map (·.wlen)

/-- `a + b` with NaN propagation -/
def oadd : Option α → Option α → Option α
  | some a, some b => some (a + b)
  | _, _ => none

/-- Python `sum([...])`: left to right, starting from `0` -/
def osum (l : List (Option α)) : Option α := l.foldl oadd (some 0)

def noSkip : Nat → Bool := fun _ => false

/-- `a_k * gamma_k` for channel `k`; `1.0 * gamma_k` when the channel is skipped.
The module sees its own weight list `modules[k].W` = the `k`-slices of `W`. -/
def chanTerm (chans : List (Chan α)) (skip : Nat → Bool) (W : List (List α)) (x w : List α)
    (k : Nat) (c : Chan α) : Option α :=
  if skip k then some (1 * c.gamma)
  else (c.K.choice (W.map (slice (wlens chans) k)) (slice (widths chans) k x)
          (slice (wlens chans) k w)).map (· * c.gamma)

def chanTerms (chans : List (Chan α)) (skip : Nat → Bool) (W : List (List α)) (x w : List α) :
    List (Option α) :=
  chans.zipIdx.map (fun ck => chanTerm chans skip W x w ck.2 ck.1)

/-- `FusionART.category_choice(i, w, params, skip_channels)` -/
def choiceSkip (chans : List (Chan α)) (skip : Nat → Bool) (W : List (List α)) (x w : List α) :
    Option α :=
  osum (chanTerms chans skip W x w)

/-- the channel match values `cache[k]["match_criterion"]` -/
def matchVec (chans : List (Chan α)) (x w : List α) : List α :=
  chans.zipIdx.map (fun ck =>
    ck.1.K.matchv (slice (widths chans) ck.2 x) (slice (wlens chans) ck.2 w))

/-- the per-channel results of `FusionART.update`, before `np.concatenate` -/
def updatePieces (chans : List (Chan α)) (x w : List α) : List (List α) :=
  chans.zipIdx.map (fun ck =>
    ck.1.K.update (slice (widths chans) ck.2 x) (slice (wlens chans) ck.2 w))

/-- the per-channel results of `FusionART.new_weight` -/
def newPieces (chans : List (Chan α)) (x : List α) : List (List α) :=
  chans.zipIdx.map (fun ck => ck.1.K.newW (slice (widths chans) ck.2 x))

/-- `FusionART.update` (the vector handed to `set_weight`) -/
def rawUpdate (chans : List (Chan α)) (x w : List α) : List α := (updatePieces chans x w).flatten

/-- `FusionART.new_weight` (the vector handed to `add_weight`) -/
def rawNew (chans : List (Chan α)) (x : List α) : List α := (newPieces chans x).flatten

/-- FusionART as a `Kernel`: the fused weight of a category is what the `W`
property returns for it -/
def fusionKernel (chans : List (Chan α)) : Kernel (List α) (List α) α (List α) :=
  { choice := choiceSkip chans noSkip
    matchv := matchVec chans
    update := fun x w => stored (wlens chans) (rawUpdate chans x w)
    newW := fun x => stored (wlens chans) (rawNew chans x) }

/-- `modules[k]` as seen from outside: its weight list and per-category counters -/
structure ModState (α : Type) where
  W : List (List α)
  cnt : List Nat
  deriving Repr

/-- `modules[k].W`, `modules[k].weight_sample_counter_` (`ws` = the weight lengths) -/
def chanState (ws : List Nat) (k : Nat) (s : ArtState (List α)) : ModState α :=
  ⟨s.W.map (slice ws k), s.cnt⟩

/-- the `W` property read back from the modules:
`[concatenate([modules[k].W[i] for k in range(n)]) for i in range(modules[0].n_clusters)]` -/
def fusedW (mods : List (ModState α)) : List (List α) :=
  (List.range ((mods.head?.map (·.W.length)).getD 0)).map
    (fun i => (mods.map (fun m => m.W.getD i [])).flatten)

/-! #### the same step on the module lists themselves

`FusionART` keeps no fused list: `step_fit` reads `self.W` (re-assembled from the modules on
every access) and writes through `add_weight` / `set_weight`, which hand every module its slice.
`modsStep` is that step on the list of module states; `ArtProofs/Fusion.lean` shows that it is
the projection of `stepFit (fusionKernel chans)`. -/

/-- `FusionART.add_weight(new_w)` -/
def modsAdd (wls : List Nat) (mods : List (ModState α)) (w : List α) : List (ModState α) :=
  List.zipWith (fun m wk => ⟨m.W ++ [wk], m.cnt ++ [1]⟩) mods (splitBy wls w)

/-- `FusionART.set_weight(idx, new_w)` -/
def modsSet (wls : List Nat) (mods : List (ModState α)) (c : Nat) (w : List α) : List (ModState α) :=
  List.zipWith (fun m wk => ⟨m.W.set c wk, m.cnt.set c (m.cnt.getD c 0 + 1)⟩) mods (splitBy wls w)

/-- `BaseART.step_fit` as executed by a FusionART, on the module states -/
def modsStep {θ : Type} [LT α] [DecidableRel (α := α) (· < ·)] (chans : List (Chan α))
    (cfg : SearchCfg (List α) θ) (th0 : θ) (veto : Nat → Bool) (mods : List (ModState α)) (x : List α) :
    List (ModState α) × Nat :=
  let W := fusedW mods
  if W.isEmpty then (modsAdd (wlens chans) mods (rawNew chans x), 0)
  else
    match (stepSearch (fusionKernel chans) cfg th0 veto W x).winner with
    | some c => (modsSet (wlens chans) mods c (rawUpdate chans x (W.getD c [])), c)
    | none => (modsAdd (wlens chans) mods (rawNew chans x), W.length)

/-- `partial_fit` on the module states (reset function = a function of sample and category):
returns the module states and the labels -/
def modsRun {θ : Type} [LT α] [DecidableRel (α := α) (· < ·)] (chans : List (Chan α))
    (cfg : SearchCfg (List α) θ) (th0 : θ) (veto : List α → Nat → Bool) :
    List (ModState α) × List Nat → List (List α) → List (ModState α) × List Nat
  | acc, [] => acc
  | acc, x :: xs =>
    modsRun chans cfg th0 veto
      ((modsStep chans cfg th0 (veto x) acc.1 x).1, acc.2 ++ [(modsStep chans cfg th0 (veto x) acc.1 x).2]) xs

end Kernel

/-! ### vigilance of all channels -/
section Cfg
variable {α : Type} [LT α] [LE α] [DecidableRel (α := α) (· < ·)] [DecidableRel (α := α) (· ≤ ·)]

/-- thresholds = the channels' `rho` values; `passes` = `all(M_bin)`;
`track` = every module's `_match_tracking` on its own match value -/
def fusionCfg (mode : MT) (adjP adjM : α → α) (top : α) : SearchCfg (List α) (List α) :=
  { passes := fun th m => (List.zip th m).all (fun tv => passesScalar mode false tv.1 tv.2)
    track := fun th m => (List.zip th m).map (fun tv => trackScalar mode adjP adjM top tv.1 tv.2)
    keep := mode != .one
    tilde := mode == .tilde }

/-- public `match_criterion_bin(i, w, params, cache, op, skip_channels)`:
`True` for a skipped channel -/
def matchBinSkip (mode : MT) (skip : Nat → Bool) (rhos ms : List α) : Bool :=
  ((List.zip rhos ms).zipIdx).all (fun tvk => skip tvk.2 || passesScalar mode false tvk.1.1 tvk.1.2)

end Cfg

/-! ### prediction with skipped channels -/
section Predict
variable {α : Type} [Add α] [Mul α] [Zero α] [One α] [LT α] [DecidableRel (α := α) (· < ·)]

/-- `self.n + k if k < 0 else k` -/
def normIdx (n : Nat) (k : Int) : Int := if k < 0 then (n : Int) + k else k

/-- `k in skip_channels` after normalisation -/
def skipSet (n : Nat) (ks : List Int) : Nat → Bool :=
  fun j => (ks.map (normIdx n)).contains (j : Int)

/-- `FusionART.step_pred(x, skip_channels)` -/
def stepPredSkip (chans : List (Chan α)) (skip : Nat → Bool) (W : List (List α)) (x : List α) :
    Option Nat :=
  argmaxNp (W.map (choiceSkip chans skip W x))

/-- `FusionART.predict(X, skip_channels)` -/
def predictSkip (chans : List (Chan α)) (ks : List Int) (W : List (List α)) (xs : List (List α)) :
    List (Option Nat) :=
  xs.map (stepPredSkip chans (skipSet chans.length ks) W)

/-- `get_channel_centers(k)`: `centre k` is module `k`'s weight-to-centre map -/
def channelCentres (chans : List (Chan α)) (centre : Nat → List α → List α) (W : List (List α))
    (k : Nat) : List (List α) :=
  W.map (fun w => centre k (slice (wlens chans) k w))

/-- `predict_regression(X, target_channels)` for one row: one centre per target, in the
order the targets were given (`centers[j][c]` for position `j`; a single target returns the
bare array, here the one-element list).  `none` = an exception (no such category).
(`target_channels` still negative after normalisation are outside the model.) -/
def predictRegression (chans : List (Chan α)) (centre : Nat → List α → List α) (targets : List Int)
    (W : List (List α)) (x : List α) : Option (List (List α)) :=
  let tn := targets.map (normIdx chans.length)
  -- `self.predict(X, skip_channels=target_channels)` normalises once more
  match stepPredSkip chans (skipSet chans.length tn) W x with
  | none => none
  | some c =>
    let centers := tn.map (fun k => channelCentres chans centre W k.toNat)
    if tn.length = 1 then
      (((centers[0]?).bind (·[c]?)).map (fun v => [v]))
    else
      -- `[np.array([centers[j][c] for c in C]) for j in range(len(target_channels))]`
      allSome (centers.map (·[c]?))

end Predict

/-! ### join / split, prepare / restore (row by row) -/
section Join
variable {α : Type}

/-- `join_channel_data` for one row: the supplied (non-skipped) channel rows in
order, a filler block for each skipped channel.  `none` = `IndexError`
(fewer arrays supplied than channels kept). -/
def joinFrom (filler : α) (skip : Nat → Bool) : Nat → List Nat → List (List α) → Option (List α)
  | _, [], _ => some []
  | k, w :: ws, data =>
    if skip k then (joinFrom filler skip (k + 1) ws data).map (List.replicate w filler ++ ·)
    else match data with
      | [] => none
      | d :: ds => (joinFrom filler skip (k + 1) ws ds).map (d ++ ·)

def joinRow (ws : List Nat) (skip : Nat → Bool) (filler : α) (data : List (List α)) : Option (List α) :=
  joinFrom filler skip 0 ws data

/-- `split_channel_data` for one row: the slices of the channels that were not skipped -/
def splitFrom (skip : Nat → Bool) : Nat → List Nat → List α → List (List α)
  | _, [], _ => []
  | k, w :: ws, v =>
    if skip k then splitFrom skip (k + 1) ws (v.drop w)
    else v.take w :: splitFrom skip (k + 1) ws (v.drop w)

def splitRow (ws : List Nat) (skip : Nat → Bool) (v : List α) : List (List α) := splitFrom skip 0 ws v

/-- the channel numbers that are kept -/
def kept (n : Nat) (skip : Nat → Bool) : List Nat := (List.range n).filter (fun i => !skip i)

/-- `prepare_data(channel_data, skip_channels)` for one row; `channel_data` has one
entry per channel (`channel_data[i]` is read for every kept `i`), `prep i` is
module `i`'s `prepare_data` once its column bounds are fixed -/
def prepareRow (prep : Nat → List α → List α) (ws : List Nat) (skip : Nat → Bool) (filler : α)
    (data : List (List α)) : Option (List α) :=
  (allSome ((kept ws.length skip).map (fun i => (data[i]?).map (prep i)))).bind (joinRow ws skip filler)

/-- `restore_data(X, skip_channels)` for one row: the list returned by `split_channel_data`
holds only the kept channels; kept channel `i` is paired with its position `pos` in that list
(`for pos, i in enumerate(kept_channels)`) -/
def restoreRow (rest : Nat → List α → List α) (ws : List Nat) (skip : Nat → Bool) (v : List α) :
    Option (List (List α)) :=
  let cd := splitRow ws skip v
  allSome ((kept ws.length skip).zipIdx.map (fun ip => (cd[ip.2]?).map (rest ip.1)))

end Join

end Art.Fusion
