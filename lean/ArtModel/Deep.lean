/-
ArtModel.Deep — DeepARTMAP and SMART (`artlib/hierarchical/DeepARTMAP.py`,
`SMART.py`): a hierarchy is a list of SimpleARTMAP layers chained by
"`labels_a` of layer i−1 supervise layer i".  Core Lean only.

One kernel *type* per hierarchy: every level has its own kernel, search
configuration and threshold (`Level`), but all share the sample type `X` and the
weight type `Wt`.  `Xs : List (List X)` is the Python `X: list[np.ndarray]`, one
sample list per module.

Supervised:    `layers[i] = SimpleARTMAP(modules[i])`; layer 0 is trained on
               `(X[0], y)`, layer i on `(X[i], layers[i-1].labels_a)`.
Unsupervised:  `layers[0] = ARTMAP(module_a = modules[1], module_b = modules[0])`
               trained on `(X[1], X[0])`; `layers[i≥1] = SimpleARTMAP(modules[i+1])`
               trained on `(X[i+1], layers[i-1].labels_a)`.
An `ARTMAP` *is a* `SimpleARTMAP` (its `labels_`/`map`/`module_a` are the
inherited ones, `labels_` = the B-side labels it was handed) plus a B-side
module, so the read-only operations (`labels_deep_`, `map_deep`, `predict`) see
every hierarchy as a `List (SMapState Wt)`.
-/
import ArtModel.ARTMAP

namespace Art

/-- One module of the hierarchy: kernel (hyper-parameters fixed), match-tracking
configuration and configured vigilance. -/
structure Level (X Wt α μ θ : Type) where
  K : Kernel X Wt α μ
  cfg : SearchCfg μ θ
  th : θ

/-- Python `l[-n:]` for `n ≥ 0` (`l[-0:]` is the whole list). -/
def lastN {β : Type} (n : Nat) (l : List β) : List β :=
  if n = 0 then l else l.drop (l.length - n)

section
variable {X Wt α μ θ : Type} [LT α] [DecidableRel (α := α) (· < ·)]

/-! ### training: the chain of SimpleARTMAP layers -/

/-- The `fit` loop over layers: a fresh SimpleARTMAP per level (`fit` builds new
layer objects, and `SimpleARTMAP.fit` empties the module), each supervised by the
*whole* `labels_a` of the previous one. -/
def chainFit : List (Level X Wt α μ θ) → List (List X) → List Nat → List (SMapState Wt)
  | L :: Ls, xs :: Xs, y =>
    let s := smapFit L.K L.cfg L.th {} (xs.zip y)
    s :: chainFit Ls Xs s.a.labels
  | _, _, _ => []

/-- The `partial_fit` loop over layers: each layer continues from its state and
is supervised by `labels_a[-n:]` of the previous one, `n = X[0].shape[0]`. -/
def chainPartialFit (n : Nat) :
    List (Level X Wt α μ θ) → List (SMapState Wt) → List (List X) → List Nat → List (SMapState Wt)
  | L :: Ls, s :: ss, xs :: Xs, y =>
    let s' := smapPartialFit L.K L.cfg L.th s (xs.zip y)
    s' :: chainPartialFit n Ls ss Xs (lastN n s'.a.labels)
  | _, _, _, _ => []

/-- `X[0].shape[0]` -/
def batchSize (Xs : List (List X)) : Nat := (Xs.head?.map List.length).getD 0

/-- `DeepARTMAP.fit(X, y)` with labels. -/
def deepFitSup (Ls : List (Level X Wt α μ θ)) (Xs : List (List X)) (y : List Nat) :
    List (SMapState Wt) :=
  chainFit Ls Xs y

/-- `DeepARTMAP.partial_fit(X, y)` with labels; `st = []` is "no layers yet"
(`len(self.layers) == 0`): fresh layers are created first. -/
def deepPartialFitSup (Ls : List (Level X Wt α μ θ)) (st : List (SMapState Wt))
    (Xs : List (List X)) (y : List Nat) : List (SMapState Wt) :=
  let st := if st.isEmpty then List.replicate Ls.length {} else st
  chainPartialFit (batchSize Xs) Ls st Xs y

/-- State of an unsupervised hierarchy: layer 0 is an ARTMAP, the others SimpleARTMAPs. -/
structure DeepUnsup (Wt : Type) where
  top : ArtmapState Wt Wt := {}
  rest : List (SMapState Wt) := []

/-- the layers as SimpleARTMAPs (an ARTMAP is one) -/
def DeepUnsup.layers (d : DeepUnsup Wt) : List (SMapState Wt) := d.top.s :: d.rest

/-- `DeepARTMAP.fit(X)` without labels; `none` = the assertion `n_modules >= 2`
(or a missing data matrix). -/
def deepFitUnsup : List (Level X Wt α μ θ) → List (List X) → Option (DeepUnsup Wt)
  | L0 :: L1 :: Ls, X0 :: X1 :: Xs =>
    let top := artmapFit L1.K L0.K L1.cfg L0.cfg L1.th L0.th {} X1 X0
    some { top := top, rest := chainFit Ls Xs top.s.a.labels }
  | _, _ => none

/-- `DeepARTMAP.partial_fit(X)` without labels; `st = none` is "no layers yet". -/
def deepPartialFitUnsup : List (Level X Wt α μ θ) → Option (DeepUnsup Wt) → List (List X) →
    Option (DeepUnsup Wt)
  | L0 :: L1 :: Ls, st, X0 :: X1 :: Xs =>
    let d := st.getD { top := {}, rest := List.replicate Ls.length {} }
    let n := X0.length
    let top := artmapPartialFit L1.K L0.K L1.cfg L0.cfg L1.th L0.th d.top X1 X0
    some { top := top, rest := chainPartialFit n Ls d.rest Xs (lastN n top.s.a.labels) }
  | _, _, _ => none

/-! ### SMART -/

/-- `SMART.__init__`: one module per vigilance value, all other hyper-parameters shared. -/
def smartLevels (K : Kernel X Wt α μ) (cfg : SearchCfg μ θ) (rhos : List θ) : List (Level X Wt α μ θ) :=
  rhos.map (fun rho => { K := K, cfg := cfg, th := rho })

/-- `SMART.fit(X)` = `DeepARTMAP.fit([X] * n_modules)`, unsupervised. -/
def smartFit (K : Kernel X Wt α μ) (cfg : SearchCfg μ θ) (rhos : List θ) (xs : List X) :
    Option (DeepUnsup Wt) :=
  deepFitUnsup (smartLevels K cfg rhos) (List.replicate rhos.length xs)

/-- `SMART.partial_fit(X)` -/
def smartPartialFit (K : Kernel X Wt α μ) (cfg : SearchCfg μ θ) (rhos : List θ)
    (st : Option (DeepUnsup Wt)) (xs : List X) : Option (DeepUnsup Wt) :=
  deepPartialFitUnsup (smartLevels K cfg rhos) st (List.replicate rhos.length xs)

/-! ### reading a hierarchy -/

/-- `labels_deep_`, as a list of columns:
`[layer.labels_ for layer in layers] + [layers[-1].labels_a]`
(`[]` for no layers, where Python raises). -/
def labelsDeep : List (SMapState Wt) → List (List Nat)
  | [] => []
  | [s] => [s.labelsB, s.a.labels]
  | s :: t :: r => s.labelsB :: labelsDeep (t :: r)

/-- `map_a2b` on a vector; `none` = `KeyError`. -/
def mapA2B? (m : List (Option Nat)) (ya : List Nat) : Option (List Nat) := ya.mapM (mapGet m)

/-- `map_deep(level, y_a)` for a normalised level `0 ≤ level < n_layers`:
apply the maps of layers `level, level-1, …, 0`. -/
def mapDeepNat (layers : List (SMapState Wt)) : Nat → List Nat → Option (List Nat)
  | 0, ya => (layers[0]?).bind (fun s => mapA2B? s.map ya)
  | l + 1, ya => (layers[l + 1]?).bind (fun s => (mapA2B? s.map ya).bind (mapDeepNat layers l))

/-- `map_deep(level, y_a)`: a negative level counts from the last layer.  Levels
outside `-n_layers ≤ level < n_layers` are outside the documented domain
(`none`; Python indexes `layers[level]` with whatever remains). -/
def mapDeep (layers : List (SMapState Wt)) (level : Int) (ya : List Nat) : Option (List Nat) :=
  let lv := if level < 0 then level + layers.length else level
  if lv < 0 then none else mapDeepNat layers lv.toNat ya

/-- `map_deep(level, c)` for a scalar label -/
def mapDeepLabel (layers : List (SMapState Wt)) (level : Int) (c : Nat) : Option Nat :=
  (mapDeep layers level [c]).bind (·.head?)

/-- Carry a label vector `y` up through a list of layers:
`mapUp [s₀,…,s_k] y = [c₀,…,c_k, y]` with `c_k = s_k.map(y)` and
`c_i = s_i.map(c_{i+1})` — the loop
`for layer in layers[:-1][::-1]: pred.append(layer.map_a2b(pred[-1]))` of
`predict`, result already in top-to-bottom order.  `none` = `KeyError`. -/
def mapUp : List (SMapState Wt) → List Nat → Option (List (List Nat))
  | [], y => some [y]
  | s :: ss, y =>
    (mapUp ss y).bind (fun cols =>
      ((cols.head?).bind (mapA2B? s.map)).map (fun c => c :: cols))

/-- `DeepARTMAP.predict(X)`: `predict_ab` of the last layer (with the kernel `K`
of the last module, on the last data matrix), then `map_a2b` downwards through
the other layers; result ordered from the top level to the finest:
`n_layers + 1` vectors.  `none` = an exception (`IndexError` for no layers,
numpy's arg-max of an empty sequence, `KeyError`). -/
def deepPredict (K : Kernel X Wt α μ) (layers : List (SMapState Wt)) (xs : List X) :
    Option (List (List Nat)) :=
  match layers.getLast? with
  | none => none
  | some last =>
    (xs.mapM (smapStepPred K last)).bind (fun ab =>
      (mapUp layers.dropLast (ab.map (·.2))).map (fun cols => cols ++ [ab.map (·.1)]))

end

end Art
