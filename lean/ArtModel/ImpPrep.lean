/-
ArtModel.ImpPrep — the target language of the data-preparation translator
(`harness/artv/ptrans.py`).  Core Lean only; nothing in this file knows about
artlib or about `ArtModel/Prep.lean`: these are *generic* numpy array
operations on lists (rank 1) and lists of rows (rank 2), and the monad in
which a Python method that writes attributes of `self` and may raise is run.

Conventions
* a rank-2 array is a list of rows.  numpy arrays are rectangular; a ragged
  list of lists is not an array and what the helpers do on it is arbitrary
  (but total).  A zero-row matrix has no width (`shape` gives 0 columns).
* an operation that numpy performs without ever raising (array ∘ scalar,
  comparisons, `np.all`, `np.sum(axis=1)`, slicing) is a total function; an
  operation that can raise (`np.min(axis=0)` of zero rows, broadcasting of two
  arrays, `np.hstack`) returns `Except PyErr`.
* numbers are exact (the model is run at `Rat`): `np.sum` adds in an order that
  numpy leaves unspecified (pairwise); here it is a right fold.
-/
namespace Art.Np

/-- the Python exceptions the translated code can raise -/
inductive PyErr where
  /-- `AssertionError`: an `assert` failed -/
  | assertion
  /-- `ValueError`: shapes cannot be broadcast / reduction of an empty axis / `hstack` of different heights -/
  | value
  /-- `TypeError`: arithmetic on `None` -/
  | type
  /-- `AttributeError`: an attribute that was never assigned is read -/
  | attribute
  deriving DecidableEq, Repr

/-- `assert c` in a function that writes no attribute -/
def assert (c : Bool) : Except PyErr Unit := if c then .ok () else .error .assertion

/-- an `Optional[...]` value used where an array is required: `None` raises `TypeError` -/
def notNone {β : Type} : Option β → Except PyErr β
  | some b => .ok b
  | none => .error .type

/-! ### total array operations -/

/-- `X.shape` of a rank-2 array -/
def shape {β : Type} (X : List (List β)) : Nat × Nat :=
  (X.length, match X with
    | [] => 0
    | r :: _ => r.length)

/-- elementwise operation of a rank-2 array with a scalar (`1.0 - X`, `X >= 0`, `X / 2`): a 0-d operand always broadcasts -/
def ew2 {β γ : Type} (f : β → γ) (X : List (List β)) : List (List γ) := X.map (fun r => r.map f)

/-- the same for a rank-1 array -/
def ew1 {β γ : Type} (f : β → γ) (v : List β) : List γ := v.map f

/-- `np.all` of a rank-2 Boolean array -/
def all2 (B : List (List Bool)) : Bool := B.all (fun r => r.all id)

/-- `np.all` of a rank-1 Boolean array -/
def all1 (b : List Bool) : Bool := b.all id

/-- `np.sum` of a rank-1 array -/
def sum1 {β : Type} [Add β] [Zero β] (v : List β) : β := v.foldr (· + ·) 0

/-- `np.sum(X, axis=1)`: one sum per row -/
def sumAxis1 {β : Type} [Add β] [Zero β] (X : List (List β)) : List β := X.map sum1

/-- `abs` of a number -/
def abs {β : Type} [LE β] [DecidableRel (α := β) (· ≤ ·)] [Sub β] [Zero β] (x : β) : β :=
  if 0 ≤ x then x else 0 - x

/-- `X[:, lo:hi]` (`hi = none`: to the end; Python clips at the row's end) -/
def cols {β : Type} (X : List (List β)) (lo : Nat) (hi : Option Nat) : List (List β) :=
  X.map (fun r => (match hi with
    | some h => r.take h
    | none => r).drop lo)

/-- `X.astype(bool)`: non-zero = True -/
def astypeBool {β : Type} [Zero β] [DecidableEq β] (X : List (List β)) : List (List Bool) :=
  ew2 (fun v => !decide (v = 0)) X

/-- a Boolean promoted to a number (`True == 1`, `False == 0`) -/
def ofBool {β : Type} [Zero β] [One β] (b : Bool) : β := if b then 1 else 0

/-- `np.array_equal(X, B)` for a numeric `X` and a Boolean `B` of rank 2: same shape and all entries equal
(the Boolean is promoted) -/
def arrayEqualNB {β : Type} [Zero β] [One β] [DecidableEq β] : List (List β) → List (List Bool) → Bool
  | [], [] => true
  | r :: X, b :: B => (r.length == b.length && (List.zipWith (fun v c => decide (v = ofBool c)) r b).all id)
      && arrayEqualNB X B
  | _, _ => false

/-! ### operations that can raise -/

/-- `xs` mapped with a function that can raise (left to right, first error wins) -/
def mapE {β γ : Type} (f : β → Except PyErr γ) : List β → Except PyErr (List γ)
  | [] => .ok []
  | a :: as =>
    match f a with
    | .error e => .error e
    | .ok c =>
      match mapE f as with
      | .error e => .error e
      | .ok cs => .ok (c :: cs)

/-- two lists of equal length zipped with a function that can raise -/
def zipE {β γ δ : Type} (f : β → γ → Except PyErr δ) : List β → List γ → Except PyErr (List δ)
  | a :: as, b :: bs =>
    match f a b with
    | .error e => .error e
    | .ok c =>
      match zipE f as bs with
      | .error e => .error e
      | .ok cs => .ok (c :: cs)
  | _, _ => .ok []

/-- numpy's broadcasting rule along one axis: equal lengths are zipped, an axis of length 1 is stretched,
anything else raises `ValueError` -/
def bzip {β γ δ : Type} (f : β → γ → Except PyErr δ) (x : List β) (y : List γ) : Except PyErr (List δ) :=
  if x.length = y.length then zipE f x y
  else match x, y with
    | [a], _ => mapE (fun b => f a b) y
    | _, [b] => mapE (fun a => f a b) x
    | _, _ => .error .value

/-- `x ∘ y` for two rank-1 arrays -/
def bcast1 {β γ δ : Type} (f : β → γ → δ) (x : List β) (y : List γ) : Except PyErr (List δ) :=
  bzip (fun a b => .ok (f a b)) x y

/-- `X ∘ Y` for two rank-2 arrays.  A rank-1 operand `v` is passed as the one-row matrix `[v]`
(numpy prepends axes of length 1 to the operand of lower rank). -/
def bcast2 {β γ δ : Type} (f : β → γ → δ) (X : List (List β)) (Y : List (List γ)) :
    Except PyErr (List (List δ)) :=
  bzip (bcast1 f) X Y

/-- `np.min(X, axis=0)` / `np.max(X, axis=0)` with `f = min / max`: the rows are reduced from the first
to the last; zero rows raise `ValueError` (the reduction has no identity) -/
def reduceAxis0 {β : Type} (f : β → β → β) : List (List β) → Except PyErr (List β)
  | [] => .error .value
  | r :: rs => .ok (rs.foldl (fun acc q => List.zipWith f acc q) r)

/-- `np.matmul(x, y)` of two rank-1 arrays: the inner product; different lengths raise -/
def matmul1 {β : Type} [Add β] [Mul β] [Zero β] (x y : List β) : Except PyErr β :=
  if x.length = y.length then .ok (sum1 (List.zipWith (· * ·) x y)) else .error .value

/-- `np.hstack([A, B, …])` of rank-2 arrays: rows are concatenated; different heights (or no array) raise -/
def hstack {β : Type} : List (List (List β)) → Except PyErr (List (List β))
  | [] => .error .value
  | A :: rest =>
    rest.foldlM (fun (acc : List (List β)) B =>
      if acc.length = B.length then .ok (List.zipWith (· ++ ·) acc B) else .error .value) A

/-! ### methods: attributes of `self` + exceptions -/

/-- a method run on the attribute record `σ`: returns the value or the exception raised, **and the attributes as
they are when the call ends** — Python does not roll anything back when it raises, so an assignment made before a
failing `assert` stays visible here. -/
def Py (σ β : Type) : Type := σ → Except PyErr β × σ

namespace Py
variable {σ β γ : Type}

protected def pure (b : β) : Py σ β := fun s => (.ok b, s)

protected def bind (m : Py σ β) (f : β → Py σ γ) : Py σ γ := fun s =>
  match m s with
  | (.ok b, s') => f b s'
  | (.error e, s') => (.error e, s')

instance : Monad (Py σ) where
  pure := Py.pure
  bind := Py.bind

/-- read `self` -/
def get : Py σ σ := fun s => (.ok s, s)

/-- `self.a = v` -/
def modify (f : σ → σ) : Py σ Unit := fun s => (.ok (), f s)

/-- `assert c` -/
def assert (c : Bool) : Py σ Unit := fun s => (if c then .ok () else .error .assertion, s)

/-- a call of a function that writes no attribute -/
def lift (e : Except PyErr β) : Py σ β := fun s => (e, s)

/-- read an attribute that may never have been assigned (`AttributeError`) -/
def attr (f : σ → Option β) : Py σ β := fun s =>
  (match f s with
    | some b => .ok b
    | none => .error .attribute, s)

end Py

end Art.Np
