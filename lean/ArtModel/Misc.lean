/-
ArtModel.Misc — reference definitions for the last public functions of artlib that had no model
(`harness/artv/mtrans.py` translates them, `ArtGenProofs/MiscSpec.lean` proves the translations equal to these).
Core Lean only.

* `FusionART.match_criterion(i, w, params, cache, skip_channels)` (artlib/fusion/FusionART.py): `np.nanmax` of the
  channels' own match values on their own slices; a skipped channel contributes NaN, which `nanmax` ignores
  (`fusionMatch`, on top of `Fusion.matchVec`).
* `FALCON.get_probabilistic_action(state, action_space, offset, optimality)` (artlib/reinforcement/FALCON.py): the
  predicted rewards are normalised by their total when that total is positive (since /repo 0de3d2f, F46; it was an
  unconditional division before: 0/0 = NaN for all-zero rewards), flattened, inverted (`1 - p`) for
  `optimality == "min"`, bounded by `np.maximum(np.minimum(p, offset), 0.0001)` — the floor is applied last, so it
  wins over a cap below it — and normalised again (`probVector`); `np.random.choice` draws a position, the result is
  the first coordinate of that member of the action space (`probAction`).
-/
import ArtModel.Falcon

namespace Art.Misc
open Art Art.Fusion

section Match
variable {α : Type} [Max α]

/-- `np.nanmax` of floats that may be NaN (`none`): NaN only when all of them are -/
def nanmax : List (Option α) → Option α
  | [] => none
  | none :: l => nanmax l
  | some a :: l =>
    match nanmax l with
    | none => some a
    | some b => some (max a b)

/-- the channels' match values with NaN for the skipped ones -/
def maskedMatch (chans : List (Chan α)) (skip : Nat → Bool) (x w : List α) : List (Option α) :=
  (matchVec chans x w).zipIdx.map (fun mk => if skip mk.2 then none else some mk.1)

/-- `FusionART.match_criterion(i, w, params, cache, skip_channels)[0]` -/
def fusionMatch (chans : List (Chan α)) (skip : Nat → Bool) (x w : List α) : Option α :=
  nanmax (maskedMatch chans skip x w)

end Match

section Prob
variable {α : Type} [Add α] [Sub α] [Div α] [Min α] [Max α] [Zero α] [One α] [NatCast α]
  [LT α] [DecidableRel (α := α) (· < ·)]

/-- the floor of the action probabilities before re-normalisation: `0.0001` -/
def probFloor : α := ((1 : Nat) : α) / ((10 ^ 4 : Nat) : α)

/-- `np.maximum(np.minimum(p, offset), 0.0001)`: cap first, floor last -/
def clipProb (offset p : α) : α := max (min p offset) probFloor

/-- `v / np.sum(v)` -/
def normalise (v : List α) : List α := v.map (· / v.sum)

/-- the reward distribution before the bounds: rewards over their total when the total is positive, else as they
are; `1 - p` for `optimality == "min"` -/
def rewardDist (inv : Bool) (rs : List α) : List α :=
  let d := if 0 < rs.sum then normalise rs else rs
  if inv then d.map (1 - ·) else d

/-- the probability vector handed to `np.random.choice` -/
def probVector (offset : α) (inv : Bool) (rs : List α) : List α :=
  normalise ((rewardDist inv rs).map (clipProb offset))

/-- `get_probabilistic_action` given the action space and the (n, 1) array of predicted rewards:
`action_space[choice(p)][0]` -/
def probAction (choice : List α → Nat) (space : List (List α)) (rewards : List (List α)) (offset : α) (inv : Bool) :
    Option α :=
  ((space[choice (probVector offset inv rewards.flatten)]?).bind (·[0]?))

end Prob

end Art.Misc
