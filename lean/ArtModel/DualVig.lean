/-
ArtModel.DualVig — `DualVigilanceART` (artlib/topological/DualVigilanceART.py),
mirrored as it is.  Core Lean only.

The wrapper owns a base module (weights, per-category counters, `labels_` all
live on the base module), its own `sample_counter_`, and `map : category →
cluster label` (a Python dict whose keys are always `0 … |W|-1` in insertion
order, hence a `List Nat` indexed by category).

`step_fit` is *not* `BaseART.step_fit`:
  * the loop guard is `while any(T > 0)`: a category whose activation is `≤ 0`
    (or NaN) is never visited;
  * the reset function is asked about the *cluster label* `map[c]`, for every
    visited category, under every mode (there is no MT~ pre-pass);
  * a vetoed category that passed the upper test triggers `_match_tracking` (a
    vetoed one that failed it is just struck); `_match_tracking` is the wrapper's
    own (non-inverted) rule on the base module's `rho`;
  * a non-vetoed category that passes the upper test absorbs the sample; one
    that passes only the lower test spawns a category with the same label;
  * exhausted (or abandoned, MT1) → new category labelled `max(map) + 1`.
-/
import ArtModel.Search

namespace Art

/-- Observable state of a `DualVigilanceART`.  `base.W`, `base.cnt`,
`base.labels` are the base module's `W`, `weight_sample_counter_`, `labels_`;
`base.n` is the wrapper's own `sample_counter_` (the base module's is never
touched). -/
structure DualState (Wt : Type) where
  base : ArtState Wt := {}
  map : List Nat := []
  deriving Repr

/-- What one `step_fit` on a non-empty module decides. -/
inductive DualOutcome where
  /-- category `c` passed the upper vigilance: it learns the sample -/
  | absorb (c : Nat)
  /-- category `c` passed only the lower vigilance: new category, same cluster label -/
  | spawn (c : Nat)
  /-- nothing qualified: new category, new cluster label -/
  | fresh
  deriving DecidableEq, Repr, Inhabited

/-- One visited category: which, the upper threshold in force, upper test,
lower test (the code evaluates it only when it matters; it is a pure function
of the same match value), allowed by the reset function. -/
structure DVisit (θ : Type) where
  c : Nat
  th : θ
  m1 : Bool
  m2 : Bool
  ok : Bool
  deriving Repr

structure DualResult (θ : Type) where
  outcome : DualOutcome
  /-- the base module's threshold when the loop ended (restored by the caller) -/
  th : θ
  visits : List (DVisit θ)

def DualResult.cons {θ : Type} (v : DVisit θ) (r : DualResult θ) : DualResult θ :=
  { r with visits := v :: r.visits }

/-- `t > 0` for one entry of `T` (`nan > 0` is `False`) -/
def isPos {α : Type} (pos : α → Bool) : Option α → Bool
  | some v => pos v
  | none => false

/-- `any(T > 0)` -/
def anyPos {α : Type} (pos : α → Bool) (T : List (Option α)) : Bool := T.any (isPos pos)

/-- `pos` for an order with a zero -/
def posOf {α : Type} [LT α] [DecidableRel (α := α) (· < ·)] (zero : α) : α → Bool :=
  fun a => decide (zero < a)

/-- `max(self.map.values())` (0 for the empty map, where Python raises; the
code only evaluates it on a non-empty map) -/
def mapMax : List Nat → Nat
  | [] => 0
  | v :: vs => max v (mapMax vs)

/-- `n_clusters = len(set(map.values()))` -/
def nClusters (m : List Nat) : Nat := m.eraseDups.length

section
variable {α μ θ : Type} [LT α] [DecidableRel (α := α) (· < ·)]

/-- The `while any(T > 0)` loop of `DualVigilanceART.step_fit`.
`veto c` is the negated answer of the reset function for category `c` (the
caller composes it with `map`).  `cfg.tilde` is not read: the wrapper has no
MT~ pre-pass.  `fuel` bounds the iterations; `T.length` suffices. -/
def dualSearch (cfg : SearchCfg μ θ) (lb : θ) (pos : α → Bool) (M : Nat → μ) (veto : Nat → Bool) :
    Nat → List (Option α) → θ → DualResult θ
  | 0, _, th => ⟨.fresh, th, []⟩
  | fuel + 1, T, th =>
    if anyPos pos T then
      match nanargmax T with
      | none => ⟨.fresh, th, []⟩          -- unreachable: a positive entry is not NaN
      | some c =>
        let m1 := cfg.passes th (M c)
        let m2 := cfg.passes lb (M c)
        let ok := !veto c
        let v : DVisit θ := ⟨c, th, m1, m2, ok⟩
        if ok then
          if m1 then ⟨.absorb c, th, [v]⟩
          else if m2 then ⟨.spawn c, th, [v]⟩
          else (dualSearch cfg lb pos M veto fuel (T.set c none) th).cons v
        else if m1 then
          let th' := cfg.track th (M c)
          if cfg.keep then (dualSearch cfg lb pos M veto fuel (T.set c none) th').cons v
          else ⟨.fresh, th', [v]⟩            -- MT1: `T[:] = nan`
        else (dualSearch cfg lb pos M veto fuel (T.set c none) th).cons v
    else ⟨.fresh, th, []⟩

/-- The decision as a fold over a list of categories in visiting order — the
reference the loop is proved equal to (`dual_decision`). -/
def dualRef (cfg : SearchCfg μ θ) (lb : θ) (M : Nat → μ) (veto : Nat → Bool) :
    List Nat → θ → DualOutcome
  | [], _ => .fresh
  | c :: cs, th =>
    if veto c then
      if cfg.passes th (M c) then
        if cfg.keep then dualRef cfg lb M veto cs (cfg.track th (M c)) else .fresh
      else dualRef cfg lb M veto cs th
    else if cfg.passes th (M c) then .absorb c
    else if cfg.passes lb (M c) then .spawn c
    else dualRef cfg lb M veto cs th

end

section
variable {X Wt α μ θ : Type} [LT α] [DecidableRel (α := α) (· < ·)]

/-- The search of one training step on a non-empty module.  `vetoL` answers for
a *cluster label*. -/
def dualStepSearch (K : Kernel X Wt α μ) (cfg : SearchCfg μ θ) (th0 lb : θ) (pos : α → Bool)
    (vetoL : Nat → Bool) (s : DualState Wt) (x : X) : DualResult θ :=
  let T := activations K s.base.W x
  dualSearch cfg lb pos (matchAt K s.base.W x) (fun c => vetoL (s.map.getD c 0)) T.length T th0

/-- `none` = first sample (empty module); otherwise the outcome of the search. -/
def dualDecide (K : Kernel X Wt α μ) (cfg : SearchCfg μ θ) (th0 lb : θ) (pos : α → Bool)
    (vetoL : Nat → Bool) (s : DualState Wt) (x : X) : Option DualOutcome :=
  if s.base.W.isEmpty then none else some (dualStepSearch K cfg th0 lb pos vetoL s x).outcome

/-- add a category (`base_module.add_weight`) with cluster label `l` -/
def dualAdd (K : Kernel X Wt α μ) (s : DualState Wt) (x : X) (l : Nat) : DualState Wt :=
  { base := { s.base with W := s.base.W ++ [K.newW x], cnt := s.base.cnt ++ [1], n := s.base.n + 1 }
    map := s.map ++ [l] }

/-- State change and returned cluster label for a decision. -/
def dualApply (K : Kernel X Wt α μ) (s : DualState Wt) (x : X) :
    Option DualOutcome → DualState Wt × Nat
  | none =>
    -- `add_weight(new_weight(x)); self.map = {0: 0}; return 0`
    ({ base := { s.base with W := s.base.W ++ [K.newW x], cnt := s.base.cnt ++ [1], n := s.base.n + 1 }
       map := [0] }, 0)
  | some (.absorb c) =>
    match s.base.W[c]? with
    | some w =>
      ({ s with base := { s.base with W := s.base.W.set c (K.update x w)
                                      cnt := s.base.cnt.set c (s.base.cnt.getD c 0 + 1)
                                      n := s.base.n + 1 } }, s.map.getD c 0)
    | none => ({ s with base := { s.base with n := s.base.n + 1 } }, s.map.getD c 0)  -- unreachable
  | some (.spawn c) => (dualAdd K s x (s.map.getD c 0), s.map.getD c 0)
  | some .fresh => (dualAdd K s x (mapMax s.map + 1), mapMax s.map + 1)

/-- `DualVigilanceART.step_fit`.  `th0` (the base module's configured `rho`) and
`lb` (`rho_lower_bound`) are arguments: the base module's parameters are saved
before and restored after the search, so nothing of the search's final
threshold survives the step. -/
def dualStepFit (K : Kernel X Wt α μ) (cfg : SearchCfg μ θ) (th0 lb : θ) (pos : α → Bool)
    (vetoL : Nat → Bool) (s : DualState Wt) (x : X) : DualState Wt × Nat :=
  dualApply K s x (dualDecide K cfg th0 lb pos vetoL s x)

/-- one step of `fit` / `partial_fit`: `labels_[i] = step_fit(x)` -/
def dualTrainStep (K : Kernel X Wt α μ) (cfg : SearchCfg μ θ) (th0 lb : θ) (pos : α → Bool)
    (veto : DualState Wt → X → Nat → Bool) (s : DualState Wt) (x : X) : DualState Wt :=
  let (s', l) := dualStepFit K cfg th0 lb pos (veto s x) s x
  { s' with base := { s'.base with labels := s'.base.labels ++ [l] } }

/-- `partial_fit` (inherited from `BaseART`) on a batch -/
def dualPartialFit (K : Kernel X Wt α μ) (cfg : SearchCfg μ θ) (th0 lb : θ) (pos : α → Bool)
    (veto : DualState Wt → X → Nat → Bool) (s : DualState Wt) (xs : List X) : DualState Wt :=
  xs.foldl (dualTrainStep K cfg th0 lb pos veto) s

/-- What `BaseART.fit` resets on a `DualVigilanceART`: `W`, `labels_` and (since /repo f2707fe, finding F34)
`weight_sample_counter_` — all three delegate to the base module — and the wrapper's own `sample_counter_`;
`map` is replaced only when the first sample arrives. -/
def dualReset (s : DualState Wt) : DualState Wt :=
  { base := { W := [], cnt := [], n := 0, labels := [] }, map := s.map }

/-- `fit` (single epoch) -/
def dualFit (K : Kernel X Wt α μ) (cfg : SearchCfg μ θ) (th0 lb : θ) (pos : α → Bool)
    (veto : DualState Wt → X → Nat → Bool) (s : DualState Wt) (xs : List X) : DualState Wt :=
  dualPartialFit K cfg th0 lb pos veto (dualReset s) xs

/-- `step_pred`: `map[argmax T]` -/
def dualStepPred (K : Kernel X Wt α μ) (s : DualState Wt) (x : X) : Option Nat :=
  (stepPred K s.base.W x).bind (fun c => s.map[c]?)

/-- `predict` -/
def dualPredict (K : Kernel X Wt α μ) (s : DualState Wt) (xs : List X) : List (Option Nat) :=
  xs.map (dualStepPred K s)

end

end Art
