/-
ArtModel.VAT — `artlib/common/VAT.py` on a dissimilarity matrix.
Core Lean only (no Mathlib): this file is part of the executable model.

The Python code, line by line:

    ix, jx = np.unravel_index(D.argmax(), D.shape)     -- first maximal entry, row-major; keep the ROW
    indicies = [ix]; remaining = list(range(n)); remaining.pop(ix)
    while remaining:
        sub = D[np.ix_(indicies, remaining)]           -- rows = visited (visiting order), cols = remaining
        _, jx = np.unravel_index(sub.argmin(), sub.shape)   -- first minimal entry, row-major; keep the COLUMN
        indicies.append(remaining[jx]); remaining.pop(jx)
    return D[np.ix_(indicies, indicies)], np.array(indicies)

A matrix is a list of rows.  The order of the entries is used only through `<`
(`np.argmax` / `np.argmin` on NaN-free data), so the model is generic over any
type with a decidable `<`.  `squareform(distance_metric(data))` is *not*
modelled: the model starts from the dissimilarity matrix (DESIGN §6 C20).
-/
import ArtModel.Basic

namespace Art.VAT

/-- `D[i][j]`; `none` when `(i, j)` is not a position of `D`. -/
def ent {α : Type} (D : List (List α)) (i j : Nat) : Option α := (D[i]?).bind (·[j]?)

/-- `D[np.ix_(rows, cols)]`.  An index that is out of range (numpy raises
`IndexError`) is dropped; this never happens on a square matrix with in-range
indices (`ArtProofs.VAT: ent_ixSub`, `ixSub_length`, `ixSub_row_length`), which is
the only way the theorems use it. -/
def ixSub {α : Type} (D : List (List α)) (rows cols : List Nat) : List (List α) :=
  rows.filterMap (fun i => (D[i]?).map (fun r => cols.filterMap (fun j => r[j]?)))

/-- `D.shape[1]` -/
def ncols {α : Type} (D : List (List α)) : Nat :=
  match D with
  | [] => 0
  | r :: _ => r.length

/-- `n × n` -/
def Square {α : Type} (n : Nat) (D : List (List α)) : Prop :=
  D.length = n ∧ ∀ r ∈ D, r.length = n

instance {α : Type} (n : Nat) (D : List (List α)) : Decidable (Square n D) := by
  unfold Square; exact inferInstance

section
variable {α : Type} [LT α] [DecidableRel (α := α) (· < ·)]

/-- The `while remaining:` loop.  `fuel` bounds the number of iterations;
`rem.length` always suffices.  The two `none` branches are unreachable on a
square matrix with in-range indices (numpy would raise there). -/
def vatLoop (D : List (List α)) : Nat → List Nat → List Nat → List Nat
  | 0, vis, _ => vis
  | fuel + 1, vis, rem =>
    if rem.isEmpty then vis
    else
      -- `sub_matrix.argmin()` on the flattened (row-major) sub-matrix: first minimal entry
      match argminFirst (ixSub D vis rem).flatten with
      | none => vis
      | some p =>
        -- `np.unravel_index(p, (len(indicies), len(remaining)))[1]`
        let jx := p % rem.length
        match rem[jx]? with
        | none => vis
        | some j => vatLoop D fuel (vis ++ [j]) (rem.eraseIdx jx)

/-- the index vector returned by `VAT` -/
def vatOrder (D : List (List α)) : List Nat :=
  let n := D.length
  -- `pairwise_dist.argmax()` on the flattened matrix: first maximal entry
  match argmaxFirst D.flatten with
  | none => []   -- numpy raises on an empty matrix
  | some p =>
    -- `np.unravel_index(p, D.shape)[0]`
    let ix := p / ncols D
    vatLoop D n [ix] ((List.range n).eraseIdx ix)

/-- `VAT(D, distance_metric=None)`: `(indices, D[np.ix_(indices, indices)])`
(the Python function returns the pair in the other order). -/
def vat (D : List (List α)) : List Nat × List (List α) :=
  let idx := vatOrder D
  (idx, ixSub D idx idx)

end

end Art.VAT
