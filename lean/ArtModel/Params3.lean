/-
ArtModel.Params3 — reference semantics of the parameter protocol and the constructors of the compound
estimators that `ArtModel/Params.lean` / `ArtModel/Params2.lean` do not have (property C19):
BARTMAP, FusionART, DeepARTMAP, FALCON / TD_FALCON.  Core Lean only.

Every definition says what the Python code is *meant* to compute, in the vocabulary of the two earlier
files (`Store`, `upsert`, `upsertAll`, `prefixed`, `KidView`, `partitionKey`, `ginsert`, `route`, `Est`,
`setAttr`, `assignAll`, `SetRes`, `validate`); `ArtGenProofs/Params3Spec.lean` proves the definitions
regenerated from the source (`ArtGen/Params3.lean`) equal to them.

BARTMAP
* `getParamsFlat own kids` — `get_params()` of BARTMAP and of FusionART: a COPY of the own parameter dict;
  then, child by child, the child's parameters as `name__k` (`out.update(...)`) and the child object itself
  under `name` (`out[name] = module`).  (The wrappers of `Params2.getParamsNode` put the objects first.)
* `bLoop` — the collecting loop of `BARTMAP.set_params`: routing by `partition("__")`, an unknown head
  name stops it with `ValueError`; a plain name goes to `plain_params` and — only when it is one of the
  estimator's OWN parameters (`key in local_params`) — into `local_params`, the dict that is validated.
* `bSetParams validate gp e kvs` — `BARTMAP.set_params(**kvs)` on the estimator `e` whose
  `get_params(deep=True)` is `gp`: empty call = nothing; collect (`bLoop`); validate `local_params` — a
  rejected call leaves `e` as it was; assign the plain names with `setattr` (`assignAll`) and record them in
  `valid_params` (`upsertAll gp plain`); LAST the nested groups are delegated to
  `valid_params[group].set_params(**sub)` (`route`) — so a call that replaces a module and names one of
  its parameters reaches the NEW module.
* `bartmapChecks`, `constructBartmap`.

FusionART (the instance `__dict__` is a list of `Q3.Slot`s: `ArtModel/ImpParams3.lean`, the wide world)
* `channelRanges s dims` — `get_channel_position_tuples`: channel k occupies the half-open range
  `[s + d_0 + … + d_{k-1}, s + d_0 + … + d_k)`; each range starts where the previous one ends.
* `fusionValidate sum p` — `FusionART.validate_params`: `gamma_values` present, iterable, every entry in
  `[0, 1]`, Python's `sum` of them `== 1.0` (the final `isinstance(…, (np.ndarray, list))` never fails once the
  entries could be iterated).  `sum` is Python's built-in (float additions round): a parameter.
* `constructFusion sum modules g dims` — `FusionART(modules, gamma_values, channel_dims)`: the three lengths
  agree (else `AssertionError`, nothing stored), `params = {"gamma_values": g}` validated (else nothing
  stored), `BaseART.__init__`'s attributes, then `modules`, `n = len(modules)`, `channel_dims`,
  `_channel_indices = _weight_indices = channelRanges 0 dims`, `dim_ = sum(channel_dims)`.  Result: the
  exception (if any) and the instance `__dict__` when the call ends.
* the `get_params` of FusionART is `getParamsFlat params (fusionKids modules deep)`: child `i` is named `module_i`.

DeepARTMAP, FALCON, TD_FALCON
* `deepDict modules` — what `DeepARTMAP(modules)` stores (at least one module, else `AssertionError`).
* FALCON / TD_FALCON are stated directly on the generated constructor of FusionART
  (`Params3Spec.FALCON_init_spec`): a new FusionART over `[state_art, action_art, reward_art]` in this order.
-/
import ArtModel.Params2
import ArtModel.ImpParams3

namespace Art.Params3
open Art.Params Art.Params2

/-! ### BARTMAP (and FusionART): `get_params` -/

/-- `out = dict(own)`; for each child in turn `out.update(name__k ↦ v …)`, then `out[name] = module` -/
def getParamsFlat (own : Store) (kids : List KidView) : Store :=
  kids.foldl (fun out k => upsert (upsertAll out (prefixed k.name k.deep)) k.name k.obj) own

/-! ### BARTMAP: `set_params` -/

/-- the collecting loop of `BARTMAP.set_params` (`valid` = `valid_params`, not touched by this loop);
state: `local_params`, `nested_params`, `plain_params` -/
def bLoop (valid : Store) : DynSt → List (String × Val) → DynSt × Option Err
  | st, [] => (st, none)
  | st, (key, v) :: rest =>
    let pk := partitionKey key
    if (get? valid pk.1).isSome then
      match pk.2 with
      | some sub => bLoop valid { st with nested := ginsert st.nested pk.1 sub v } rest
      | none =>
        bLoop valid { st with plain := upsert st.plain pk.1 v,
                              loc := if (get? st.loc pk.1).isSome then upsert st.loc pk.1 v else st.loc } rest
    else (st, some .value)

/-- `BARTMAP.set_params(**kvs)`; `validate` is `validate_params`, `gp` what `self.get_params(deep=True)` returns -/
def bSetParams (validate : Store → Option Err) (gp : Store) (e : Est) (kvs : List (String × Val)) : SetRes :=
  if kvs.isEmpty then ⟨e, none, []⟩
  else
    match bLoop gp ⟨e.params, [], []⟩ kvs with
    | (_, some err) => ⟨e, some err, []⟩
    | (st, none) =>
      match validate st.loc with
      | some err => ⟨e, some err, []⟩
      | none =>
        let r := route (upsertAll gp st.plain) st.nested
        ⟨assignAll e st.plain, r.2, r.1⟩

/-- `BARTMAP.validate_params`: `assert "eta" in params; assert isinstance(params["eta"], float)` -/
def bartmapChecks : List Check := [.has "eta", .isFloat "eta"]

/-- `BARTMAP(module_a, module_b, eta)`: `params = {"eta": eta}` validated first, then `params`, `module_a`,
`module_b` stored in this order -/
def constructBartmap (module_a module_b eta : Val) : Except Err Est :=
  match validate bartmapChecks [("eta", eta)] with
  | some e => .error e
  | none => .ok ⟨"BARTMAP", [("eta", eta)], [("module_a", module_a), ("module_b", module_b)]⟩

/-! ### FusionART -/

/-- `get_channel_position_tuples`: consecutive half-open ranges, the first starting at `s` -/
def channelRanges : Rat → List Rat → List (Rat × Rat)
  | _, [] => []
  | s, d :: r => (s, s + d) :: channelRanges (s + d) r

/-- `FusionART.validate_params` (`sum` = Python's built-in `sum`) -/
def fusionValidate (sum : Val → Except Err Rat) (p : Store) : Except Err Unit :=
  match get? p "gamma_values" with
  | none => .error .assert
  | some g =>
    match Q3.iterNums g with
    | .error e => .error e
    | .ok l =>
      if l.all (fun x => decide (x ≤ 1) && decide (0 ≤ x)) then
        match sum g with
        | .error e => .error e
        | .ok s => if s = 1 then .ok () else .error .assert
      else .error .assert

/-- the instance `__dict__` of a FusionART before `dim_` is stored -/
def fusionDictCore (modules : List Val) (g dimsV : Val) (dims : List Rat) : List (String × Q3.Slot) :=
  [("params", .dict [("gamma_values", g)]), ("sample_counter_", .val (.int 0)),
   ("weight_sample_counter_", .val (.lst [])), ("d_min_", .val .non), ("d_max_", .val .non),
   ("modules", .vals modules), ("n", .num (modules.length : Nat)), ("channel_dims", .val dimsV),
   ("_channel_indices", .ranges (channelRanges 0 dims)), ("_weight_indices", .ranges (channelRanges 0 dims))]

/-- the instance `__dict__` of `FusionART(modules, g, dimsV)` where `dimsV` iterates as `dims` and sums to `total` -/
def fusionDict (modules : List Val) (g dimsV : Val) (dims : List Rat) (total : Rat) : List (String × Q3.Slot) :=
  fusionDictCore modules g dimsV dims ++ [("dim_", .num total)]

/-- `FusionART(modules, gamma_values, channel_dims)`: the exception (if any) and the instance `__dict__` at the end -/
def constructFusion (sum : Val → Except Err Rat) (modules : List Val) (g dimsV : Val) :
    Except Err Unit × List (String × Q3.Slot) :=
  match Q3.lenVal g with
  | .error e => (.error e, [])
  | .ok ng =>
    if modules.length = ng then
      match Q3.lenVal dimsV, Q3.iterNums dimsV with
      | .ok nd, .ok dims =>
        if ng = nd then
          match fusionValidate sum [("gamma_values", g)] with
          | .error e => (.error e, [])
          | .ok () =>
            match sum dimsV with
            | .ok total => (.ok (), fusionDict modules g dimsV dims total)
            | .error e => (.error e, fusionDictCore modules g dimsV dims)
        else (.error .assert, [])
      | .error e, _ => (.error e, [])
      | _, .error e => (.error e, [])
    else (.error .assert, [])

/-- the children of a FusionART as its `get_params` names them: `module_0`, `module_1`, … -/
def fusionKids (deep : Val → Store) (modules : List Val) : List KidView :=
  (Q2.enumerate modules).map (fun im => ⟨Q2.moduleName im.1, im.2, deep im.2⟩)

/-! ### DeepARTMAP -/

/-- the instance `__dict__` of `DeepARTMAP(modules)` -/
def deepDict (modules : List Val) : List (String × Q3.Slot) :=
  [("modules", .vals modules), ("layers", .val (.lst [])), ("is_supervised", .val .non)]

end Art.Params3
