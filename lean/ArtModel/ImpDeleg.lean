/-
Target language of the delegation translator (`harness/artv/xtrans.py`): the thin wrappers by which a compound
estimator forwards `prepare_data`, `restore_data`, `validate_data`, `get_cluster_centers`, `step_pred`, … to the
estimators it holds.  Core Lean only.

A nested estimator is a record of the methods the hosts call (`Mod`), over an abstract value type `A` (matrices,
vectors, caches — the wrappers never look inside).  A host is a record of the attributes the wrappers read (`Host`).
Which attribute and which method a wrapper uses is a *field name* here, so a wrapper that forwards to another
module or another method generates a different term, and the specification theorems stop holding (or stop
elaborating).
-/
namespace Art.Deleg

/-- the methods of a held estimator that the wrappers forward to; `validate_data` / `check_dimensions` raise or
return nothing: `none` is the exception -/
structure Mod (A : Type) where
  prepare_data : A → A
  restore_data : A → A
  validate_data : A → Option Unit
  check_dimensions : A → Option Unit
  get_cluster_centers : A
  step_pred : A → A
  match_criterion : A → A → A → Option A → A
  labels_ : A

/-- `FALCON.fusion_art`: the wrappers only read its `modules` -/
structure FusionMods (A : Type) where
  modules : List (Mod A)

/-- the attributes of a host that the wrappers read -/
structure Host (A : Type) where
  module_a : Mod A
  module_b : Mod A
  base_module : Mod A
  modules : List (Mod A)
  layers : List (Mod A)
  n_modules : Nat
  fusion_art : FusionMods A

/-- a module whose `restore_data` undoes its `prepare_data` (what `ArtProps/C18.lean` proves of the elementary
classes' pair, first call and later calls) -/
def Mod.RoundTrips {A : Type} (m : Mod A) : Prop := ∀ x, m.restore_data (m.prepare_data x) = x

end Art.Deleg
