import ArtGenProofs.GenSpec
import ArtGenProofs.ControlSpec
import ArtGenProofs.ControlFit
#print axioms Art.GenSpec.Control.step_fit_refines
#print axioms Art.GenSpec.Control.step_fit_restores_params
#print axioms Art.GenSpec.Control.fit_restores_params
#print axioms Art.GenSpec.Control.predict_spec
