import ArtProofs.Order
import ArtProofs.Search
