import ArtGenProofs.GenSpec
