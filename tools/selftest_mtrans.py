#!/usr/bin/env python3
"""Self-test of the "last functions" translator (harness/artv/mtrans.py): semantic one-line mutations of
FusionART.match_criterion, FALCON.get_probabilistic_action, CVIART._set_params / _deep_copy_params and
BaseART.shrink_clusters must be detected — the translator fails closed, or ArtGenProofs/MiscSpec.lean stops checking
against the regenerated ArtGen/Misc.lean.  The generated file is written to a scratch module path under /tmp that
shadows ArtGen.Misc; /verif/lean is not touched."""
import os, shutil, subprocess, sys, tempfile
from pathlib import Path

VERIF = Path(__file__).resolve().parents[1]
sys.path.insert(0, str(VERIF / "harness"))
from artv import mtrans  # noqa: E402
from artv.ktrans import Unsupported  # noqa: E402

REPO = Path(os.environ.get("VERIF_REPO", "/repo"))
FU, FA, CV, BA = "fusion/FusionART.py", "reinforcement/FALCON.py", "cvi/CVIART.py", "common/BaseART.py"
MC = "self.modules[k].match_criterion(\n                    "
MUTATIONS = [
    # --- FusionART.match_criterion
    (FU, MC + "i[self._channel_indices[k][0] : self._channel_indices[k][1]],",
     MC + "i[self._channel_indices[k - 1][0] : self._channel_indices[k - 1][1]],",
     "match_criterion: sample slice k cut with channel k-1's indices"),
    (FU, MC + "i[self._channel_indices[k][0] : self._channel_indices[k][1]],",
     MC + "i[self._channel_indices[(k + 1) % self.n][0] : self._channel_indices[(k + 1) % self.n][1]],",
     "match_criterion: sample slice k cut with the next channel's indices"),
    (FU, MC + "i[self._channel_indices[k][0] : self._channel_indices[k][1]],\n                    w[self._weight_indices[k][0] : self._weight_indices[k][1]],",
     MC + "i[self._channel_indices[k][0] : self._channel_indices[k][1]],\n                    w[self._channel_indices[k][0] : self._channel_indices[k][1]],",
     "match_criterion: weight cut with the data ranges (F07 again)"),
    (FU, "else (np.nan, {\"match_criterion\": np.inf})", "else (0.0, {\"match_criterion\": np.inf})",
     "match_criterion: a skipped channel contributes 0 instead of NaN"),
    (FU, "                    self.modules[k].params,\n                    cache[k],\n                )\n                if k not in skip_channels\n                else (np.nan",
     "                    self.modules[k].params,\n                    cache[0],\n                )\n                if k not in skip_channels\n                else (np.nan",
     "match_criterion: every channel gets cache[0]"),
    (FU, "                    cache[k],\n                )\n                if k not in skip_channels\n                else (np.nan",
     "                    cache[k],\n                )\n                if k in skip_channels\n                else (np.nan",
     "match_criterion: skip test inverted"),
    (FU, "                    self.modules[k].params,\n                    cache[k],\n                )\n                if k not in skip_channels\n                else (np.nan",
     "                    self.modules[0].params,\n                    cache[k],\n                )\n                if k not in skip_channels\n                else (np.nan",
     "match_criterion: module 0's params for every channel"),
    (FU, "return np.nanmax(M), cache", "return np.nanmin(M), cache", "match_criterion: nanmin instead of nanmax"),
    (FU, "return np.nanmax(M), cache", "return np.nanmax(M), caches[0]", "match_criterion: returns one channel's cache"),
    # --- FALCON.get_probabilistic_action
    (FA, "reward_dist = np.maximum(np.minimum(reward_dist, offset), 0.0001)", "reward_dist = np.clip(reward_dist, 0.0001, offset)",
     "get_probabilistic_action: np.clip(reward_dist, 0.0001, offset) (seeded C04m)"),
    (FA, "        if optimality == \"min\":\n            reward_dist = 1.0 - reward_dist\n\n        reward_dist = np.maximum", "        reward_dist = np.maximum",
     "get_probabilistic_action: 'min' optimality not inverted"),
    (FA, "        total = np.sum(reward_dist)\n        if total > 0:\n            reward_dist /= total\n", "        reward_dist /= np.sum(reward_dist)\n",
     "get_probabilistic_action: unconditional first normalisation (F46 reverted)"),
    (FA, "        if total > 0:\n            reward_dist /= total\n", "        if total >= 0:\n            reward_dist /= total\n",
     "get_probabilistic_action: total >= 0 guards nothing"),
    (FA, "reward_dist = np.maximum(np.minimum(reward_dist, offset), 0.0001)", "reward_dist = np.maximum(np.minimum(reward_dist, offset), 0.0)",
     "get_probabilistic_action: floor 0 instead of 1e-4"),
    (FA, "reward_dist = np.maximum(np.minimum(reward_dist, offset), 0.0001)", "reward_dist = np.minimum(np.maximum(reward_dist, 0.0001), offset)",
     "get_probabilistic_action: floor first, cap last"),
    (FA, "        reward_dist /= np.sum(reward_dist)\n\n        a_i", "        a_i", "get_probabilistic_action: second normalisation dropped"),
    (FA, "        if optimality == \"min\":\n            reward_dist = 1.0 - reward_dist\n\n        reward_dist = np.maximum",
     "        if optimality == \"max\":\n            reward_dist = 1.0 - reward_dist\n\n        reward_dist = np.maximum",
     "get_probabilistic_action: 'max' inverted instead of 'min'"),
    (FA, "return action_space[a_i[0]][0]", "return action_space[a_i[0]][1]", "get_probabilistic_action: second coordinate of the action"),
    (FA, "a_i = np.random.choice(action_indices, size=1, p=reward_dist)", "a_i = np.random.choice(action_indices, size=1)",
     "get_probabilistic_action: uniform draw (p dropped)"),
    (FA, "        reward_dist = reward_dist.reshape((-1,))\n", "        reward_dist = rewards.reshape((-1,))\n",
     "get_probabilistic_action: reads `rewards` after the in-place division (alias rule)"),
    # --- CVIART / BaseART
    (CV, "        self.base_module.params = new_params", "        self.params = new_params", "_set_params writes the wrapper's own params"),
    (CV, "        return deepcopy(self.base_module.params)", "        return self.base_module.params", "_deep_copy_params returns the live dict"),
    (CV, "        return deepcopy(self.base_module.params)", "        return deepcopy(self.params)", "_deep_copy_params copies the wrapper's own params"),
    (BA, "            Returns the instance with shrunken clusters.\n\n        \"\"\"\n        return self", "            Returns the instance with shrunken clusters.\n\n        \"\"\"\n        return None",
     "shrink_clusters returns None"),
]
CONTROL = "control"


def check(src_root: Path, scratch: Path) -> str:
    try:
        text = mtrans.generate(src_root)
    except (Unsupported, SyntaxError, KeyError, AttributeError, TypeError, IndexError, ValueError) as e:
        return f"translator failed closed: {e}"
    lean = VERIF / "lean"
    lp = subprocess.run(["lake", "env", "printenv", "LEAN_PATH"], cwd=lean, capture_output=True, text=True).stdout.strip().splitlines()[-1]
    src, out = scratch / "src" / "ArtGen", scratch / "out" / "ArtGen"
    src.mkdir(parents=True, exist_ok=True)
    out.mkdir(parents=True, exist_ok=True)
    (src / "Misc.lean").write_text(text)
    # the scratch directory shadows the whole package directory ArtGen: link the other built modules of it
    for o in (lean / ".lake" / "build" / "lib" / "lean" / "ArtGen").glob("*.olean"):
        if o.stem != "Misc":
            os.symlink(o, out / o.name)
    env = dict(os.environ, LEAN_PATH=lp)
    r = subprocess.run(["lean", f"--root={scratch / 'src'}", "-o", str(out / "Misc.olean"), str(src / "Misc.lean")],
                       cwd=scratch / "src", env=env, capture_output=True, text=True)
    if r.returncode != 0:
        return "generated file does not elaborate: " + (r.stdout + r.stderr).strip().splitlines()[0][:160]
    env = dict(os.environ, LEAN_PATH=f"{scratch / 'out'}:{lp}")
    r = subprocess.run(["lean", "ArtGenProofs/MiscSpec.lean"], cwd=lean, env=env, capture_output=True, text=True)
    errs = [ln for ln in (r.stdout + r.stderr).splitlines() if ": error" in ln]
    if r.returncode != 0 or errs:
        return "proof obligation broke: " + (errs[0][:160] if errs else "?")
    return "ok"


def main() -> int:
    bad = 0
    root = Path(tempfile.mkdtemp(prefix="mtrans_selftest_", dir="/tmp"))
    try:
        res = check(REPO, root / "base")
        print(f"unmutated: {res}")
        if res != "ok":
            bad += 1
        if mtrans.generate(REPO) != (VERIF / "lean" / "ArtGen" / "Misc.lean").read_text() and REPO == Path("/repo"):
            print("lean/ArtGen/Misc.lean is not what generate(/repo) produces")
            bad += 1
        n = 0
        for k, (rel, old, new, what) in enumerate(MUTATIONS):
            src = root / f"m{k}"
            shutil.copytree(REPO / "artlib", src / "artlib")
            f = src / "artlib" / rel
            t = f.read_text()
            if t.count(old) != 1:
                print(f"mutation {k} ({what}): pattern occurs {t.count(old)} times — self-test out of date")
                bad += 1
                continue
            f.write_text(t.replace(old, new))
            res = check(src, root / f"s{k}")
            if CONTROL in what:
                print(f"control {k} ({what}): {res}")
                if res != "ok":
                    bad += 1
                continue
            n += 1
            print(f"mutation {k} ({what}): {res}")
            if res == "ok":
                bad += 1
        print(f"{n} mutations, all detected" if not bad else f"{bad} problem(s)")
    finally:
        shutil.rmtree(root, ignore_errors=True)
    print("SELFTEST", "FAILED" if bad else "PASSED")
    return 1 if bad else 0


if __name__ == "__main__":
    sys.exit(main())
