#!/usr/bin/env python3
"""Self-test of the data-preparation translator tie (harness/artv/ptrans.py + lean/ArtGenProofs/PrepSpec.lean).

    /venv/bin/python tools/selftest_ptrans.py [--keep]

Copies the five translated source files of /repo to a scratch tree under /tmp, applies one *semantic* mutation at a
time, runs `ptrans.generate` on the scratch tree, compiles the generated text to a scratch .olean (outside
/verif/lean: nothing in the project tree is touched, other builds are not disturbed) and type-checks
`ArtGenProofs/PrepSpec.lean` against it (the scratch directory comes first on LEAN_PATH).  A mutation is *detected* when
the translator fails closed or the proof file no longer checks.  The unmutated source must pass; every mutation must
be detected.  Exit status 0 iff both hold.
"""
import os
import shutil
import subprocess
import sys
from pathlib import Path

VERIF = Path(__file__).resolve().parents[1]
sys.path.insert(0, str(VERIF / "harness"))
from artv import ptrans  # noqa: E402
from artv.ktrans import Unsupported  # noqa: E402

REPO = Path(os.environ.get("VERIF_REPO", "/repo"))
LEAN = VERIF / "lean"
SCRATCH = Path("/tmp/ptrans_selftest_%d" % os.getpid())

U = "artlib/common/utils.py"
B = "artlib/common/BaseART.py"
Fz = "artlib/elementary/FuzzyART.py"
A1 = "artlib/elementary/ART1.py"
A2 = "artlib/elementary/ART2.py"

# (name, kind, file, old text (must occur exactly once), new text)
MUTATIONS = [
    ("normalize: divisor d_max + d_min", "changed operator", U,
     "normalized = (data - d_min) / (d_max - d_min)", "normalized = (data - d_min) / (d_max + d_min)"),
    ("normalize: operands of the subtraction swapped", "swapped operands", U,
     "normalized = (data - d_min) / (d_max - d_min)", "normalized = (d_min - data) / (d_max - d_min)"),
    ("normalize: d_min computed with np.max", "wrong reduction", U,
     "d_min = np.min(data, axis=0)", "d_min = np.max(data, axis=0)"),
    ("normalize: reduction along axis 1", "changed axis", U,
     "d_max = np.max(data, axis=0)", "d_max = np.max(data, axis=1)"),
    ("de_normalize: adds d_max instead of d_min", "changed operand", U,
     "return data * (d_max - d_min) + d_min", "return data * (d_max - d_min) + d_max"),
    ("compliment_code: halves stacked in the other order", "swapped operands", U,
     "np.hstack([data, 1.0 - data])", "np.hstack([1.0 - data, data])"),
    ("de_compliment_code: split point off by one", "off-by-one", U,
     "m = total_columns // 2", "m = total_columns // 2 + 1"),
    ("de_compliment_code: evenness assertion dropped", "dropped statement", U,
     '    assert total_columns % 2 == 0, "The number of columns must be even"\n', ""),
    ("de_compliment_code: second half not complemented", "dropped operation", U,
     "arr2 = 1 - data[:, m:]", "arr2 = data[:, m:]"),
    ("BaseART.prepare_data: bounds stored into the other attributes", "swapped targets", B,
     "normalized, self.d_max_, self.d_min_ = normalize(X, self.d_max_, self.d_min_)",
     "normalized, self.d_min_, self.d_max_ = normalize(X, self.d_max_, self.d_min_)"),
    ("BaseART.restore_data: bounds passed to the other keywords", "swapped arguments", B,
     "de_normalize(X, d_max=self.d_max_, d_min=self.d_min_)", "de_normalize(X, d_max=self.d_min_, d_min=self.d_max_)"),
    ("BaseART.validate_data: upper bound 2.0", "changed constant", B,
     'assert np.all(X <= 1.0), "Data has not been normalized"', 'assert np.all(X <= 2.0), "Data has not been normalized"'),
    ("BaseART.validate_data: strict lower bound", "changed comparison", B,
     'assert np.all(X >= 0), "Data has not been normalized"', 'assert np.all(X > 0), "Data has not been normalized"'),
    ("BaseART.validate_data: width check before the range checks", "reordered effect", B,
     '        assert np.all(X >= 0), "Data has not been normalized"\n'
     '        assert np.all(X <= 1.0), "Data has not been normalized"\n'
     '        self.check_dimensions(X)\n',
     '        self.check_dimensions(X)\n'
     '        assert np.all(X >= 0), "Data has not been normalized"\n'
     '        assert np.all(X <= 1.0), "Data has not been normalized"\n'),
    ("BaseART.check_dimensions: compares the number of rows", "changed index", B,
     "assert X.shape[1] == self.dim_", "assert X.shape[0] == self.dim_"),
    ("BaseART.check_dimensions: polarity of hasattr", "changed condition", B,
     '        if not hasattr(self, "dim_"):\n            self.dim_ = X.shape[1]',
     '        if hasattr(self, "dim_"):\n            self.dim_ = X.shape[1]'),
    ("FuzzyART.prepare_data: bounds passed in the other order", "swapped arguments", Fz,
     "normalize(X, self.d_max_, self.d_min_)", "normalize(X, self.d_min_, self.d_max_)"),
    ("FuzzyART.prepare_data: complement coding dropped", "dropped statement", Fz,
     "cc_data = compliment_code(normalized)", "cc_data = normalized"),
    ("FuzzyART.restore_data: restores the coded matrix", "changed argument", Fz,
     "return super(FuzzyART, self).restore_data(out)", "return super(FuzzyART, self).restore_data(X)"),
    ("FuzzyART.validate_data: tolerance 0.1", "changed constant", Fz,
     ") <= 0.01", ") <= 0.1"),
    ("FuzzyART.validate_data: evenness assertion dropped", "dropped statement", Fz,
     '        assert X.shape[1] % 2 == 0, "Data has not been compliment coded"\n', ""),
    ("FuzzyART.validate_data: check_dimensions not called", "dropped statement", Fz,
     '        ), "Data has not been compliment coded"\n        self.check_dimensions(X)\n',
     '        ), "Data has not been compliment coded"\n'),
    ("FuzzyART.check_dimensions: dim_original off by one", "off-by-one", Fz,
     "self.dim_original = int(self.dim_ // 2)", "self.dim_original = int(self.dim_ // 2) + 1"),
    ("ART1.validate_data: compares with astype(int)", "changed cast", A1,
     "np.array_equal(X, X.astype(bool))", "np.array_equal(X, X.astype(int))"),
    ("ART1.validate_data: check_dimensions not called", "dropped statement", A1,
     'assert np.array_equal(X, X.astype(bool)), "ART1 only supports binary data"\n        self.check_dimensions(X)\n',
     'assert np.array_equal(X, X.astype(bool)), "ART1 only supports binary data"\n'),
    ("ART2A.check_dimensions: dim_ assigned before the alpha assertion (the former defect C18-a)", "reordered effect", A2,
     '            assert self.params["alpha"] <= 1 / np.sqrt(X.shape[1])\n            self.dim_ = X.shape[1]\n',
     '            self.dim_ = X.shape[1]\n            assert self.params["alpha"] <= 1 / np.sqrt(X.shape[1])\n'),
    ("ART2A.check_dimensions: bound 2 / sqrt(dim)", "changed constant", A2,
     '<= 1 / np.sqrt(X.shape[1])', '<= 2 / np.sqrt(X.shape[1])'),
]


def lean_env():
    lp = subprocess.run(["lake", "env", "printenv", "LEAN_PATH"], cwd=LEAN, capture_output=True, text=True, check=True).stdout.strip()
    lean = subprocess.run(["lake", "env", "sh", "-c", "command -v lean"], cwd=LEAN, capture_output=True, text=True,
                          check=True).stdout.strip().splitlines()[-1]
    return lean, lp


def fresh_tree(root: Path):
    if root.exists():
        shutil.rmtree(root)
    for rel in ptrans.FILES.values():
        (root / rel).parent.mkdir(parents=True, exist_ok=True)
        shutil.copy(REPO / rel, root / rel)


def check(root: Path, work: Path, lean: str, lp: str):
    """-> (verdict, detail): "pass" | "translator failed closed" | "proof build broke" """
    try:
        text = ptrans.generate(root)
    except (Unsupported, SyntaxError, KeyError, AttributeError, TypeError, IndexError, ValueError) as e:
        return "translator failed closed", f"{type(e).__name__}: {e}"
    src, out = work / "src" / "ArtGen", work / "out" / "ArtGen"
    src.mkdir(parents=True, exist_ok=True)
    out.mkdir(parents=True, exist_ok=True)
    (src / "Prep.lean").write_text(text)
    env = dict(os.environ, LEAN_PATH=lp)
    p = subprocess.run([lean, f"--root={work / 'src'}", "-o", str(out / "Prep.olean"), str(src / "Prep.lean")],
                       cwd=work / "src", env=env, capture_output=True, text=True, timeout=600)
    if p.returncode != 0:
        return "proof build broke", "the generated file does not elaborate: " + (p.stdout + p.stderr).strip().split("\n")[0][:160]
    env = dict(os.environ, LEAN_PATH=f"{work / 'out'}:{lp}")
    p = subprocess.run([lean, "ArtGenProofs/PrepSpec.lean"], cwd=LEAN, env=env, capture_output=True, text=True, timeout=1200)
    errs = [l for l in (p.stdout + p.stderr).split("\n") if ": error" in l]
    if p.returncode != 0 or errs:
        first = errs[0] if errs else (p.stdout + p.stderr).strip().split("\n")[0]
        return "proof build broke", f"{len(errs)} error(s), first: {first[:160]}"
    return "pass", ""


def main():
    keep = "--keep" in sys.argv
    lean, lp = lean_env()
    ok = True
    try:
        root, work = SCRATCH / "repo", SCRATCH / "lean"
        fresh_tree(root)
        v, d = check(root, work, lean, lp)
        committed = (LEAN / "ArtGen" / "Prep.lean").read_text() == ptrans.generate(root)
        print(f"[{'ok' if v == 'pass' and committed else 'FAIL'}] unmutated source: {v} {d}; committed ArtGen/Prep.lean "
              f"{'is' if committed else 'IS NOT'} what the translator produces")
        ok &= v == "pass" and committed
        for name, kind, rel, old, new in MUTATIONS:
            fresh_tree(root)
            text = (root / rel).read_text()
            if text.count(old) != 1:
                print(f"[FAIL] {name}: the text to mutate occurs {text.count(old)} times in {rel}")
                ok = False
                continue
            (root / rel).write_text(text.replace(old, new))
            v, d = check(root, work, lean, lp)
            det = v != "pass"
            ok &= det
            print(f"[{'detected' if det else 'MISSED'}] {name} ({kind}; {rel.split('/')[-1]}): {v} — {d}")
    finally:
        if not keep:
            shutil.rmtree(SCRATCH, ignore_errors=True)
    print("SELFTEST", "PASSED" if ok else "FAILED")
    return 0 if ok else 1


if __name__ == "__main__":
    sys.exit(main())
