#!/usr/bin/env python3
"""Skeleton obligation for `BaseART.fit_gif` (the animated twin of `fit`).

`fit` is regenerated to Lean and proved equal to the model on every run (ctrans); `fit_gif` repeats its training loop with
drawing statements in between and is not translated (DESIGN §5: plotting).  This obligation ties the two syntactically:
after the drawing statements are removed by the explicit rules below, the statement list of `fit_gif` must be identical
(same AST) to that of `fit`.  A difference is reported by every check's audit as a broken obligation; it is not a
violation by itself (the checks that drive `fit_gif` look for the failing input).

Removed from `fit_gif` (each by its own rule): the docstring; `import` statements; `if ax is None / filename is None /
colors is None:` blocks (they only bind plotting locals); statements that start with `ax.`, `writer.`, `writer =`,
`self.visualize(`; `with writer.saving(...):` is replaced by its body.  Normalised in both: `self.W: T = []` ->
`self.W = []`; the initial `self.labels_` fill (`np.zeros` in fit, `-np.ones` in fit_gif: every entry is overwritten by
the first epoch) -> `self.labels_ = INIT`.
"""
import ast
import sys
from pathlib import Path

PLOT_LOCALS = {"ax", "filename", "colors"}
PLOT_PREFIX = ("ax.", "writer.", "writer =", "self.visualize(")


def _norm(stmts):
    out = []
    for st in stmts:
        src = ast.unparse(st)
        if isinstance(st, ast.Expr) and isinstance(st.value, ast.Constant) and isinstance(st.value.value, str):
            continue
        if isinstance(st, (ast.Import, ast.ImportFrom)):
            if "tqdm" in src:
                out.append(st)
            continue
        if isinstance(st, ast.If) and isinstance(st.test, ast.Compare) and isinstance(st.test.left, ast.Name) \
                and st.test.left.id in PLOT_LOCALS and isinstance(st.test.ops[0], ast.Is) and not st.orelse:
            continue
        if src.startswith(PLOT_PREFIX):
            continue
        if isinstance(st, ast.With) and src.startswith("with writer.saving("):
            out.extend(_norm(st.body))
            continue
        if isinstance(st, ast.AnnAssign) and st.value is not None:
            st = ast.Assign(targets=[st.target], value=st.value, lineno=st.lineno)
        if isinstance(st, ast.Assign) and ast.unparse(st.targets[0]) == "self.labels_" and \
                ("np.zeros(" in src or "np.ones(" in src):
            st = ast.parse("self.labels_ = INIT").body[0]
        for f in ("body", "orelse"):
            if hasattr(st, f) and isinstance(getattr(st, f), list) and not isinstance(st, ast.With):
                setattr(st, f, _norm(getattr(st, f)) or [ast.Pass()])
        out.append(st)
    return out


def skeletons(repo: Path):
    tree = ast.parse((Path(repo) / "artlib/common/BaseART.py").read_text())
    cls = next(n for n in tree.body if isinstance(n, ast.ClassDef) and n.name == "BaseART")
    fns = {n.name: n for n in cls.body if isinstance(n, ast.FunctionDef)}
    return ([ast.unparse(s) for s in _norm(fns["fit"].body)], [ast.unparse(s) for s in _norm(fns["fit_gif"].body)])


def diff(repo: Path) -> list[str]:
    """[] when the obligation holds, else human-readable differences"""
    try:
        a, b = skeletons(repo)
    except Exception as e:  # noqa
        return [f"could not read fit / fit_gif: {e!r}"]
    if a == b:
        return []
    import difflib
    return [ln for ln in difflib.unified_diff(a, b, "fit", "fit_gif (drawing removed)", lineterm="", n=0)
            if not ln.startswith(("---", "+++", "@@"))][:12]


if __name__ == "__main__":
    d = diff(Path(sys.argv[1] if len(sys.argv) > 1 else "/repo"))
    print("\n".join(d) if d else "fit_gif skeleton = fit skeleton")
    sys.exit(1 if d else 0)
