#!/usr/bin/env python3
"""Self-test of the delegation translator (harness/artv/xtrans.py): semantic one-line mutations of the translated
wrappers must be detected — the translator fails closed, or ArtGenProofs/DelegSpec.lean stops checking against the
regenerated ArtGen/Deleg.lean.  The generated file is written to a scratch module path under /tmp that shadows
ArtGen.Deleg; /verif/lean is not touched."""
import os, shutil, subprocess, sys, tempfile
from pathlib import Path

VERIF = Path(__file__).resolve().parents[1]
sys.path.insert(0, str(VERIF / "harness"))
from artv import xtrans  # noqa: E402
from artv.ktrans import Unsupported  # noqa: E402

REPO = Path(os.environ.get("VERIF_REPO", "/repo"))
MUTATIONS = [
    ("supervised/SimpleARTMAP.py", "return self.module_a.restore_data(X)", "return self.module_a.prepare_data(X)", "restore forwards to prepare"),
    ("supervised/ARTMAP.py", "return self.module_a.prepare_data(X), self.module_b.prepare_data(y)", "return self.module_a.prepare_data(X), self.module_a.prepare_data(y)", "B side prepared by module_a"),
    ("supervised/ARTMAP.py", "return self.module_a.restore_data(X), self.module_b.restore_data(y)", "return self.module_b.restore_data(y), self.module_a.restore_data(X)", "swapped result"),
    ("supervised/ARTMAP.py", "        self.module_b.validate_data(y)\n", "", "B side no longer validated"),
    ("hierarchical/DeepARTMAP.py", "[self.modules[i].prepare_data(X[i]) for i in range(self.n_modules)]", "[self.modules[0].prepare_data(X[i]) for i in range(self.n_modules)]", "every channel prepared by module 0"),
    ("hierarchical/DeepARTMAP.py", "return self.layers[0].labels_", "return self.layers[1].labels_", "labels of layer 1"),
    ("hierarchical/SMART.py", "X_, _ = super(SMART, self).restore_data([X] * self.n_modules)\n        return X_[0]", "X_, _ = super(SMART, self).restore_data([X] * self.n_modules)\n        return X_[1]", "second level's restore"),
    ("reinforcement/FALCON.py", "self.fusion_art.modules[1].prepare_data(actions)", "self.fusion_art.modules[2].prepare_data(actions)", "actions prepared by the reward module"),
    ("topological/TopoART.py", "return self.base_module.match_criterion(i, w, params, cache)", "return self.base_module.match_criterion(i, w, params, None)", "cache dropped"),
    ("cvi/CVIART.py", "        self.base_module.validate_data(X)\n\n    def check_dimensions", "        self.base_module.check_dimensions(X)\n\n    def check_dimensions", "validate forwards to check_dimensions"),
    ("cvi/CVIART.py", "return self.base_module.step_pred(x)", "return self.base_module.step_pred(x) + 0", "arithmetic in a wrapper (fail closed)"),
    ("topological/DualVigilanceART.py", "return self.base_module.get_cluster_centers()", "return self.base_module.W", "centres replaced by raw weights (fail closed)"),
]


def check(src_root: Path, scratch: Path) -> str:
    try:
        text = xtrans.generate(src_root)
    except (Unsupported, SyntaxError, KeyError, AttributeError, TypeError, IndexError, ValueError) as e:
        return f"translator failed closed: {e}"
    lean = VERIF / "lean"
    lp = subprocess.run(["lake", "env", "printenv", "LEAN_PATH"], cwd=lean, capture_output=True, text=True).stdout.strip().splitlines()[-1]
    src, out = scratch / "src" / "ArtGen", scratch / "out" / "ArtGen"
    src.mkdir(parents=True, exist_ok=True)
    out.mkdir(parents=True, exist_ok=True)
    (src / "Deleg.lean").write_text(text)
    env = dict(os.environ, LEAN_PATH=lp)
    r = subprocess.run(["lean", f"--root={scratch / 'src'}", "-o", str(out / "Deleg.olean"), str(src / "Deleg.lean")],
                       cwd=scratch / "src", env=env, capture_output=True, text=True)
    if r.returncode != 0:
        return "generated file does not elaborate: " + (r.stdout + r.stderr).strip().splitlines()[0][:160]
    env = dict(os.environ, LEAN_PATH=f"{scratch / 'out'}:{lp}")
    r = subprocess.run(["lean", "ArtGenProofs/DelegSpec.lean"], cwd=lean, env=env, capture_output=True, text=True)
    errs = [ln for ln in (r.stdout + r.stderr).splitlines() if ": error" in ln]
    if r.returncode != 0 or errs:
        return "proof obligation broke: " + (errs[0][:160] if errs else "?")
    return "ok"


def main() -> int:
    bad = 0
    root = Path(tempfile.mkdtemp(prefix="xtrans_selftest_", dir="/tmp"))
    try:
        res = check(REPO, root / "base")
        print(f"unmutated: {res}")
        if res != "ok":
            bad += 1
        for k, (rel, old, new, what) in enumerate(MUTATIONS):
            src = root / f"m{k}"
            shutil.copytree(REPO / "artlib", src / "artlib")
            f = src / "artlib" / rel
            t = f.read_text()
            if t.count(old) != 1:
                print(f"mutation {k} ({what}): pattern occurs {t.count(old)} times — self-test out of date")
                bad += 1
                continue
            f.write_text(t.replace(old, new))
            res = check(src, root / f"s{k}")
            print(f"mutation {k} ({what}): {res}")
            if res == "ok":
                bad += 1
    finally:
        shutil.rmtree(root, ignore_errors=True)
    print("SELFTEST", "FAILED" if bad else "PASSED")
    return 1 if bad else 0


if __name__ == "__main__":
    sys.exit(main())
