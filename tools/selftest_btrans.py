#!/venv/bin/python
"""Self-test of the BARTMAP translator tie (harness/artv/btrans.py + lean/ArtGenProofs/BartmapSpec.lean).

For the unmutated source and for each one-line semantic mutation of the translated Python functions
(artlib/biclustering/BARTMAP.py) this script
  1. copies the source file to a scratch repo under /tmp and applies the mutation there,
  2. runs `btrans.generate` on the scratch repo            -> "translator failed closed" if it raises Unsupported,
  3. compiles the generated text as module ArtGen.Bartmap in a scratch directory (never in /verif/lean/ArtGen) and
     checks lean/ArtGenProofs/BartmapSpec.lean against it with that directory first on LEAN_PATH
                                                             -> "proof build broke" if Lean reports an error.
Every mutation must be detected, the unmutated source must pass.  Exit code 0 iff so.  /tmp is cleaned afterwards.
"""
from __future__ import annotations

import os
import shutil
import subprocess
import sys
import tempfile
from pathlib import Path

VERIF = Path(__file__).resolve().parents[1]
LEAN = VERIF / "lean"
sys.path.insert(0, str(VERIF / "harness"))

from artv import btrans  # noqa: E402
from artv.ktrans import Unsupported  # noqa: E402

REPO = Path(os.environ.get("VERIF_REPO", "/repo"))
F = btrans.FILE

# (label, old text (must occur exactly once), new text)
MUTATIONS = [
    ("match_criterion_bin: swapped operands  M >= eta -> eta >= M",
     'return M >= self.params["eta"]', 'return self.params["eta"] >= M'),
    ("match_criterion_bin: changed comparison  >= -> >",
     'return M >= self.params["eta"]', 'return M > self.params["eta"]'),
    ("match_criterion_bin: asks about another row (k -> c_b)",
     "M = self._average_pearson_corr(X, k, c_b)", "M = self._average_pearson_corr(X, c_b, c_b)"),
    ("match_reset_func: a passing column cluster answers False",
     "                return True\n        return False", "                return False\n        return False"),
    ("match_reset_func: no passing column cluster answers True",
     "                return True\n        return False", "                return True\n        return True"),
    ("match_reset_func: loops over the categories of the row module",
     "for cluster_b in range(len(self.module_b.W)):", "for cluster_b in range(len(self.module_a.W)):"),
    ("match_reset_func: number of column clusters read off the labels, not the weights",
     "for cluster_b in range(len(self.module_b.W)):", "for cluster_b in range(len(self.module_b.labels_)):"),
    ("match_reset_func: every column cluster is asked about cluster 0 (cluster_b -> cluster_a)",
     "if self.match_criterion_bin(self.X, k, cluster_b, params):", "if self.match_criterion_bin(self.X, k, cluster_a, params):"),
    ("step_fit: the reset function is told row 0",
     'extra={"k": k}', 'extra={"k": 0}'),
    ("step_fit: presents row 0 instead of row k",
     "c_a = self.module_a.step_fit(X[k, :], match_reset_func=match_reset_func)",
     "c_a = self.module_a.step_fit(X[0, :], match_reset_func=match_reset_func)"),
    ("_get_x_cb: mask built from the row labels",
     "b_components = self.module_b.labels_ == c_b", "b_components = self.module_a.labels_ == c_b"),
    ("_average_pearson_corr: members selected by the row labels",
     "X_a = X[self.column_labels_ == c_b, :]", "X_a = X[self.row_labels_ == c_b, :]"),
    ("_average_pearson_corr: empty-cluster guard off by one",
     "if len(X_a) == 0:", "if len(X_a) == 1:"),
    ("_average_pearson_corr: row c_b instead of row k",
     "X_k_cb = self._get_x_cb(X[k, :], c_b)", "X_k_cb = self._get_x_cb(X[c_b, :], c_b)"),
    ("_average_pearson_corr: member not restricted to the cluster's columns (other cluster index k)",
     "self._pearsonr(X_k_cb, self._get_x_cb(x_a_l, c_b))", "self._pearsonr(X_k_cb, self._get_x_cb(x_a_l, k))"),
    ("_average_pearson_corr: correlates the row with itself",
     "self._pearsonr(X_k_cb, self._get_x_cb(x_a_l, c_b))", "self._pearsonr(X_k_cb, X_k_cb)"),
    ("_pearsonr: returns the p-value",
     "r, _ = pearsonr(a, b)", "_, r = pearsonr(a, b)"),
    ("_pearsonr: swapped operands",
     "r, _ = pearsonr(a, b)", "r, _ = pearsonr(b, a)"),
    ("column_labels_ reads the row module",
     "return self.module_b.labels_", "return self.module_a.labels_"),
    ("fit: the column module sees the matrix, not its transpose",
     "X_b = self.module_b.prepare_data(X.T)", "X_b = self.module_b.prepare_data(X)"),
    ("fit: the column module is fitted on the prepared rows",
     "self.module_b = self.module_b.fit(X_b, max_iter=max_iter)", "self.module_b = self.module_b.fit(X_a, max_iter=max_iter)"),
    ("fit: the column module always gets one epoch",
     "self.module_b = self.module_b.fit(X_b, max_iter=max_iter)", "self.module_b = self.module_b.fit(X_b, max_iter=1)"),
    ("fit: result of the column module's fit dropped",
     "self.module_b = self.module_b.fit(X_b, max_iter=max_iter)", "self.module_b.fit(X_b, max_iter=max_iter)"),
    ("fit: row module's weights not emptied (dropped statement)",
     "        self.module_a.W = []\n", ""),
    ("fit: sample counter starts at 1",
     "self.module_a.sample_counter_ = 0", "self.module_a.sample_counter_ = 1"),
    ("fit: label vector as long as the matrix is wide",
     "self.module_a.labels_ = np.zeros((X.shape[0],), dtype=int)", "self.module_a.labels_ = np.zeros((X.shape[1],), dtype=int)"),
    ("fit: number of presented rows = max_iter",
     "n = X.shape[0]", "n = max_iter"),
    ("fit: epochs loop runs n times",
     "for _ in range(max_iter):", "for _ in range(n):"),
    ("fit: every step presents row 0",
     "c_a = self.step_fit(X_a, k)", "c_a = self.step_fit(X_a, 0)"),
    ("fit: the raw matrix is presented to the row module",
     "c_a = self.step_fit(X_a, k)", "c_a = self.step_fit(X, k)"),
    ("fit: label not stored (dropped statement)",
     "                self.module_a.labels_[k] = c_a\n", ""),
    ("fit: label stored at position 0",
     "self.module_a.labels_[k] = c_a", "self.module_a.labels_[0] = c_a"),
    ("fit: the row index is stored instead of the label",
     "self.module_a.labels_[k] = c_a", "self.module_a.labels_[k] = k"),
    ("fit: rows_ built column-cluster-major (loop order swapped)",
     "                for label in range(self.module_a.n_clusters)\n                for _ in range(self.module_b.n_clusters)",
     "                for _ in range(self.module_b.n_clusters)\n                for label in range(self.module_a.n_clusters)"),
    ("fit: rows_ masks taken from the column labels",
     "self.row_labels_ == label", "self.column_labels_ == label"),
    ("fit: columns_ ranges over the row clusters twice",
     "                for _ in range(self.module_a.n_clusters)\n                for label in range(self.module_b.n_clusters)",
     "                for _ in range(self.module_a.n_clusters)\n                for label in range(self.module_a.n_clusters)"),
    ("fit: rows_ and columns_ exchanged",
     "        self.columns_ = np.vstack(", "        self.rows_ = np.vstack("),
    ("fit: self.X not stored (dropped statement)",
     "        self.X = X\n", ""),
]


def lean_env():
    def last(cmd):
        out = subprocess.run(cmd, cwd=LEAN, capture_output=True, text=True, check=True).stdout
        return [ln for ln in out.splitlines() if ln.strip()][-1].strip()
    return last(["lake", "env", "printenv", "LEAN_PATH"]), last(["lake", "env", "which", "lean"])


def scratch_repo(root: Path, old: str | None, new: str) -> Path:
    repo = root / "repo"
    if repo.exists():
        shutil.rmtree(repo)
    (repo / F).parent.mkdir(parents=True, exist_ok=True)
    text = (REPO / F).read_text()
    if old is not None:
        if text.count(old) != 1:
            raise SystemExit(f"mutation pattern occurs {text.count(old)} times in {F}: {old!r}")
        text = text.replace(old, new)
    (repo / F).write_text(text)
    return repo


def check(root: Path, repo: Path, lean_path: str, lean_bin: str) -> tuple[str, str]:
    """-> (verdict, detail); verdict in {"pass", "failed closed", "proof build broke", "generated file does not compile"}"""
    try:
        text = btrans.generate(repo)
    except (Unsupported, SyntaxError, KeyError, AttributeError, TypeError, IndexError) as e:
        return "failed closed", f"{type(e).__name__}: {e}"
    gen = root / "gen"
    if gen.exists():
        shutil.rmtree(gen)
    (gen / "ArtGen").mkdir(parents=True)
    (gen / "ArtGen" / "Bartmap.lean").write_text(text)
    env = dict(os.environ, LEAN_PATH=lean_path)
    r = subprocess.run([lean_bin, "-o", "ArtGen/Bartmap.olean", "ArtGen/Bartmap.lean"], cwd=gen, env=env,
                       capture_output=True, text=True)
    if r.returncode != 0:
        return "generated file does not compile", (r.stdout + r.stderr).strip().splitlines()[0][:160]
    env = dict(os.environ, LEAN_PATH=f"{gen}:{lean_path}")
    r = subprocess.run([lean_bin, "ArtGenProofs/BartmapSpec.lean"], cwd=LEAN, env=env, capture_output=True, text=True)
    errs = [ln for ln in (r.stdout + r.stderr).splitlines() if ": error" in ln]
    if r.returncode != 0 or errs:
        return "proof build broke", (errs[0] if errs else f"exit code {r.returncode}")[:160]
    return "pass", ""


def main() -> int:
    subprocess.run(["lake", "build", "ArtModel.ImpBartmap", "ArtProps.C17"], cwd=LEAN, check=True,
                   stdout=subprocess.DEVNULL, stderr=subprocess.DEVNULL)
    lean_path, lean_bin = lean_env()
    root = Path(tempfile.mkdtemp(prefix="selftest_btrans_"))
    ok = True
    try:
        verdict, detail = check(root, scratch_repo(root, None, ""), lean_path, lean_bin)
        print(f"[{'ok' if verdict == 'pass' else 'FAIL'}] unmutated source: {verdict} {detail}")
        ok &= verdict == "pass"
        committed = (LEAN / "ArtGen" / "Bartmap.lean").read_text()
        same = committed == btrans.generate(REPO)
        print(f"[{'ok' if same else 'FAIL'}] lean/ArtGen/Bartmap.lean is byte-identical to generate({REPO})")
        ok &= same
        for label, old, new in MUTATIONS:
            verdict, detail = check(root, scratch_repo(root, old, new), lean_path, lean_bin)
            detected = verdict in ("failed closed", "proof build broke", "generated file does not compile")
            print(f"[{'ok' if detected else 'UNDETECTED'}] {label}: {verdict}" + (f"  ({detail})" if detail else ""))
            ok &= detected
    finally:
        shutil.rmtree(root, ignore_errors=True)
    print("selftest_btrans:", "all mutations detected, unmutated source passes" if ok else "FAILED")
    return 0 if ok else 1


if __name__ == "__main__":
    sys.exit(main())
