#!/usr/bin/env python3
"""Self-test of the third estimator-protocol translator tie (harness/artv/q3trans.py + lean/ArtGenProofs/Params3Spec.lean).

    /venv/bin/python tools/selftest_q3trans.py [--keep] [substring of a mutation name …]

Copies the translated source files of /repo to a scratch tree under /tmp, applies one *semantic* mutation at a time,
runs `q3trans.generate` on the scratch tree, compiles the generated text to a scratch .olean (outside /verif/lean:
nothing in the project tree is touched, other builds are not disturbed) and type-checks
`ArtGenProofs/Params3Spec.lean` against it (the scratch directory comes first on LEAN_PATH).  A mutation is *detected*
when the translator fails closed or the proof file no longer checks.  The unmutated source must pass; every mutation
must be detected.  Exit status 0 iff both hold.
"""
import os
import shutil
import subprocess
import sys
from pathlib import Path

VERIF = Path(__file__).resolve().parents[1]
sys.path.insert(0, str(VERIF / "harness"))
from artv import q3trans  # noqa: E402
from artv.ktrans import Unsupported  # noqa: E402

REPO = Path(os.environ.get("VERIF_REPO", "/repo"))
LEAN = VERIF / "lean"
SCRATCH = Path("/tmp/q3trans_selftest_%d" % os.getpid())

B = "artlib/common/BaseART.py"
Ba = "artlib/biclustering/BARTMAP.py"
Fu = "artlib/fusion/FusionART.py"
De = "artlib/hierarchical/DeepARTMAP.py"
Sm = "artlib/hierarchical/SMART.py"
Fa = "artlib/reinforcement/FALCON.py"

# (name, kind, file, old text (must occur exactly once), new text)
MUTATIONS = [
    # ---- BARTMAP.set_params
    ("BARTMAP.set_params: `valid_params[key] = value` removed (a replaced module no longer receives its nested keys)",
     "dropped statement", Ba,
     "            setattr(self, key, value)\n            valid_params[key] = value\n", "            setattr(self, key, value)\n"),
    ("BARTMAP.set_params: validation dropped", "dropped statement", Ba,
     "        self.validate_params(local_params)\n", ""),
    ("BARTMAP.set_params: own-parameter test inverted", "changed condition", Ba,
     "                if key in local_params:\n", "                if key not in local_params:\n"),
    ("BARTMAP.set_params: nested routing before the plain assignments", "reordered effect", Ba,
     "        for key, value in plain_params.items():\n            setattr(self, key, value)\n            valid_params[key] = value\n\n"
     "        for key, sub_params in nested_params.items():\n            valid_params[key].set_params(**sub_params)\n",
     "        for key, sub_params in nested_params.items():\n            valid_params[key].set_params(**sub_params)\n"
     "        for key, value in plain_params.items():\n            setattr(self, key, value)\n            valid_params[key] = value\n\n"),
    ("BARTMAP.set_params: unknown names raise AttributeError", "changed exception", Ba,
     "                raise ValueError(\n", "                raise AttributeError(\n"),
    ("BARTMAP.set_params: a plain name is recorded but not assigned", "dropped statement", Ba,
     "            setattr(self, key, value)\n", ""),
    ("BARTMAP.set_params: nested sub-parameters stored under the sub-key", "swapped operands", Ba,
     "nested_params[key][sub_key] = value", "nested_params[sub_key][key] = value"),
    # ---- BARTMAP.get_params
    ("BARTMAP.get_params writes into self.params (`out = self.params`, the former defect F43)", "aliasing", Ba,
     "        out = dict(self.params)\n", "        out = self.params\n"),
    ("BARTMAP.get_params: module_b's parameters exposed under module_a__", "changed name", Ba,
     'out.update(("module_b" + "__" + k, val) for k, val in deep_b_items)',
     'out.update(("module_a" + "__" + k, val) for k, val in deep_b_items)'),
    ("BARTMAP.get_params: the module entry written before its parameters", "reordered effect", Ba,
     '        out.update(("module_a" + "__" + k, val) for k, val in deep_a_items)\n        out["module_a"] = self.module_a\n',
     '        out["module_a"] = self.module_a\n        out.update(("module_a" + "__" + k, val) for k, val in deep_a_items)\n'),
    # ---- BARTMAP.__init__ / validate_params / __setattr__ / __getattr__
    ("BARTMAP.__init__: eta stored under the wrong key", "changed key", Ba,
     'params: dict = {"eta": eta}', 'params: dict = {"eta_": eta}'),
    ("BARTMAP.__init__: module_b receives module_a", "swapped operands", Ba,
     "        self.module_b = module_b\n", "        self.module_b = module_a\n"),
    ("BARTMAP.__init__: params stored before validation", "reordered effect", Ba,
     "        self.validate_params(params)\n        self.params = params\n",
     "        self.params = params\n        self.validate_params(params)\n"),
    ("BARTMAP.validate_params: eta may be an int", "changed type", Ba,
     'assert isinstance(params["eta"], float)', 'assert isinstance(params["eta"], int)'),
    ("BARTMAP.__setattr__: redirect condition inverted", "changed condition", Ba,
     'if key in self.__dict__.get("params", {}):', 'if key not in self.__dict__.get("params", {}):'),
    ("BARTMAP.__getattr__: a missing name raises KeyError", "changed exception", Ba,
     "            raise AttributeError(\n", "            raise KeyError(\n"),
    # ---- FusionART
    ("FusionART.__init__ assigns `dim_` of a module", "added effect on a nested estimator", Fu,
     "        self.dim_ = sum(channel_dims)\n",
     "        self.dim_ = sum(channel_dims)\n        modules[0].dim_ = self.dim_\n"),
    ("FusionART.__init__ assigns `dim_` of every module in a loop", "added effect on a nested estimator", Fu,
     "        self.modules = modules\n",
     "        self.modules = modules\n        for module in modules:\n            module.dim_ = 0\n"),
    ("FusionART.__init__: gamma_values stored under the wrong key", "changed key", Fu,
     'params = {"gamma_values": gamma_values}', 'params = {"gamma": gamma_values}'),
    ("FusionART.__init__: dim_ is the sum of gamma_values", "swapped operands", Fu,
     "        self.dim_ = sum(channel_dims)\n", "        self.dim_ = sum(gamma_values)\n"),
    ("FusionART.__init__: the length assert ignores channel_dims", "weakened condition", Fu,
     "assert len(modules) == len(gamma_values) == len(channel_dims)", "assert len(modules) == len(gamma_values)"),
    ("FusionART.__init__: modules stored before BaseART.__init__ validated the parameters", "reordered effect", Fu,
     "        super().__init__(params)\n        self.modules = modules\n",
     "        self.modules = modules\n        super().__init__(params)\n"),
    ("FusionART.__init__: _weight_indices not stored", "dropped statement", Fu,
     "        self._weight_indices = self._channel_indices\n", ""),
    ("get_channel_position_tuples: the next channel starts at the previous start", "dropped statement", Fu,
     "        positions.append((start, end))\n        start = end\n", "        positions.append((start, end))\n"),
    ("get_channel_position_tuples: end = length (offset dropped)", "dropped operand", Fu,
     "        end = start + length\n", "        end = length\n"),
    ("get_channel_position_tuples: (end, start)", "swapped operands", Fu,
     "positions.append((start, end))", "positions.append((end, start))"),
    ("FusionART.validate_params: the gammas must sum to 2", "changed constant", Fu,
     'assert sum(params["gamma_values"]) == 1.0', 'assert sum(params["gamma_values"]) == 2.0'),
    ("FusionART.validate_params: gamma = 1 excluded", "bound made strict", Fu,
     "1.0 >= g >= 0.0", "1.0 > g >= 0.0"),
    ("FusionART.validate_params: range check dropped", "dropped statement", Fu,
     '        assert all([1.0 >= g >= 0.0 for g in params["gamma_values"]])\n', ""),
    ("FusionART.get_params writes into self.params (`out = self.params`, the former defect F43)", "aliasing", Fu,
     "        out = dict(self.params)\n        for i, module", "        out = self.params\n        for i, module"),
    ("FusionART.get_params: the module stored under modules_i", "changed key", Fu,
     'out[f"module_{i}"] = module', 'out[f"modules_{i}"] = module'),
    ("FusionART.get_params: nested names joined with a single underscore", "changed separator", Fu,
     'out.update((f"module_{i}" + "__" + k, val) for k, val in deep_items)',
     'out.update((f"module_{i}" + "_" + k, val) for k, val in deep_items)'),
    # ---- DeepARTMAP / FALCON / TD_FALCON
    ("DeepARTMAP.__init__: two modules required", "changed constant", De,
     "assert len(modules) >= 1,", "assert len(modules) >= 2,"),
    ("DeepARTMAP.__init__: modules stored under another name", "changed name", De,
     "        self.modules = modules\n", "        self.modules_ = modules\n"),
    ("DeepARTMAP.__init__: is_supervised starts as False", "changed constant", De,
     "self.is_supervised: Optional[bool] = None", "self.is_supervised: Optional[bool] = False"),
    ("FALCON.__init__: module order action, state, reward", "swapped operands", Fa,
     "modules=[state_art, action_art, reward_art]", "modules=[action_art, state_art, reward_art]"),
    ("FALCON.__init__: gamma_values passed as channel_dims", "swapped operands", Fa,
     "            gamma_values=gamma_values,\n            channel_dims=channel_dims,\n",
     "            gamma_values=gamma_values,\n            channel_dims=gamma_values,\n"),
    ("FALCON.__init__: the FusionART stored under another name", "changed name", Fa,
     "        self.fusion_art = FusionART(\n            modules=", "        self.fusion = FusionART(\n            modules="),
    ("TD_FALCON.__init__: td_alpha receives td_lambda", "swapped operands", Fa,
     "        self.td_alpha = td_alpha\n", "        self.td_alpha = td_lambda\n"),
    ("TD_FALCON.__init__: td_lambda stored under the wrong key", "changed key", Fa,
     "        self.td_lambda = td_lambda\n", "        self.td_lamda = td_lambda\n"),
    ("TD_FALCON.__init__: state and action modules swapped in the super call", "swapped operands", Fa,
     "            state_art, action_art, reward_art, gamma_values, channel_dims\n",
     "            action_art, state_art, reward_art, gamma_values, channel_dims\n"),
    ("TD_FALCON.__init__: the td parameters stored after FALCON.__init__", "reordered effect", Fa,
     "        self.td_alpha = td_alpha\n        self.td_lambda = td_lambda\n        super(TD_FALCON, self).__init__(\n"
     "            state_art, action_art, reward_art, gamma_values, channel_dims\n        )\n",
     "        super(TD_FALCON, self).__init__(\n"
     "            state_art, action_art, reward_art, gamma_values, channel_dims\n        )\n"
     "        self.td_alpha = td_alpha\n        self.td_lambda = td_lambda\n"),
    # ---- BaseART, as FusionART runs it
    ("BaseART.__init__: params stored before validation", "reordered effect", B,
     "        self.validate_params(params)\n        self.params = params\n",
     "        self.params = params\n        self.validate_params(params)\n"),
    ("BaseART.__setattr__: redirect condition inverted", "changed condition", B,
     'if key in self.__dict__.get("params", {}):', 'if key not in self.__dict__.get("params", {}):'),
]


def lean_env():
    lp = subprocess.run(["lake", "env", "printenv", "LEAN_PATH"], cwd=LEAN, capture_output=True, text=True, check=True).stdout.strip()
    lean = subprocess.run(["lake", "env", "sh", "-c", "command -v lean"], cwd=LEAN, capture_output=True, text=True,
                          check=True).stdout.strip().splitlines()[-1]
    return lean, lp.splitlines()[-1]


def fresh_tree(root: Path):
    if root.exists():
        shutil.rmtree(root)
    for rel in dict.fromkeys(q3trans.FILES.values()):
        (root / rel).parent.mkdir(parents=True, exist_ok=True)
        shutil.copy(REPO / rel, root / rel)


def check(root: Path, work: Path, lean: str, lp: str):
    """-> (verdict, detail): "pass" | "translator failed closed" | "proof build broke" """
    try:
        text = q3trans.generate(root)
    except (Unsupported, SyntaxError, KeyError, AttributeError, TypeError, IndexError, ValueError) as e:
        return "translator failed closed", f"{type(e).__name__}: {e}"
    src, out = work / "src" / "ArtGen", work / "out" / "ArtGen"
    src.mkdir(parents=True, exist_ok=True)
    out.mkdir(parents=True, exist_ok=True)
    (src / "Params3.lean").write_text(text)
    # Lean resolves the root `ArtGen` to the first LEAN_PATH entry that has it: the other generated modules that the
    # proof file imports (ArtGen.Params, ArtGen.Params2, through the sibling proof files) are linked next to the scratch one
    for d in lp.split(":"):
        built = Path(d) / "ArtGen"
        if built.is_dir():
            for f in built.iterdir():
                if not f.name.startswith("Params3.") and not (out / f.name).exists():
                    os.symlink(f, out / f.name)
            break
    env = dict(os.environ, LEAN_PATH=lp)
    p = subprocess.run([lean, f"--root={work / 'src'}", "-o", str(out / "Params3.olean"), str(src / "Params3.lean")],
                       cwd=work / "src", env=env, capture_output=True, text=True, timeout=600)
    if p.returncode != 0:
        return "proof build broke", "the generated file does not elaborate: " + (p.stdout + p.stderr).strip().split("\n")[0][:160]
    env = dict(os.environ, LEAN_PATH=f"{work / 'out'}:{lp}")
    try:
        p = subprocess.run([lean, "-M", "12000", "ArtGenProofs/Params3Spec.lean"], cwd=LEAN, env=env, capture_output=True,
                           text=True, timeout=900)
    except subprocess.TimeoutExpired:
        return "proof build broke", "the proof file did not check within 900 s"
    errs = [l for l in (p.stdout + p.stderr).split("\n") if ": error" in l]
    if p.returncode != 0 or errs:
        first = errs[0] if errs else (p.stdout + p.stderr).strip().split("\n")[0]
        return "proof build broke", f"{len(errs)} error(s), first: {first[:160]}"
    return "pass", ""


def main():
    args = [a for a in sys.argv[1:] if not a.startswith("--")]
    keep = "--keep" in sys.argv
    lean, lp = lean_env()
    ok = True
    try:
        root, work = SCRATCH / "repo", SCRATCH / "lean"
        fresh_tree(root)
        v, d = check(root, work, lean, lp)
        committed = (LEAN / "ArtGen" / "Params3.lean").read_text() == q3trans.generate(root)
        print(f"[{'ok' if v == 'pass' and committed else 'FAIL'}] unmutated source: {v} {d}; committed ArtGen/Params3.lean "
              f"{'is' if committed else 'IS NOT'} what the translator produces", flush=True)
        ok &= v == "pass" and committed
        for name, kind, rel, old, new in MUTATIONS:
            if args and not any(a in name for a in args):
                continue
            fresh_tree(root)
            text = (root / rel).read_text()
            if text.count(old) != 1:
                print(f"[FAIL] {name}: the text to mutate occurs {text.count(old)} times in {rel}", flush=True)
                ok = False
                continue
            (root / rel).write_text(text.replace(old, new))
            v, d = check(root, work, lean, lp)
            det = v != "pass"
            ok &= det
            print(f"[{'detected' if det else 'MISSED'}] {name} ({kind}; {rel.split('/')[-1]}): {v} — {d}", flush=True)
    finally:
        if not keep:
            shutil.rmtree(SCRATCH, ignore_errors=True)
    print("SELFTEST", "PASSED" if ok else "FAILED")
    return 0 if ok else 1


if __name__ == "__main__":
    sys.exit(main())
