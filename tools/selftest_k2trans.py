#!/usr/bin/env python3
"""Self-test of the second kernel translator tie (harness/artv/k2trans.py + lean/ArtGenProofs/Kernels2Spec.lean).

    /venv/bin/python tools/selftest_k2trans.py [--keep]

Copies the eight translated source files of /repo to a scratch tree under /tmp, applies one *semantic* mutation at a
time, runs `k2trans.generate` on the scratch tree, compiles the generated text to a scratch .olean (outside
/verif/lean: nothing in the project tree is touched, other builds are not disturbed) and type-checks
`ArtGenProofs/Kernels2Spec.lean` against it (the scratch directory comes first on LEAN_PATH).  A mutation is
*detected* when the translator fails closed or the proof file no longer checks.  The *purity* mutations (a store to
`self.<attr>`, an in-place write into an argument or into a view of one) must make the translator fail closed.
The unmutated source must pass; every mutation must be detected.  Exit status 0 iff both hold.
"""
import os
import shutil
import subprocess
import sys
from pathlib import Path

VERIF = Path(__file__).resolve().parents[1]
sys.path.insert(0, str(VERIF / "harness"))
from artv import k2trans  # noqa: E402
from artv.ktrans import Unsupported  # noqa: E402

REPO = Path(os.environ.get("VERIF_REPO", "/repo"))
LEAN = VERIF / "lean"
SCRATCH = Path("/tmp/k2trans_selftest_%d" % os.getpid())

By = k2trans.FILES["BayesianART"]
Qn = k2trans.FILES["QuadraticNeuronART"]
Fz = k2trans.FILES["FuzzyART"]
A1 = k2trans.FILES["ART1"]
A2 = k2trans.FILES["ART2A"]
Hs = k2trans.FILES["HypersphereART"]
El = k2trans.FILES["EllipsoidART"]
Ga = k2trans.FILES["GaussianART"]

BY_RET = "        return np.concatenate([mean_new, cov_new.flatten(), [n_new]])\n"
QN_RET = "        return np.concatenate([w_new.flatten(), b_new, [s_new]])\n"

# (name, kind, file, old text (must occur exactly once), new text, must the translator fail closed?)
MUTATIONS = [
    # ---- BayesianART
    ("Bayesian update: count increases by two", "off-by-one", By, "n_new = n + 1", "n_new = n + 2", False),
    ("Bayesian update: deviation from the OLD mean", "changed operand", By,
     "i_mean_dist = i - mean_new", "i_mean_dist = i - mean", False),
    ("Bayesian update: old covariance weighted 1/(n+1)", "changed operand", By,
     "cov_new = (n / n_new) * cov", "cov_new = (1 / n_new) * cov", False),
    ("Bayesian update: mean weights swapped", "swapped operands", By,
     "mean_new = (1 - (1 / n_new)) * mean + (1 / n_new) * i", "mean_new = (1 / n_new) * mean + (1 - (1 / n_new)) * i", False),
    ("Bayesian choice: prior numerator 1 instead of n", "changed operand", By,
     "p_cj = n / sum(w_[-1] for w_ in self.W)", "p_cj = 1 / sum(w_[-1] for w_ in self.W)", False),
    ("Bayesian choice: exponent -1 instead of -1/2", "changed constant", By, "-0.5 * np.matmul", "-1.0 * np.matmul", False),
    ("Bayesian choice: normaliser without the square root", "dropped operation", By,
     "exp_dist_cov_dist / np.sqrt((self.pi2**self.dim_) * det_cov)", "exp_dist_cov_dist / ((self.pi2**self.dim_) * det_cov)", False),
    ("Bayesian choice: likelihood not multiplied by the prior", "dropped operation", By,
     "activation = p_i_cj * p_cj", "activation = p_i_cj", False),
    ("Bayesian class constant pi2 = 4 pi", "changed constant", By, "pi2 = np.pi * 2", "pi2 = np.pi * 4", False),
    ("Bayesian match: det of the OLD covariance (the paper's rule)", "changed operand", By,
     "return np.linalg.det(new_cov), cache", 'return cache["det_cov"], cache', False),
    ("Bayesian match: new_w not cached", "dropped statement", By, '        cache["new_w"] = new_w\n', "", False),
    ("Bayesian update: cached new_w ignored", "dropped statement", By,
     '        if "new_w" in cache:\n            return cache["new_w"]\n', "", False),
    ("Bayesian new_weight: count starts at 0", "changed constant", By,
     'params["cov_init"].flatten(), [1]]', 'params["cov_init"].flatten(), [0]]', False),
    ("Bayesian centres: the other part of the weight", "changed slice", By,
     "return [w[: self.dim_] for w in self.W]", "return [w[self.dim_ :] for w in self.W]", False),
    # ---- QuadraticNeuronART
    ("QuadNeuron choice: s instead of s squared", "dropped operand", Qn,
     "activation = np.exp(-s * s * l2norm2_z_b)", "activation = np.exp(-s * l2norm2_z_b)", False),
    ("QuadNeuron choice: transposed weight matrix", "changed operand", Qn, "z = np.matmul(w_, i)", "z = np.matmul(w_.T, i)", False),
    ("QuadNeuron choice: bias slice off by one", "off-by-one", Qn,
     "        b = w[dim2:-1]\n        s = w[-1]\n        z = ", "        b = w[dim2 + 1 : -1]\n        s = w[-1]\n        z = ", False),
    ("QuadNeuron update: bias moves away from z", "changed operator", Qn,
     'b_new = b + params["lr_b"]', 'b_new = b - params["lr_b"]', False),
    ("QuadNeuron update: outer product transposed", "swapped operands", Qn,
     "(z - b).reshape((-1, 1)) * i.reshape((1, -1))", "i.reshape((-1, 1)) * (z - b).reshape((1, -1))", False),
    ("QuadNeuron update: s step without the factor s", "dropped operand", Qn,
     "(-2 * s * T * l2norm2_z_b)", "(-2 * T * l2norm2_z_b)", False),
    ("QuadNeuron update: W uses the learning rate of b", "changed operand", Qn,
     'w_new = w_ + params["lr_w"]', 'w_new = w_ + params["lr_b"]', False),
    ("QuadNeuron update: learning rates of b and W exchanged", "swapped operands", Qn,
     'b_new = b + params["lr_b"] * (sst2 * (z - b))\n        w_new = w_ + params["lr_w"]',
     'b_new = b + params["lr_w"] * (sst2 * (z - b))\n        w_new = w_ + params["lr_b"]', False),
    ("QuadNeuron update: s and T read from each other's cache entry", "swapped operands", Qn,
     '        s = cache["s"]\n', '        s = cache["activation"]\n', False),
    ("QuadNeuron update: blocks concatenated in another order", "reordered", Qn,
     "np.concatenate([w_new.flatten(), b_new, [s_new]])", "np.concatenate([b_new, w_new.flatten(), [s_new]])", False),
    ("QuadNeuron match: the cached squared distance instead of the activation", "changed operand", Qn,
     'return cache["activation"], cache', 'return cache["l2norm2_z_b"], cache', False),
    ("QuadNeuron new_weight: sample before the matrix", "reordered", Qn,
     '[w_new.flatten(), i, [params["s_init"]]]', '[i, w_new.flatten(), [params["s_init"]]]', False),
    ("QuadNeuron centres: slice keeps s", "changed slice", Qn,
     "return [w[dim2:-1] for w in self.W]", "return [w[dim2:] for w in self.W]", False),
    # ---- FuzzyART accessors
    ("get_bounding_box: upper corner not complemented", "dropped operation", Fz, "a_max = 1 - w[i + n_]", "a_max = w[i + n_]", False),
    ("get_bounding_box: width sign", "swapped operands", Fz, "widths.append(a_max - a_min)", "widths.append(a_min - a_max)", False),
    ("get_bounding_box: half width is len/3", "changed constant", Fz, "n_ = int(len(w) / 2)", "n_ = int(len(w) / 3)", False),
    ("get_bounding_box: loop one dimension short", "off-by-one", Fz, "for i in range(n):", "for i in range(n - 1):", False),
    ("get_bounding_boxes: n not passed on", "dropped argument", Fz, "get_bounding_box(w, n=n)", "get_bounding_box(w)", False),
    ("shrink_clusters: upper half shrinks outwards", "changed operator", Fz,
     "new_w[dim:] += widths * shrink_ratio", "new_w[dim:] -= widths * shrink_ratio", False),
    ("shrink_clusters: lower half not moved", "dropped statement", Fz, "            new_w[:dim] += widths * shrink_ratio\n", "", False),
    ("shrink_clusters: widths without complement", "dropped operation", Fz,
     "widths = (1 - w[dim:]) - w[:dim]", "widths = w[dim:] - w[:dim]", False),
    ("shrink_clusters: new weights not stored in order (prepended)", "reordered effect", Fz,
     "new_W.append(new_w)", "new_W.insert(0, new_w)", False),
    ("Fuzzy centres: weight passed as a column", "changed shape", Fz,
     "self.restore_data(w.reshape((1, -1)))", "self.restore_data(w.reshape((-1, 1)))", False),
    # ---- get_cluster_centers of the other classes
    ("ART1 centres: bottom-up half", "changed slice", A1, "return [w[self.dim_ :] for w in self.W]", "return [w[: self.dim_] for w in self.W]", False),
    ("ART2 centres: last coordinate cut", "changed slice", A2, "        return self.W\n", "        return [w[:-1] for w in self.W]\n", False),
    ("Hypersphere centres: radius kept", "changed slice", Hs, "return [w[:-1] for w in self.W]", "return [w for w in self.W]", False),
    ("Ellipsoid centres: the major axis", "changed slice", El,
     "return [w[: self.dim_] for w in self.W]", "return [w[self.dim_ : -1] for w in self.W]", False),
    ("Gaussian centres: mean and sigma", "changed slice", Ga,
     "return [w[: self.dim_] for w in self.W]", "return [w[: 2 * self.dim_] for w in self.W]", False),
    # ---- purity: these must make the translator fail closed
    ("PURITY Bayesian update writes the count into its argument w", "in-place write into an argument", By,
     BY_RET, "        w[-1] = n_new\n" + BY_RET, True),
    ("PURITY Bayesian choice adds a ridge to cov (a view of w)", "in-place += on a view of an argument", By,
     "        n = w[-1]\n        dist = mean - i\n", "        n = w[-1]\n        cov += 1e-6 * np.identity(self.dim_)\n        dist = mean - i\n", True),
    ("PURITY Bayesian new_weight writes into params['cov_init']", "in-place write into the hyper-parameters", By,
     '        return np.concatenate([i, params["cov_init"].flatten(), [1]])',
     '        params["cov_init"][0] = i\n        return np.concatenate([i, params["cov_init"].flatten(), [1]])', True),
    ("PURITY Bayesian match_criterion lowers the model's vigilance", "store to self.params", By,
     '        cache["new_w"] = new_w\n', '        cache["new_w"] = new_w\n        self.params["rho"] = 0.0\n', True),
    ("PURITY QuadNeuron update remembers T on the model", "store to self.<attr>", Qn,
     QN_RET, "        self.last_T_ = T\n" + QN_RET, True),
    ("PURITY QuadNeuron update moves the cached bias in place", "in-place += on a cache array (a view of w)", Qn,
     '        b_new = b + params["lr_b"] * (sst2 * (z - b))\n',
     '        b += params["lr_b"] * (sst2 * (z - b))\n        b_new = b\n', True),
    ("PURITY QuadNeuron choice normalises its input in place", "in-place /= on an argument", Qn,
     "        z = np.matmul(w_, i)\n", "        i /= 2\n        z = np.matmul(w_, i)\n", True),
    ("PURITY Hypersphere get_cluster_centers replaces self.W", "store to self.W in an accessor", Hs,
     "        return [w[:-1] for w in self.W]\n", "        self.W = [w[:-1] for w in self.W]\n        return self.W\n", True),
    ("PURITY get_bounding_box clears the weight it reads", "in-place write into an argument", Fz,
     "        a_min = w[i]\n", "        a_min = w[i]\n        w[i] = 0\n", True),
    ("PURITY shrink_clusters works on the stored weight, not on a copy", "aliasing: in-place write into self.W[k]", Fz,
     "new_w = np.copy(w)", "new_w = w", True),
]


def lean_env():
    lp = subprocess.run(["lake", "env", "printenv", "LEAN_PATH"], cwd=LEAN, capture_output=True, text=True, check=True).stdout.strip()
    lean = subprocess.run(["lake", "env", "sh", "-c", "command -v lean"], cwd=LEAN, capture_output=True, text=True,
                          check=True).stdout.strip().splitlines()[-1]
    return lean, lp.splitlines()[-1]


def fresh_tree(root: Path):
    if root.exists():
        shutil.rmtree(root)
    for rel in k2trans.FILES.values():
        (root / rel).parent.mkdir(parents=True, exist_ok=True)
        shutil.copy(REPO / rel, root / rel)


def check(root: Path, work: Path, lean: str, lp: str):
    """-> (verdict, detail): "pass" | "translator failed closed" | "proof build broke" """
    try:
        text = k2trans.generate(root)
    except (Unsupported, SyntaxError, KeyError, AttributeError, TypeError, IndexError, ValueError) as e:
        return "translator failed closed", f"{type(e).__name__}: {e}"
    src, out = work / "src" / "ArtGen", work / "out" / "ArtGen"
    src.mkdir(parents=True, exist_ok=True)
    out.mkdir(parents=True, exist_ok=True)
    (src / "Kernels2.lean").write_text(text)
    # the scratch `ArtGen/` shadows the project's directory of that name: the spec also imports ArtGenProofs.PrepSpec,
    # which needs ArtGen.Prep — link the project's other (unmutated) generated modules next to the scratch one
    for f in (LEAN / ".lake" / "build" / "lib" / "lean" / "ArtGen").iterdir():
        if not f.name.startswith("Kernels2.") and not (out / f.name).exists():
            os.symlink(f, out / f.name)
    env = dict(os.environ, LEAN_PATH=lp)
    p = subprocess.run([lean, f"--root={work / 'src'}", "-o", str(out / "Kernels2.olean"), str(src / "Kernels2.lean")],
                       cwd=work / "src", env=env, capture_output=True, text=True, timeout=600)
    if p.returncode != 0:
        return "proof build broke", "the generated file does not elaborate: " + (p.stdout + p.stderr).strip().split("\n")[0][:160]
    env = dict(os.environ, LEAN_PATH=f"{work / 'out'}:{lp}")
    p = subprocess.run([lean, "ArtGenProofs/Kernels2Spec.lean"], cwd=LEAN, env=env, capture_output=True, text=True, timeout=1200)
    errs = [l for l in (p.stdout + p.stderr).split("\n") if ": error" in l]
    if p.returncode != 0 or errs:
        first = errs[0] if errs else (p.stdout + p.stderr).strip().split("\n")[0]
        return "proof build broke", f"{len(errs)} error(s), first: {first[:160]}"
    return "pass", ""


def main():
    keep = "--keep" in sys.argv
    lean, lp = lean_env()
    ok = True
    try:
        root, work = SCRATCH / "repo", SCRATCH / "lean"
        fresh_tree(root)
        v, d = check(root, work, lean, lp)
        committed = (LEAN / "ArtGen" / "Kernels2.lean").read_text() == k2trans.generate(root)
        print(f"[{'ok' if v == 'pass' and committed else 'FAIL'}] unmutated source: {v} {d}; committed ArtGen/Kernels2.lean "
              f"{'is' if committed else 'IS NOT'} what the translator produces", flush=True)
        ok &= v == "pass" and committed
        for name, kind, rel, old, new, closed in MUTATIONS:
            fresh_tree(root)
            text = (root / rel).read_text()
            if text.count(old) != 1:
                print(f"[FAIL] {name}: the text to mutate occurs {text.count(old)} times in {rel}")
                ok = False
                continue
            (root / rel).write_text(text.replace(old, new))
            v, d = check(root, work, lean, lp)
            det = v != "pass" and (not closed or v == "translator failed closed")
            ok &= det
            tag = "detected" if det else ("NOT CLOSED" if v != "pass" else "MISSED")
            print(f"[{tag}] {name} ({kind}; {rel.split('/')[-1]}): {v} — {d}", flush=True)
    finally:
        if not keep:
            shutil.rmtree(SCRATCH, ignore_errors=True)
    print("SELFTEST", "PASSED" if ok else "FAILED")
    return 0 if ok else 1


if __name__ == "__main__":
    sys.exit(main())
