#!/venv/bin/python
"""Self-test of the DeepARTMAP / SMART translator tie (harness/artv/htrans.py + lean/ArtGenProofs/DeepSpec.lean).

For the unmutated source and for each one-line semantic mutation of the translated Python functions
(artlib/hierarchical/DeepARTMAP.py, artlib/hierarchical/SMART.py) this script
  1. copies the two source files to a scratch repo under /tmp and applies the mutation there,
  2. runs `htrans.generate` on the scratch repo            -> "translator failed closed" if it raises Unsupported,
  3. compiles the generated text as module ArtGen.Deep in a scratch directory (never in /verif/lean/ArtGen) and
     checks lean/ArtGenProofs/DeepSpec.lean against it with that directory first on LEAN_PATH
                                                             -> "proof build broke" if Lean reports an error.
Every mutation must be detected, the unmutated source must pass.  Exit code 0 iff so.  /tmp is cleaned afterwards.
"""
from __future__ import annotations

import os
import shutil
import subprocess
import sys
import tempfile
from concurrent.futures import ThreadPoolExecutor
from pathlib import Path

VERIF = Path(__file__).resolve().parents[1]
LEAN = VERIF / "lean"
sys.path.insert(0, str(VERIF / "harness"))

from artv import htrans  # noqa: E402
from artv.ktrans import Unsupported  # noqa: E402

REPO = Path(os.environ.get("VERIF_REPO", "/repo"))
F, S = htrans.FILE, htrans.SMART_FILE

# (label, file, old text (must occur exactly once), new text)
MUTATIONS = [
    ("labels_deep_: last column from the first layer (layers[-1] -> layers[0])", F,
     "+ [self.layers[-1].labels_a.reshape((-1, 1))]", "+ [self.layers[0].labels_a.reshape((-1, 1))]"),
    ("labels_deep_: columns are labels_a instead of labels_", F,
     "[layer.labels_.reshape((-1, 1)) for layer in self.layers]",
     "[layer.labels_a.reshape((-1, 1)) for layer in self.layers]"),
    ("labels_deep_: last column dropped", F,
     "            [layer.labels_.reshape((-1, 1)) for layer in self.layers]\n            + [self.layers[-1].labels_a.reshape((-1, 1))],\n",
     "            [layer.labels_.reshape((-1, 1)) for layer in self.layers],\n"),
    ("map_deep: changed comparison level < 0 -> level <= 0", F,
     "if level < 0:", "if level <= 0:"),
    ("map_deep: recursion hands on y_a instead of y_b", F,
     "return self.map_deep(level - 1, y_b)", "return self.map_deep(level - 1, y_a)"),
    ("map_deep: off by one level > 0 -> level > 1", F,
     "if level > 0:", "if level > 1:"),
    ("map_deep: recursion does not descend (level - 1 -> level)", F,
     "return self.map_deep(level - 1, y_b)", "return self.map_deep(level, y_b)"),
    ("map_deep: negative level shifted by n_modules instead of n_layers", F,
     "level += len(self.layers)", "level += len(self.modules)"),
    ("map_deep: negative level not shifted (statement dropped)", F,
     "        if level < 0:\n            level += len(self.layers)\n", ""),
    ("n_layers counts the modules", F,
     "return len(self.layers)", "return len(self.modules)"),
    ("validate_data: changed comparison len(X) == n_modules -> >=", F,
     "assert len(X) == self.n_modules, (", "assert len(X) >= self.n_modules, ("),
    ("validate_data: row count compared with len(X) instead of len(y)", F,
     "n = len(y)", "n = len(X)"),
    ("validate_data: row-count assertion dropped", F,
     "        assert all(\n            x.shape[0] == n for x in X\n        ), \"Inconsistent sample number in input matrices\"\n", ""),
    ("fit: layer i supervised by labels_ instead of labels_a of layer i-1", F,
     "y_i = self.layers[art_i - 1].labels_a\n", "y_i = self.layers[art_i - 1].labels_\n"),
    ("fit: layer i supervised by layer i instead of layer i-1", F,
     "y_i = self.layers[art_i - 1].labels_a\n", "y_i = self.layers[art_i].labels_a\n"),
    ("fit: data offset lost (X[art_i + x_off] -> X[art_i])", F,
     "X[art_i + x_off],", "X[art_i],"),
    ("fit: data offset swapped (0 if supervised else 1 -> 1 if supervised else 0)", F,
     "x_off = 0 if self.is_supervised else 1", "x_off = 1 if self.is_supervised else 0"),
    ("fit: loop starts at layer 2", F,
     "        x_off = 0 if self.is_supervised else 1\n        for art_i in range(1, self.n_layers):",
     "        x_off = 0 if self.is_supervised else 1\n        for art_i in range(2, self.n_layers):"),
    ("fit: supervised first layer trained on X[1]", F,
     "            self.layers[0] = self.layers[0].fit(\n                X[0],\n                y,",
     "            self.layers[0] = self.layers[0].fit(\n                X[1],\n                y,"),
    ("fit: result of the first layer's fit stored in layer 1", F,
     "            self.layers[0] = self.layers[0].fit(\n                X[0],\n                y,",
     "            self.layers[1] = self.layers[0].fit(\n                X[0],\n                y,"),
    ("fit: supervised flag not set to True", F,
     "        if y is not None:\n            self.is_supervised = True\n            self.layers = [SimpleARTMAP(self.modules[i]) for i in range(self.n_modules)]\n            self.layers[0] = self.layers[0].fit(",
     "        if y is not None:\n            self.is_supervised = False\n            self.layers = [SimpleARTMAP(self.modules[i]) for i in range(self.n_modules)]\n            self.layers[0] = self.layers[0].fit("),
    ("fit: unsupervised ARTMAP built with the modules swapped", F,
     "                list[BaseARTMAP], [ARTMAP(self.modules[1], self.modules[0])]\n            ) + cast(\n                list[BaseARTMAP],\n                [SimpleARTMAP(self.modules[i]) for i in range(2, self.n_modules)],\n            )\n            self.layers[0] = self.layers[0].fit(",
     "                list[BaseARTMAP], [ARTMAP(self.modules[0], self.modules[1])]\n            ) + cast(\n                list[BaseARTMAP],\n                [SimpleARTMAP(self.modules[i]) for i in range(2, self.n_modules)],\n            )\n            self.layers[0] = self.layers[0].fit("),
    ("fit: unsupervised first layer gets X[0], X[1] swapped", F,
     "            self.layers[0] = self.layers[0].fit(\n                X[1],\n                X[0],",
     "            self.layers[0] = self.layers[0].fit(\n                X[0],\n                X[1],"),
    ("fit: unsupervised SimpleARTMAP layers start at module 1", F,
     "                [SimpleARTMAP(self.modules[i]) for i in range(2, self.n_modules)],\n            )\n            self.layers[0] = self.layers[0].fit(",
     "                [SimpleARTMAP(self.modules[i]) for i in range(1, self.n_modules)],\n            )\n            self.layers[0] = self.layers[0].fit("),
    ("partial_fit: whole labels_a handed on (slice [-n_samples:] -> [n_samples:])", F,
     "labels_a[-n_samples:]", "labels_a[n_samples:]"),
    ("partial_fit: x_i not advanced (statement dropped)", F,
     "            x_i += 1\n", ""),
    ("partial_fit: supervised data index starts at 0", F,
     "            x_i = 1\n", "            x_i = 0\n"),
    ("partial_fit: unsupervised data index starts at 1", F,
     "            x_i = 2\n", "            x_i = 1\n"),
    ("partial_fit: n_samples is the number of matrices", F,
     "n_samples = X[0].shape[0]", "n_samples = len(X)"),
    ("partial_fit: supervised assertion negated", F,
     "            assert self.is_supervised, (", "            assert not self.is_supervised, ("),
    ("partial_fit: fresh layers built when one layer exists (== 0 -> == 1)", F,
     "        if y is not None:\n            if len(self.layers) == 0:", "        if y is not None:\n            if len(self.layers) == 1:"),
    ("partial_fit: first layer continues with fit instead of partial_fit", F,
     "            self.layers[0] = self.layers[0].partial_fit(\n                X[0], y, match_tracking=match_tracking, epsilon=epsilon\n            )",
     "            self.layers[0] = self.layers[0].fit(\n                X[0], y, max_iter=1, match_tracking=match_tracking, epsilon=epsilon\n            )"),
    ("partial_fit: loop reads the labels of the layer itself", F,
     "y_i = self.layers[art_i - 1].labels_a[-n_samples:]", "y_i = self.layers[art_i].labels_a[-n_samples:]"),
    ("predict: a list of matrices uses the first one (X[-1] -> X[0])", F,
     "x = X[-1]", "x = X[0]"),
    ("predict: layers visited top-down (reversal dropped)", F,
     "for layer in self.layers[:-1][::-1]:", "for layer in self.layers[:-1]:"),
    ("predict: all layers mapped, including the last", F,
     "for layer in self.layers[:-1][::-1]:", "for layer in self.layers[::-1]:"),
    ("predict: result not reversed", F,
     "return pred[::-1]", "return pred"),
    ("predict: pred_a / pred_b swapped", F,
     "pred = [pred_a, pred_b]", "pred = [pred_b, pred_a]"),
    ("predict: maps the first vector instead of the last (pred[-1] -> pred[0])", F,
     "pred.append(layer.map_a2b(pred[-1]))", "pred.append(layer.map_a2b(pred[0]))"),
    ("predict: predicts with the first layer", F,
     "pred_a, pred_b = self.layers[-1].predict_ab(x)", "pred_a, pred_b = self.layers[0].predict_ab(x)"),
    ("SMART.fit: X replicated n_layers times", S,
     "        X_list = [X] * self.n_modules\n        return super().fit(",
     "        X_list = [X] * self.n_layers\n        return super().fit("),
    ("SMART.fit: hands y on to DeepARTMAP.fit", S,
     "        return super().fit(\n            X_list,\n", "        return super().fit(\n            X_list,\n            y,\n"),
    ("SMART.partial_fit: calls the base fit", S,
     "        return super(SMART, self).partial_fit(\n            X_list, match_tracking=match_tracking, epsilon=epsilon\n        )",
     "        return super(SMART, self).fit(\n            X_list, max_iter=1, match_tracking=match_tracking, epsilon=epsilon\n        )"),
    ("SMART.partial_fit: one matrix too few", S,
     "        X_list = [X] * self.n_modules\n        return super(SMART, self).partial_fit(",
     "        X_list = [X] * (self.n_modules - 1)\n        return super(SMART, self).partial_fit("),
    ("SMART overrides n_layers (changes what the inherited methods mean)", S,
     "    def prepare_data(\n", "    @property\n    def n_layers(self) -> int:\n        return 1\n\n    def prepare_data(\n"),
]


def lean_env():
    def last(cmd):
        out = subprocess.run(cmd, cwd=LEAN, capture_output=True, text=True, check=True).stdout
        return [ln for ln in out.splitlines() if ln.strip()][-1].strip()
    return last(["lake", "env", "printenv", "LEAN_PATH"]), last(["lake", "env", "which", "lean"])


def scratch_repo(root: Path, file: str | None, old: str, new: str) -> Path:
    repo = root / "repo"
    if repo.exists():
        shutil.rmtree(repo)
    for f in (F, S):
        (repo / f).parent.mkdir(parents=True, exist_ok=True)
        text = (REPO / f).read_text()
        if f == file:
            if text.count(old) != 1:
                raise SystemExit(f"mutation pattern occurs {text.count(old)} times in {f}: {old!r}")
            text = text.replace(old, new)
        (repo / f).write_text(text)
    return repo


def check(root: Path, repo: Path, lean_path: str, lean_bin: str) -> tuple[str, str]:
    """-> (verdict, detail); verdict in {"pass", "failed closed", "proof build broke", "generated file does not compile"}"""
    try:
        text = htrans.generate(repo)
    except (Unsupported, SyntaxError, KeyError, AttributeError, TypeError, IndexError) as e:
        return "failed closed", f"{type(e).__name__}: {e}"[:160]
    gen = root / "gen"
    if gen.exists():
        shutil.rmtree(gen)
    (gen / "ArtGen").mkdir(parents=True)
    (gen / "ArtGen" / "Deep.lean").write_text(text)
    env = dict(os.environ, LEAN_PATH=lean_path)
    r = subprocess.run([lean_bin, "-o", "ArtGen/Deep.olean", "ArtGen/Deep.lean"], cwd=gen, env=env,
                       capture_output=True, text=True)
    if r.returncode != 0:
        return "generated file does not compile", (r.stdout + r.stderr).strip().splitlines()[0][:160]
    env = dict(os.environ, LEAN_PATH=f"{gen}:{lean_path}")
    r = subprocess.run([lean_bin, "ArtGenProofs/DeepSpec.lean"], cwd=LEAN, env=env, capture_output=True, text=True)
    errs = [ln for ln in (r.stdout + r.stderr).splitlines() if ": error" in ln]
    if r.returncode != 0 or errs:
        return "proof build broke", (errs[0] if errs else f"exit code {r.returncode}")[:160]
    return "pass", ""


def one(args):
    i, (label, file, old, new), lean_path, lean_bin, base = args
    root = base / f"m{i}"
    root.mkdir()
    return label, check(root, scratch_repo(root, file, old, new), lean_path, lean_bin)


def main() -> int:
    subprocess.run(["lake", "build", "ArtModel.ImpDeep", "ArtProps.C12"], cwd=LEAN, check=True,
                   stdout=subprocess.DEVNULL, stderr=subprocess.DEVNULL)
    lean_path, lean_bin = lean_env()
    base = Path(tempfile.mkdtemp(prefix="selftest_htrans_"))
    ok = True
    try:
        root = base / "plain"
        root.mkdir()
        verdict, detail = check(root, scratch_repo(root, None, "", ""), lean_path, lean_bin)
        print(f"[{'ok' if verdict == 'pass' else 'FAIL'}] unmutated source: {verdict} {detail}")
        ok &= verdict == "pass"
        committed = (LEAN / "ArtGen" / "Deep.lean").read_text()
        same = committed == htrans.generate(REPO)
        print(f"[{'ok' if same else 'FAIL'}] lean/ArtGen/Deep.lean is byte-identical to generate({REPO})")
        ok &= same
        jobs = [(i, m, lean_path, lean_bin, base) for i, m in enumerate(MUTATIONS)]
        with ThreadPoolExecutor(max_workers=int(os.environ.get("SELFTEST_JOBS", "4"))) as pool:
            for label, (verdict, detail) in pool.map(one, jobs):
                detected = verdict in ("failed closed", "proof build broke", "generated file does not compile")
                print(f"[{'ok' if detected else 'UNDETECTED'}] {label}: {verdict}" + (f"  ({detail})" if detail else ""))
                ok &= detected
    finally:
        shutil.rmtree(base, ignore_errors=True)
    print("selftest_htrans:", "all mutations detected, unmutated source passes" if ok else "FAILED")
    return 0 if ok else 1


if __name__ == "__main__":
    sys.exit(main())
