#!/venv/bin/python
"""Self-test of the VAT translator tie (harness/artv/vtrans.py, lean/ArtGenProofs/VATSpec.lean).

Copies `artlib/common/VAT.py` to a scratch repo under /tmp, applies one-line *semantic* mutations of the function
`VAT`, runs `vtrans.generate` on the scratch copy and — when the translator does not fail closed — compiles the
generated text to a scratch `.olean` that shadows `ArtGen.VAT` on LEAN_PATH and elaborates the committed
`ArtGenProofs/VATSpec.lean` against it.  Nothing under /verif/lean is written.  Every mutation must be detected
(translator fails closed, or the generated file / the proofs no longer compile); the unmutated source must pass and
must regenerate the committed `lean/ArtGen/VAT.lean` byte for byte.  Exit status 0 iff all of that holds.
"""
from __future__ import annotations

import ast
import os
import shutil
import subprocess
import sys
from pathlib import Path

VERIF = Path(__file__).resolve().parents[1]
sys.path.insert(0, str(VERIF / "harness"))
from artv import vtrans                     # noqa: E402
from artv.ktrans import Unsupported        # noqa: E402

REPO = Path(os.environ.get("VERIF_REPO", "/repo"))
LEAN_DIR = VERIF / "lean"

# (name, kind, old line fragment, new line fragment) — each `old` occurs exactly once in VAT.py
MUTATIONS = [
    ("loop argmin -> argmax", "changed comparison",
     "_, jx = np.unravel_index(sub_matrix.argmin(), sub_matrix.shape)",
     "_, jx = np.unravel_index(sub_matrix.argmax(), sub_matrix.shape)"),
    ("seed argmax -> argmin", "changed comparison",
     "ix, jx = np.unravel_index(pairwise_dist.argmax(), pairwise_dist.shape)",
     "ix, jx = np.unravel_index(pairwise_dist.argmin(), pairwise_dist.shape)"),
    ("keep the row instead of the column of the minimum", "swapped targets",
     "_, jx = np.unravel_index(sub_matrix.argmin(), sub_matrix.shape)",
     "jx, _ = np.unravel_index(sub_matrix.argmin(), sub_matrix.shape)"),
    ("seed = column instead of row of the maximum", "swapped targets",
     "ix, jx = np.unravel_index(pairwise_dist.argmax(), pairwise_dist.shape)",
     "jx, ix = np.unravel_index(pairwise_dist.argmax(), pairwise_dist.shape)"),
    ("np.ix_ operands swapped in the loop", "swapped operands",
     "sub_matrix = pairwise_dist[np.ix_(indicies, remaining)]",
     "sub_matrix = pairwise_dist[np.ix_(remaining, indicies)]"),
    ("pop one position too far", "off-by-one",
     "        remaining.pop(jx)",
     "        remaining.pop(jx + 1)"),
    ("append the position, not the sample", "dropped indexing",
     "indicies.append(remaining[jx])",
     "indicies.append(jx)"),
    ("seed not removed from remaining", "dropped statement",
     "    remaining.pop(ix)\n",
     "\n"),
    ("returned matrix indexed by the (empty) remaining list", "wrong operand",
     "return pairwise_dist[np.ix_(indicies, indicies)], np.array(indicies)",
     "return pairwise_dist[np.ix_(indicies, remaining)], np.array(indicies)"),
    ("one sample too many in remaining", "off-by-one",
     "remaining = list(range(num_samples))",
     "remaining = list(range(num_samples + 1))"),
    ("argmin along an axis", "unsupported syntax (must fail closed)",
     "_, jx = np.unravel_index(sub_matrix.argmin(), sub_matrix.shape)",
     "_, jx = np.unravel_index(sub_matrix.argmin(axis=1)[0], sub_matrix.shape)"),
    ("nan-aware argmax", "unsupported primitive (must fail closed)",
     "ix, jx = np.unravel_index(pairwise_dist.argmax(), pairwise_dist.shape)",
     "ix, jx = np.unravel_index(np.nanargmax(pairwise_dist), pairwise_dist.shape)"),
]
# the re-ordering of two effects needs two lines: handled separately
REORDER = ("pop before append in the loop", "reordered effect",
           "        indicies.append(remaining[jx])\n        remaining.pop(jx)\n",
           "        remaining.pop(jx)\n        indicies.append(remaining[jx])\n")


def lean_env() -> dict:
    p = subprocess.run(["lake", "env", "printenv", "LEAN_PATH"], cwd=LEAN_DIR, capture_output=True, text=True)
    lines = [ln for ln in p.stdout.splitlines() if ln.startswith("/")]
    if p.returncode != 0 or not lines:
        raise RuntimeError("cannot read LEAN_PATH from lake: " + p.stderr[-300:])
    env = dict(os.environ)
    env["LEAN_PATH"] = lines[-1]
    return env


def first_error(text: str) -> str:
    for ln in text.splitlines():
        if "error" in ln:
            return ln.strip()[:160]
    return text.strip().splitlines()[0][:160] if text.strip() else "?"


def check(scratch: Path, repo: Path, env: dict) -> tuple[str, str]:
    """-> (verdict, detail); verdict in {"pass", "failed-closed", "gen-does-not-compile", "proof-broke"}"""
    try:
        text = vtrans.generate(repo)
    except (Unsupported, SyntaxError, KeyError, AttributeError, TypeError, IndexError) as e:
        return "failed-closed", f"{type(e).__name__}: {e}"
    src, build = scratch / "src", scratch / "build"
    (src / "ArtGen").mkdir(parents=True, exist_ok=True)
    (build / "ArtGen").mkdir(parents=True, exist_ok=True)
    (src / "ArtGen" / "VAT.lean").write_text(text)
    olean = build / "ArtGen" / "VAT.olean"
    if olean.exists():
        olean.unlink()
    p = subprocess.run(["lean", "-o", str(olean), "ArtGen/VAT.lean"], cwd=src, env=env, capture_output=True, text=True)
    if p.returncode != 0 or not olean.exists():
        return "gen-does-not-compile", first_error(p.stdout + p.stderr)
    env2 = dict(env)
    env2["LEAN_PATH"] = f"{build}:{env['LEAN_PATH']}"
    p = subprocess.run(["lean", "ArtGenProofs/VATSpec.lean"], cwd=LEAN_DIR, env=env2, capture_output=True, text=True)
    if p.returncode != 0:
        n = sum(1 for ln in (p.stdout + p.stderr).splitlines() if ": error" in ln)
        return "proof-broke", f"{n} error(s); first: {first_error(p.stdout + p.stderr)}"
    return "pass", text


def main() -> int:
    scratch = Path(f"/tmp/vtrans_selftest_{os.getpid()}")
    ok = True
    try:
        repo = scratch / "repo"
        (repo / "artlib" / "common").mkdir(parents=True)
        original = (REPO / vtrans.FILE).read_text()
        env = lean_env()
        # the oleans the spec imports must exist and be current
        b = subprocess.run(["lake", "build", "ArtGen.VAT", "ArtGenProofs.VATSpec"], cwd=LEAN_DIR, capture_output=True, text=True)
        if b.returncode != 0:
            print("FAIL  lake build ArtGen.VAT ArtGenProofs.VATSpec:", first_error(b.stdout + b.stderr))
            return 1

        (repo / vtrans.FILE).write_text(original)
        verdict, detail = check(scratch, repo, env)
        committed = (LEAN_DIR / "ArtGen" / "VAT.lean").read_text()
        if verdict == "pass" and detail == committed:
            print("ok    unmutated source: translated, generated file = committed lean/ArtGen/VAT.lean, all proofs check")
        else:
            ok = False
            print(f"FAIL  unmutated source: {verdict}" + ("" if verdict != "pass" else " but the generated text differs from lean/ArtGen/VAT.lean")
                  + (f": {detail}" if verdict != "pass" else ""))

        for name, kind, old, new in MUTATIONS + [REORDER]:
            if original.count(old) != 1:
                ok = False
                print(f"FAIL  mutation '{name}': the line to mutate occurs {original.count(old)} times in {vtrans.FILE}")
                continue
            mutated = original.replace(old, new)
            ast.parse(mutated)
            (repo / vtrans.FILE).write_text(mutated)
            verdict, detail = check(scratch, repo, env)
            if verdict == "pass":
                ok = False
                print(f"FAIL  [{kind}] {name}: NOT detected (translated, and every proof still checks)")
            else:
                print(f"ok    [{kind}] {name}: {verdict} — {detail}")
    finally:
        shutil.rmtree(scratch, ignore_errors=True)
    print("selftest_vtrans:", "all mutations detected, unmutated source passes" if ok else "FAILED")
    return 0 if ok else 1


if __name__ == "__main__":
    sys.exit(main())
