#!/venv/bin/python
"""Self-test of the validity-index-gate translator tie (harness/artv/gtrans.py + lean/ArtGenProofs/GateSpec.lean).

Copies the source files the translator reads to a scratch directory under /tmp, applies one-line *semantic* mutations to
the translated functions of `artlib/cvi/iCVIFuzzyArt.py` and `artlib/cvi/CVIART.py`, regenerates `lean/ArtGen/Gate.lean`
from each mutant, rebuilds the proof module and reports whether the translator failed closed or a proof obligation
broke.  Every mutation must be detected; the unmutated source must pass (it is built last, so the tree is left in its
built, unmutated state).  The generated file is ALWAYS restored.

usage:  /venv/bin/python tools/selftest_gtrans.py [--only N[,M…]]      (about 3 minutes: one proof build per mutant)
"""
from __future__ import annotations

import os
import shutil
import subprocess
import sys
import time
from pathlib import Path

VERIF = Path(__file__).resolve().parents[1]
sys.path.insert(0, str(VERIF / "harness"))

from artv import gtrans  # noqa: E402
from artv.ktrans import Unsupported  # noqa: E402

REPO = Path(os.environ.get("VERIF_REPO", "/repo"))
SCRATCH = Path("/tmp/gtrans_selftest")
GEN = VERIF / "lean" / "ArtGen" / "Gate.lean"
ICVI = "artlib/cvi/iCVIFuzzyArt.py"
CVI = "artlib/cvi/CVIART.py"
FILES = [ICVI, CVI, gtrans.BASE_FILE, gtrans.FUZZY_FILE]

# (file, kind, description, old text, new text, which occurrence (0-based) of `old` is replaced)
MUTATIONS = [
    (ICVI, "swapped operands", "iCVI_match: `new > tracked` -> `tracked > new` (a sample joins when the index gets worse)",
     'return new["criterion_value"] > self.iCVI.criterion_value', 'return self.iCVI.criterion_value > new["criterion_value"]', 0),
    (ICVI, "swapped arguments", "iCVI_match: switch_label(x, old, new) -> switch_label(x, new, old)",
     "self.iCVI.switch_label(x, self.labels_[self.index], c_)", "self.iCVI.switch_label(x, c_, self.labels_[self.index])", 0),
    (ICVI, "dropped statement", "fit: the candidate is not committed (`self.iCVI.update(params)` of the sample loop removed)",
     "            self.iCVI.update(params)\n\n            self.labels_[i] = c\n", "\n            self.labels_[i] = c\n", 0),
    (ICVI, "reordered effect", "fit: `self.labels_[i] = c` moved before the candidate is computed (switch_label then sees the new label)",
     "            if self.offline:\n                params = self.iCVI.switch_label(x, self.labels_[i], c)",
     "            self.labels_[i] = c\n            if self.offline:\n                params = self.iCVI.switch_label(x, self.labels_[i], c)", 0),
    (ICVI, "off-by-one", "fit: the object is constructed from X[1] instead of X[0]",
     "self.iCVI = iCVI_CH(X[0])", "self.iCVI = iCVI_CH(X[1])", 0),
    (ICVI, "changed constant", "fit: the offline pre-labelling pass adds every sample with label 1 instead of 0",
     "params = self.iCVI.add_sample(x, 0)", "params = self.iCVI.add_sample(x, 1)", 0),
    (ICVI, "dropped operand", "fit: the composed reset function ignores the user's function",
     "match_reset_func(x, w, c_, params, cache)\n                    & self.iCVI_match",
     "self.iCVI_match(x, w, c_, params, cache)\n                    & self.iCVI_match", 0),
    (ICVI, "swapped branches", "fit: offline / online commits exchanged (`if self.offline:` -> `if match_reset_func is None:` in the commit)",
     "            if self.offline:\n                params = self.iCVI.switch_label(x, self.labels_[i], c)",
     "            if match_reset_func is None:\n                params = self.iCVI.switch_label(x, self.labels_[i], c)", 0),
    (ICVI, "changed comparison", "iCVI_match: `>` -> `>=` (not in the translated sub-language)",
     'return new["criterion_value"] > self.iCVI.criterion_value', 'return new["criterion_value"] >= self.iCVI.criterion_value', 0),
    (CVI, "off-by-one", "CVI_match: `len(self.W) < 2` -> `< 1`",
     "if len(self.W) < 2:", "if len(self.W) < 1:", 0),
    (CVI, "changed comparison", "CVI_match: larger-is-better branch `new_VI > old_VI` -> `new_VI < old_VI`",
     "return new_VI > old_VI", "return new_VI < old_VI", 0),
    (CVI, "dropped statement", "CVI_match: the candidate labelling is not built (`new_labels[extra[\"index\"]] = c_` removed)",
     '        new_labels[extra["index"]] = c_\n', "", 0),
    (CVI, "wrong constant", "CVI_match: the smaller-is-better test names SILHOUETTE instead of DAVIESBOULDIN",
     'if extra["validity"] != self.DAVIESBOULDIN:', 'if extra["validity"] != self.SILHOUETTE:', 0),
    (CVI, "changed constant", "class constant DAVIESBOULDIN = 2 -> 4",
     "    DAVIESBOULDIN = 2\n", "    DAVIESBOULDIN = 4\n", 0),
    (CVI, "wrong value", "fit: `self.labels_[index] = c` -> `= index`",
     "self.labels_[index] = c", "self.labels_[index] = index", 0),
    (CVI, "wrong attribute", "the W property returns the sample counters (type error in the translation)",
     "        return self.base_module.W\n", "        return self.base_module.weight_sample_counter_\n", 0),
    (CVI, "changed operator", "fit: `match_reset_func(…) and self.CVI_match(…)` -> `or` (not in the translated sub-language)",
     "match_reset_func(i, w, cluster_a, params, cache)\n                        and self.CVI_match(",
     "match_reset_func(i, w, cluster_a, params, cache)\n                        or self.CVI_match(", 0),
    (CVI, "wrong index", "fit: the gate is asked about sample 0 instead of the current one (`\"index\": index` -> `\"index\": 0`, first lambda)",
     '"index": index,', '"index": 0,', 0),
]


def build() -> tuple[bool, str]:
    r = subprocess.run(["lake", "build", "ArtGen.Gate", "ArtGenProofs.GateSpec"], cwd=VERIF / "lean",
                       capture_output=True, text=True)
    out = r.stdout + r.stderr
    first = next((ln.strip() for ln in out.splitlines() if "error" in ln), "")
    return r.returncode == 0, first[:160]


def mutate(text: str, old: str, new: str, occ: int) -> str:
    idx = -1
    for _ in range(occ + 1):
        idx = text.find(old, idx + 1)
        if idx < 0:
            raise SystemExit(f"selftest: mutation site not found: {old!r}")
    return text[:idx] + new + text[idx + len(old):]


def main() -> int:
    only = None
    if len(sys.argv) > 2 and sys.argv[1] == "--only":
        only = {int(x) for x in sys.argv[2].split(",")}
    original_gen = GEN.read_text()
    if gtrans.generate(REPO) != original_gen:
        print("selftest: lean/ArtGen/Gate.lean is not what the translator generates from the current source")
        return 1
    ok_all = True
    try:
        for n, (file, kind, what, old, new, occ) in enumerate(MUTATIONS):
            if only is not None and n not in only:
                continue
            shutil.rmtree(SCRATCH, ignore_errors=True)
            for f in FILES:
                dst = SCRATCH / f
                dst.parent.mkdir(parents=True, exist_ok=True)
                text = (REPO / f).read_text()
                dst.write_text(mutate(text, old, new, occ) if f == file else text)
            t0 = time.time()
            try:
                text = gtrans.generate(SCRATCH)
            except (Unsupported, SyntaxError, KeyError, AttributeError, TypeError, IndexError) as e:
                print(f"[{n}] {kind}: {what}\n      DETECTED — translator failed closed: {type(e).__name__}: {e}")
                continue
            if text == original_gen:
                print(f"[{n}] {kind}: {what}\n      NOT DETECTED — the generated file did not change")
                ok_all = False
                continue
            GEN.write_text(text)
            ok, err = build()
            dt = time.time() - t0
            if ok:
                print(f"[{n}] {kind}: {what}\n      NOT DETECTED — the proofs still build ({dt:.0f}s)")
                ok_all = False
            else:
                print(f"[{n}] {kind}: {what}\n      DETECTED — proof build broke ({dt:.0f}s): {err}")
        # the unmutated source, last: leaves the project built from the real generated file
        GEN.write_text(original_gen)
        t0 = time.time()
        ok, err = build()
        print(f"[unmutated] {'PASS' if ok else 'FAIL: ' + err} ({time.time() - t0:.0f}s)")
        ok_all = ok_all and ok
    finally:
        if GEN.read_text() != original_gen:
            GEN.write_text(original_gen)
        shutil.rmtree(SCRATCH, ignore_errors=True)
    print("selftest_gtrans:", "OK — every mutation detected, unmutated source passes" if ok_all else "FAILED")
    return 0 if ok_all else 1


if __name__ == "__main__":
    sys.exit(main())
