#!/venv/bin/python
"""Self-test of the TopoART translator tie (harness/artv/ttrans.py + lean/ArtGenProofs/TopoSpec.lean).

Copies artlib/topological/TopoART.py and artlib/common/BaseART.py to a scratch directory under /tmp, applies one
*semantic* one-line mutation at a time to a translated function, regenerates the Lean definitions from the mutated
copy and compiles the spec file against them.  Nothing under /verif/lean is written: the mutated generated file is
compiled to a scratch .olean which shadows `ArtGen.Topo` through LEAN_PATH.  Every mutation must be detected (either
the translator fails closed or the proofs no longer compile); the unmutated source must pass.
"""
from __future__ import annotations

import os
import shutil
import subprocess
import sys
from pathlib import Path

VERIF = Path(__file__).resolve().parents[1]
sys.path.insert(0, str(VERIF / "harness"))
from artv import ttrans                     # noqa: E402
from artv.ktrans import Unsupported        # noqa: E402

REPO = Path(os.environ.get("VERIF_REPO", "/repo"))
LEAN_DIR = VERIF / "lean"
TOPO, BASE = ttrans.TOPO, ttrans.BASE

# (name, file, old text, new text, which occurrence (0-based) of the old text)
MUTATIONS = [
    ("prune: threshold `>= phi` -> `> phi` (changed comparison)", TOPO,
     ">= self.phi\n        )\n        perm_labels", "> self.phi\n        )\n        perm_labels", 0),
    ("prune: column selection of the adjacency sub-matrix dropped", TOPO,
     "self.adjacency[perm_labels][:, perm_labels]", "self.adjacency[perm_labels]", 0),
    ("prune: orphan re-prediction guard `len(W) > 0` -> `len(W) > 1` (off by one)", TOPO,
     "elif len(self.W) > 0:", "elif len(self.W) > 1:", 0),
    ("prune: perm_labels computed before the mask is updated (reordered effect)", TOPO,
     "        perm_labels = np.where(self._permanent_mask)[0]\n", "", 0),
    ("prune: label_map maps a surviving label to itself instead of its new index", TOPO,
     "label: np.where(perm_labels == label)[0][0]", "label: label", 0),
    ("prune: orphans of an emptied model get 0 instead of -1", TOPO,
     "self.labels_[i] = -1", "self.labels_[i] = 0", 0),
    ("post_step_fit: trigger `% tau == 0` -> `% tau == 1`", TOPO,
     "self.sample_counter_ % self.tau == 0", "self.sample_counter_ % self.tau == 1", 0),
    ("add_weight: the mask is padded in front instead of at the end (swapped operands)", TOPO,
     'np.pad(self._permanent_mask, (0, 1), "constant")', 'np.pad(self._permanent_mask, (1, 0), "constant")', 0),
    ("add_weight: the counter of the new category is not appended (dropped statement)", TOPO,
     "        self.weight_sample_counter_.append(1)\n        self.W.append(new_w)\n", "        self.W.append(new_w)\n", 0),
    ("update: edge (resonant_c, current_c) -> (current_c, resonant_c) (swapped operands)", TOPO,
     'self.adjacency[cache["resonant_c"], cache["current_c"]] += 1', 'self.adjacency[cache["current_c"], cache["resonant_c"]] += 1', 0),
    ("step_pred: an empty model predicts 0 instead of -1", TOPO,
     "            return -1\n", "            return 0\n", 0),
    ("BaseART.set_weight: counter incremented by 2", BASE,
     "self.weight_sample_counter_[idx] += 1", "self.weight_sample_counter_[idx] += 2", 0),
    ("TopoART overrides W with something that is not the alias of base_module.W", TOPO,
     "        return self.base_module.W\n", "        return list(self.base_module.W)\n", 0),
]
# the reordered-effect mutation needs the removed line re-inserted earlier
REINSERT = {"prune: perm_labels computed before the mask is updated (reordered effect)":
            ("        self._permanent_mask += (\n", "        perm_labels = np.where(self._permanent_mask)[0]\n        self._permanent_mask += (\n")}


def nth_replace(text: str, old: str, new: str, k: int) -> str:
    pos = -1
    for _ in range(k + 1):
        pos = text.find(old, pos + 1)
        if pos < 0:
            raise SystemExit(f"selftest: mutation site not found: {old!r}")
    return text[:pos] + new + text[pos + len(old):]


def lean_env():
    lp = subprocess.run(["lake", "env", "printenv", "LEAN_PATH"], cwd=LEAN_DIR, capture_output=True, text=True).stdout.strip().split("\n")[-1]
    lean = subprocess.run(["lake", "env", "which", "lean"], cwd=LEAN_DIR, capture_output=True, text=True).stdout.strip().split("\n")[-1]
    return lean, lp


def check(scratch: Path, lean: str, lean_path: str) -> tuple[str, str]:
    """-> (verdict, detail): 'pass' | 'translator failed closed' | 'proof build broke'"""
    try:
        text = ttrans.generate(scratch / "repo")
    except (Unsupported, SyntaxError, KeyError, AttributeError, TypeError, IndexError) as e:
        return "translator failed closed", f"{type(e).__name__}: {e}"
    gen = scratch / "ArtGen" / "Topo.lean"
    gen.parent.mkdir(parents=True, exist_ok=True)
    gen.write_text(text)
    out = scratch / "build" / "ArtGen"
    out.mkdir(parents=True, exist_ok=True)
    env = dict(os.environ, LEAN_PATH=lean_path)
    p = subprocess.run([lean, "-o", str(out / "Topo.olean"), "ArtGen/Topo.lean"], cwd=scratch, env=env, capture_output=True, text=True)
    if p.returncode != 0:
        return "proof build broke", "the generated file does not compile: " + (p.stdout + p.stderr).strip().split("\n")[0][:160]
    env = dict(os.environ, LEAN_PATH=f"{scratch / 'build'}:{lean_path}")
    q = subprocess.run([lean, str(LEAN_DIR / "ArtGenProofs" / "TopoSpec.lean")], cwd=LEAN_DIR, env=env, capture_output=True, text=True)
    errs = [l for l in (q.stdout + q.stderr).split("\n") if "error" in l]
    if q.returncode != 0 or errs:
        return "proof build broke", (errs[0] if errs else "lean exited non-zero")[:160]
    return "pass", ""


def main() -> int:
    scratch = Path(f"/tmp/selftest_ttrans_{os.getpid()}")
    ok = True
    try:
        subprocess.run(["lake", "build", "ArtGenProofs.TopoSpec"], cwd=LEAN_DIR, capture_output=True, text=True)
        lean, lean_path = lean_env()
        originals = {f: (REPO / f).read_text() for f in (TOPO, BASE)}

        def stage(texts):
            for f, t in texts.items():
                dst = scratch / "repo" / f
                dst.parent.mkdir(parents=True, exist_ok=True)
                dst.write_text(t)
        stage(originals)
        verdict, detail = check(scratch, lean, lean_path)
        print(f"[{'ok' if verdict == 'pass' else 'FAIL'}] unmutated source: {verdict} {detail}")
        ok &= verdict == "pass"
        committed = (LEAN_DIR / "ArtGen" / "Topo.lean").read_text()
        same = committed == (scratch / "ArtGen" / "Topo.lean").read_text() if verdict == "pass" else False
        print(f"[{'ok' if same else 'FAIL'}] lean/ArtGen/Topo.lean is byte-identical to what generate() produces")
        ok &= same
        for name, f, old, new, k in MUTATIONS:
            texts = dict(originals)
            texts[f] = nth_replace(texts[f], old, new, k)
            if name in REINSERT:
                texts[f] = nth_replace(texts[f], REINSERT[name][0], REINSERT[name][1], 0)
            assert texts[f] != originals[f]
            stage(texts)
            verdict, detail = check(scratch, lean, lean_path)
            detected = verdict != "pass"
            print(f"[{'ok' if detected else 'MISSED'}] {name}: {verdict}" + (f" ({detail})" if detail else ""))
            ok &= detected
    finally:
        shutil.rmtree(scratch, ignore_errors=True)
    print("selftest_ttrans: " + ("all mutations detected, unmutated source passes" if ok else "FAILED"))
    return 0 if ok else 1


if __name__ == "__main__":
    sys.exit(main())
