#!/venv/bin/python
"""Self-test of the DualVigilanceART translator tie (harness/artv/dtrans.py + lean/ArtGenProofs/DualSpec.lean).

Copies `artlib/topological/DualVigilanceART.py` and `artlib/common/BaseART.py` to a scratch repo under /tmp, applies
semantic one-statement mutations to the translated functions, and for each
  1. runs `dtrans.generate` on the scratch repo              -> `Unsupported` = the translator FAILED CLOSED (detected);
  2. otherwise compiles the generated text as module `ArtGen.Dual` into a scratch search-path root under /tmp (the
     project's `lean/ArtGen/Dual.lean` and `.lake` are never touched) and elaborates `ArtGenProofs/DualSpec.lean`
     against it                                              -> an error = the PROOF BROKE (detected).
The unmutated source must pass both steps and regenerate `lean/ArtGen/Dual.lean` byte for byte.
Exit code 0 iff every mutation is detected and the unmutated source passes.
"""
from __future__ import annotations

import os
import shutil
import subprocess
import sys
import tempfile
from pathlib import Path

VERIF = Path(__file__).resolve().parents[1]
sys.path.insert(0, str(VERIF / "harness"))
from artv import dtrans                     # noqa: E402
from artv.ktrans import Unsupported         # noqa: E402

REPO = Path(os.environ.get("VERIF_REPO", "/repo"))
LEAN = VERIF / "lean"
SPEC = LEAN / "ArtGenProofs" / "DualSpec.lean"

# (name, kind, old text, new text) — `old` must occur exactly once in DualVigilanceART.py
MUTATIONS = [
    ("loop guard `T > 0` -> `T > 1`", "changed comparison",
     "while any(T > 0):", "while any(T > 1):"),
    ("upper-vigilance branch inverted", "changed condition",
     "                if no_match_reset:\n                    if m1:",
     "                if no_match_reset:\n                    if not m1:"),
    ("fresh cluster label `max + 1` -> `max`", "off-by-one",
     "self.map[c_new] = max(self.map.values()) + 1", "self.map[c_new] = max(self.map.values())"),
    ("params not restored after a fresh category", "dropped statement",
     "            self.map[c_new] = max(self.map.values()) + 1\n            self._set_params(base_params)\n",
     "            self.map[c_new] = max(self.map.values()) + 1\n"),
    ("spawn: `c_new` read after `add_weight`", "reordered effect",
     "                            c_new = len(self.base_module.W)\n"
     "                            w_new = self.base_module.new_weight(\n"
     "                                x, self.base_module.params\n"
     "                            )\n"
     "                            self.base_module.add_weight(w_new)\n",
     "                            w_new = self.base_module.new_weight(\n"
     "                                x, self.base_module.params\n"
     "                            )\n"
     "                            self.base_module.add_weight(w_new)\n"
     "                            c_new = len(self.base_module.W)\n"),
    ("match tracking after ANY vetoed category (F27 re-introduced)", "changed condition",
     "                elif m1:\n", "                else:\n"),
    ("lower test run against the upper threshold", "swapped operand",
     "x, w, params=lb_params, cache=cache, op=mt_operator", "x, w, params=self.base_module.params, cache=cache, op=mt_operator"),
    ("spawned category mapped from the wrong key", "swapped operands",
     "self.map[c_new] = self.map[c_]\n", "self.map[c_] = self.map[c_new]\n"),
    ("absorb returns the category index instead of its cluster label", "changed return value",
     "                        self._set_params(base_params)\n                        return self.map[c_]",
     "                        self._set_params(base_params)\n                        return c_"),
    ("visited category not struck from T", "dropped statement",
     "                T[c_] = np.nan\n", "                pass\n"),
    ("reset function asked about the category index, not the cluster label", "swapped operand",
     "                    self.map[c_],\n", "                    c_,\n"),
    ("step_pred: argmax -> nanargmax", "changed primitive",
     "c_ = int(np.argmax(T))", "c_ = int(np.nanargmax(T))"),
    ("n_clusters counts entries instead of distinct labels", "dropped operation",
     "return len(set(c for c in self.map.values()))", "return len([c for c in self.map.values()])"),
    ("first sample: map = {0: 1}", "changed constant",
     "self.map = {0: 0}", "self.map = {0: 1}"),
    ("MT1 abandon inverted (`if keep_searching`)", "changed condition",
     "if not keep_searching:", "if keep_searching:"),
    ("sample counter advanced by 2", "off-by-one",
     "self.sample_counter_ += 1", "self.sample_counter_ += 2"),
]


def lean_env() -> dict:
    out = subprocess.run(["lake", "env", "printenv", "LEAN_PATH"], cwd=LEAN, capture_output=True, text=True)
    path = [l for l in out.stdout.splitlines() if l and not l.startswith("WARNING")][-1]
    lean = subprocess.run(["lake", "env", "which", "lean"], cwd=LEAN, capture_output=True, text=True)
    exe = [l for l in lean.stdout.splitlines() if l and not l.startswith("WARNING")][-1]
    return {"LEAN_PATH": path, "LEAN": exe}


def check_proofs(text: str, work: Path, env: dict) -> tuple[bool, str]:
    """compile `text` as ArtGen.Dual under work/out, then elaborate the spec file against it"""
    src = work / "src" / "ArtGen"
    out = work / "out"
    shutil.rmtree(src.parent, ignore_errors=True)
    shutil.rmtree(out, ignore_errors=True)
    src.mkdir(parents=True)
    (out / "ArtGen").mkdir(parents=True)
    # the other generated modules (ArtGen.Kernels …) must be reachable under the same search-path root
    built = LEAN / ".lake" / "build" / "lib" / "lean" / "ArtGen"
    for f in built.iterdir():
        if f.is_file() and not f.name.startswith("Dual."):
            shutil.copy2(f, out / "ArtGen" / f.name)
    (src / "Dual.lean").write_text(text)
    e = dict(os.environ, LEAN_PATH=env["LEAN_PATH"])
    r = subprocess.run([env["LEAN"], "-o", str(out / "ArtGen" / "Dual.olean"), "-i", str(out / "ArtGen" / "Dual.ilean"),
                        "ArtGen/Dual.lean"], cwd=src.parent, env=e, capture_output=True, text=True)
    if r.returncode != 0:
        return False, "generated file does not compile: " + first_error(r.stdout + r.stderr)
    e["LEAN_PATH"] = str(out) + ":" + env["LEAN_PATH"]
    r = subprocess.run([env["LEAN"], str(SPEC)], cwd=LEAN, env=e, capture_output=True, text=True)
    if r.returncode != 0:
        return False, first_error(r.stdout + r.stderr)
    return True, "all proofs check"


def first_error(log: str) -> str:
    for line in log.splitlines():
        if "error" in line:
            return line.strip()[:160]
    return log.strip()[:160]


def main() -> int:
    work = Path(tempfile.mkdtemp(prefix="dtrans_selftest_", dir="/tmp"))
    ok = True
    try:
        env = lean_env()
        subprocess.run(["lake", "build", "ArtGen", "ArtGenProofs.GenSpec", "ArtProps.C13"], cwd=LEAN, capture_output=True)
        scratch = work / "repo"
        for rel in (dtrans.FILE, dtrans.BASE_FILE):
            (scratch / rel).parent.mkdir(parents=True, exist_ok=True)
            shutil.copy2(REPO / rel, scratch / rel)
        original = (scratch / dtrans.FILE).read_text()

        text = dtrans.generate(scratch)
        committed = (LEAN / "ArtGen" / "Dual.lean").read_text()
        same = text == committed
        good, msg = check_proofs(text, work, env)
        print(f"[{'ok' if good and same else 'FAIL'}] unmutated source: {msg}; "
              f"lean/ArtGen/Dual.lean {'is' if same else 'IS NOT'} what the translator generates")
        ok &= good and same

        for name, kind, old, new in MUTATIONS:
            if original.count(old) != 1:
                print(f"[FAIL] {name}: the text to mutate occurs {original.count(old)} times")
                ok = False
                continue
            (scratch / dtrans.FILE).write_text(original.replace(old, new))
            try:
                text = dtrans.generate(scratch)
            except (Unsupported, SyntaxError, KeyError, AttributeError, TypeError, IndexError) as e:
                print(f"[detected] {name} ({kind}): translator failed closed — {type(e).__name__}: {str(e)[:110]}")
                continue
            finally:
                (scratch / dtrans.FILE).write_text(original)
            good, msg = check_proofs(text, work, env)
            if good:
                print(f"[MISSED] {name} ({kind}): the mutated source still satisfies every proof obligation")
                ok = False
            else:
                print(f"[detected] {name} ({kind}): proof build broke — {msg}")
        # ctrans must be left exactly as it was found
        from artv import ctrans
        restored = ctrans.NAMESPACE == "Art.Gen.BaseART" and ctrans.ext.__module__ == "artv.ctrans" \
            and ctrans.tr_block.__module__ == "artv.ctrans"
        print(f"[{'ok' if restored else 'FAIL'}] ctrans profile and dispatchers restored after generate")
        ok &= restored
    finally:
        shutil.rmtree(work, ignore_errors=True)
    print("SELFTEST " + ("PASSED" if ok else "FAILED"))
    return 0 if ok else 1


if __name__ == "__main__":
    sys.exit(main())
