#!/usr/bin/env python3
"""Run every check for the given seeds in parallel and summarise (tools/run_all.py 0,1,2 [quick|thorough] [C01 C02 …])."""
import subprocess, sys, os, time
from concurrent.futures import ThreadPoolExecutor
from pathlib import Path
V = Path(__file__).resolve().parents[1]
seeds = [int(s) for s in (sys.argv[1] if len(sys.argv) > 1 else "0").split(",")]
tier = sys.argv[2] if len(sys.argv) > 2 else "quick"
props = sys.argv[3:] or [f"C{i:02d}" for i in range(1, 21)]
def one(ps):
    p, s = ps
    t = time.time()
    r = subprocess.run([str(V / "check"), p, "--tier", tier, "--no-build"], cwd=V, capture_output=True, text=True,
                       env=dict(os.environ, VERIF_SEED=str(s)))
    vio = [l for l in r.stdout.split("\n") if l.startswith("VIOLATION")]
    kn = len([l for l in r.stdout.split("\n") if l.startswith("KNOWN-FINDING")])
    return p, s, r.returncode, round(time.time() - t), kn, vio[:2], [l.strip()[:200] for l in r.stdout.split("\n") if "INTERNAL" in l or l.strip().startswith("issue diff") or l.strip().startswith("issue audit")][:2]
subprocess.run(["lake", "build", "ArtModel", "ArtProofs", "ArtProps", "artdrv"], cwd=V / "lean", capture_output=True)
with ThreadPoolExecutor(8) as ex:
    res = list(ex.map(one, [(p, s) for s in seeds for p in props]))
bad = 0
for p, s, rc, t, kn, vio, extra in sorted(res):
    flag = "" if rc == 0 else "  <<<<<<"
    bad += rc != 0
    print(f"{p} seed={s} rc={rc} {t}s known={kn} {vio} {extra}{flag}")
print("FAILED:", bad)
