#!/venv/bin/python
"""Self-test of the TopoART.step_fit translator tie (harness/artv/ttrans2.py + lean/ArtGenProofs/TopoStepSpec.lean).

Copies `artlib/topological/TopoART.py` and `artlib/common/BaseART.py` to a scratch repo under /tmp, applies semantic
one-statement mutations to the translated functions (`TopoART.step_fit`, `update`, `add_weight`, `BaseART.set_weight`),
and for each
  1. runs `ttrans2.generate` on the scratch repo             -> `Unsupported` = the translator FAILED CLOSED (detected);
  2. otherwise compiles the generated text as module `ArtGen.TopoStep` into a scratch search-path root under /tmp (the
     project's `lean/ArtGen/TopoStep.lean` and `.lake` are never touched) and elaborates
     `ArtGenProofs/TopoStepSpec.lean` against it            -> an error = the PROOF BROKE (detected).
The unmutated source must pass both steps and regenerate `lean/ArtGen/TopoStep.lean` byte for byte.
Other agents may rebuild modules of the shared Lean project while this runs, so the compiled project libraries are
snapshotted into the scratch directory first and every check runs against the snapshot.
Exit code 0 iff every mutation is detected and the unmutated source passes.
"""
from __future__ import annotations

import os
import shutil
import subprocess
import sys
import tempfile
from pathlib import Path

VERIF = Path(__file__).resolve().parents[1]
sys.path.insert(0, str(VERIF / "harness"))
from artv import ttrans2                    # noqa: E402
from artv.ktrans import Unsupported         # noqa: E402

REPO = Path(os.environ.get("VERIF_REPO", "/repo"))
LEAN = VERIF / "lean"
SPEC = LEAN / "ArtGenProofs" / "TopoStepSpec.lean"
GEN = "TopoStep"
T, B = ttrans2.FILE, ttrans2.BASE_FILE

# (name, kind, file, old text, new text) — `old` must occur exactly once in the file
MUTATIONS = [
    ("second winner learns at `beta`, not `beta_lower`", "swapped operand", T,
     '**{"beta": self.params["beta_lower"]}', '**{"beta": self.params["beta"]}'),
    ("second winner updated with the base params (full rate)", "swapped operand", T,
     "                        params=params,\n", "                        params=self.base_module.params,\n"),
    ("`resonant_c < 0` -> `resonant_c <= 0` when choosing the rate", "off-by-one", T,
     "                    if resonant_c < 0:\n                        params = self.base_module.params",
     "                    if resonant_c <= 0:\n                        params = self.base_module.params"),
    ("edge counted from second to best", "swapped operands", T,
     'self.adjacency[cache["resonant_c"], cache["current_c"]] += 1', 'self.adjacency[cache["current_c"], cache["resonant_c"]] += 1'),
    ("edge test `>= 0` -> `> 0` (edges out of category 0 lost)", "changed comparison", T,
     'if cache.get("resonant_c", -1) >= 0:', 'if cache.get("resonant_c", -1) > 0:'),
    ("edge incremented by 2", "changed constant", T,
     'cache["current_c"]] += 1', 'cache["current_c"]] += 2'),
    ("cache keys written with swapped values", "swapped operands", T,
     '**{"resonant_c": resonant_c, "current_c": c_}', '**{"resonant_c": c_, "current_c": resonant_c}'),
    ("best winner not struck from T", "dropped statement", T,
     "                        resonant_c = c_\n                        T[c_] = np.nan\n",
     "                        resonant_c = c_\n"),
    ("params not restored when the second winner returns", "dropped statement", T,
     "                        self._set_params(base_params)\n                        return resonant_c",
     "                        return resonant_c"),
    ("params not restored after the loop", "dropped statement", T,
     "            self._set_params(base_params)\n            if resonant_c < 0:", "            if resonant_c < 0:"),
    ("second-winner exit returns the second winner", "changed return value", T,
     "                        self._set_params(base_params)\n                        return resonant_c",
     "                        self._set_params(base_params)\n                        return c_"),
    ("match tracking after ANY vetoed category (F27 re-introduced)", "changed condition", T,
     "if m and not no_match_reset:", "if not no_match_reset:"),
    ("MT1 abandon inverted (`if keep_searching`)", "changed condition", T,
     "if not keep_searching:", "if keep_searching:"),
    ("resonance test `m and ok` -> `m or ok`", "changed condition", T,
     "if m and no_match_reset:", "if m or no_match_reset:"),
    ("failed candidate not struck from T", "dropped statement", T,
     "                else:\n                    T[c_] = np.nan\n", "                else:\n                    pass\n"),
    ("nanargmax -> argmax", "changed primitive", T,
     "c_ = int(np.nanargmax(T))", "c_ = int(np.argmax(T))"),
    ("activations computed with the wrapper's own params", "swapped operand", T,
     "self.category_choice(x, w, params=self.base_module.params)", "self.category_choice(x, w, params=self.params)"),
    ("new category: `c_new` read after `add_weight`", "reordered effect", T,
     "                c_new = len(self.W)\n                w_new = self.new_weight(x, self.params)\n                self.add_weight(w_new)\n",
     "                w_new = self.new_weight(x, self.params)\n                self.add_weight(w_new)\n                c_new = len(self.W)\n"),
    ("new category exit taken when a best exists (`resonant_c < 0` -> `>= 0`)", "changed comparison", T,
     "            if resonant_c < 0:\n                c_new", "            if resonant_c >= 0:\n                c_new"),
    ("sample counter advanced by 2", "off-by-one", T,
     "self.sample_counter_ += 1", "self.sample_counter_ += 2"),
    ("first sample: 2x2 adjacency", "changed constant", T,
     "self.adjacency = np.zeros((1, 1), dtype=int)", "self.adjacency = np.zeros((2, 2), dtype=int)"),
    ("first sample labelled 1", "changed return value", T,
     "            self._permanent_mask = np.zeros((1,), dtype=bool)\n            return 0",
     "            self._permanent_mask = np.zeros((1,), dtype=bool)\n            return 1"),
    ("add_weight pads the adjacency matrix at the top", "changed constant", T,
     'np.pad(self.adjacency, ((0, 1), (0, 1)), "constant")', 'np.pad(self.adjacency, ((1, 0), (0, 1)), "constant")'),
    ("add_weight starts the counter at 0", "changed constant", T,
     "self.weight_sample_counter_.append(1)", "self.weight_sample_counter_.append(0)"),
    ("update drops the learning step", "dropped operation", T,
     "return self.base_module.update(i, w, params, cache)", "return w"),
    ("step_fit writes the base module's weights directly", "unsupported effect", T,
     "                    self.set_weight(c_, new_w)\n", "                    self.base_module.W[c_] = new_w\n"),
    ("BaseART.set_weight counts the sample twice", "off-by-one", B,
     "        self.weight_sample_counter_[idx] += 1\n        self.W[idx] = new_w",
     "        self.weight_sample_counter_[idx] += 2\n        self.W[idx] = new_w"),
    ("BaseART.set_weight does not store the weight", "dropped statement", B,
     "        self.weight_sample_counter_[idx] += 1\n        self.W[idx] = new_w",
     "        self.weight_sample_counter_[idx] += 1"),
]


def lean_env() -> dict:
    out = subprocess.run(["lake", "env", "printenv", "LEAN_PATH"], cwd=LEAN, capture_output=True, text=True)
    path = [l for l in out.stdout.splitlines() if l and not l.startswith("WARNING")][-1]
    lean = subprocess.run(["lake", "env", "which", "lean"], cwd=LEAN, capture_output=True, text=True)
    exe = [l for l in lean.stdout.splitlines() if l and not l.startswith("WARNING")][-1]
    return {"LEAN_PATH": path, "LEAN": exe}


def snapshot(work: Path) -> None:
    """a private, consistent copy of the project's compiled libraries"""
    subprocess.run(["lake", "build", "ArtGen", "ArtModel.ImpTopoStep", "ArtGenProofs.GenSpec", "ArtGenProofs.ControlSpec",
                    "ArtGenProofs.TopoSpec", "ArtProps.C14"], cwd=LEAN, capture_output=True)
    snap = work / "snap"
    shutil.rmtree(snap, ignore_errors=True)
    shutil.copytree(LEAN / ".lake" / "build" / "lib" / "lean", snap)


def check_proofs(text: str, work: Path, env: dict) -> tuple[bool, str]:
    """compile `text` as ArtGen.TopoStep under work/out, then elaborate the spec file against it"""
    src = work / "src" / "ArtGen"
    out = work / "out"
    snap = work / "snap"
    shutil.rmtree(src.parent, ignore_errors=True)
    shutil.rmtree(out, ignore_errors=True)
    src.mkdir(parents=True)
    (out / "ArtGen").mkdir(parents=True)
    # the other generated modules (ArtGen.Kernels, ArtGen.Topo …) must be reachable under the same search-path root
    built = snap / "ArtGen"
    for f in built.iterdir():
        if f.is_file() and not f.name.startswith(GEN + "."):
            shutil.copy2(f, out / "ArtGen" / f.name)
    (src / f"{GEN}.lean").write_text(text)
    e = dict(os.environ, LEAN_PATH=str(snap) + ":" + env["LEAN_PATH"])
    r = subprocess.run([env["LEAN"], "-o", str(out / "ArtGen" / f"{GEN}.olean"), "-i", str(out / "ArtGen" / f"{GEN}.ilean"),
                        f"ArtGen/{GEN}.lean"], cwd=src.parent, env=e, capture_output=True, text=True)
    if r.returncode != 0:
        return False, "generated file does not compile: " + first_error(r.stdout + r.stderr)
    e["LEAN_PATH"] = str(out) + ":" + str(snap) + ":" + env["LEAN_PATH"]
    r = subprocess.run([env["LEAN"], str(SPEC)], cwd=LEAN, env=e, capture_output=True, text=True)
    if r.returncode != 0:
        return False, first_error(r.stdout + r.stderr)
    return True, "all proofs check"


def first_error(log: str) -> str:
    for line in log.splitlines():
        if "error" in line:
            return line.strip()[:160]
    return log.strip()[:160]


def main() -> int:
    work = Path(tempfile.mkdtemp(prefix="ttrans2_selftest_", dir="/tmp"))
    ok = True
    try:
        env = lean_env()
        scratch = work / "repo"
        for rel in (T, B):
            (scratch / rel).parent.mkdir(parents=True, exist_ok=True)
            shutil.copy2(REPO / rel, scratch / rel)
        originals = {rel: (scratch / rel).read_text() for rel in (T, B)}

        text = ttrans2.generate(scratch)
        committed = (LEAN / "ArtGen" / f"{GEN}.lean").read_text()
        same = text == committed
        for attempt in range(3):            # a snapshot taken while another agent was mid-build is retaken
            snapshot(work)
            good, msg = check_proofs(text, work, env)
            if good or "object file" not in msg:
                break
        print(f"[{'ok' if good and same else 'FAIL'}] unmutated source: {msg}; "
              f"lean/ArtGen/{GEN}.lean {'is' if same else 'IS NOT'} what the translator generates")
        ok &= good and same

        for name, kind, rel, old, new in MUTATIONS:
            original = originals[rel]
            if original.count(old) != 1:
                print(f"[FAIL] {name}: the text to mutate occurs {original.count(old)} times")
                ok = False
                continue
            (scratch / rel).write_text(original.replace(old, new))
            try:
                text = ttrans2.generate(scratch)
            except (Unsupported, SyntaxError, KeyError, AttributeError, TypeError, IndexError) as e:
                print(f"[detected] {name} ({kind}): translator failed closed — {type(e).__name__}: {str(e)[:110]}")
                continue
            finally:
                (scratch / rel).write_text(original)
            good, msg = check_proofs(text, work, env)
            if "object file" in msg or "unknown module" in msg:
                print(f"[FAIL] {name}: infrastructure error, not a detection — {msg}")
                ok = False
                continue
            if good:
                print(f"[MISSED] {name} ({kind}): the mutated source still satisfies every proof obligation")
                ok = False
            else:
                print(f"[detected] {name} ({kind}): proof build broke — {msg}")
        # ctrans must be left exactly as it was found
        from artv import ctrans
        restored = ctrans.NAMESPACE == "Art.Gen.BaseART" and ctrans.ext.__module__ == "artv.ctrans" \
            and ctrans.tr_block.__module__ == "artv.ctrans" and ctrans.find_function.__module__ == "artv.ktrans" \
            and ctrans.SELF_TY == "Art.Imp.Self Wt P" and "category_choice" in ctrans.EXTERNAL
        print(f"[{'ok' if restored else 'FAIL'}] ctrans profile, dispatchers and method lookup restored after generate")
        ok &= restored
    finally:
        shutil.rmtree(work, ignore_errors=True)
    print("SELFTEST " + ("PASSED" if ok else "FAILED"))
    return 0 if ok else 1


if __name__ == "__main__":
    sys.exit(main())
