#!/usr/bin/env python3
"""Self-test of the kernel translator tie (harness/artv/ktrans.py + lean/ArtGenProofs/GenSpec.lean).

    /venv/bin/python tools/selftest_ktrans.py [--keep]

Copies the source files ktrans reads to a scratch tree under /tmp, applies one mutation at a time, runs
`ktrans.generate` on the scratch tree, compiles the generated text to a scratch .olean (outside /verif/lean: nothing in
the project tree is touched, other builds are not disturbed) and type-checks `ArtGenProofs/GenSpec.lean` against it
(the scratch directory comes first on LEAN_PATH and shadows `ArtGen.Kernels`).  A mutation is *detected* when the
translator fails closed or the proof file no longer checks.

Two families of mutations:
  KEY   same-type key swaps: the kernel reads ANOTHER key of the same type (`params["alpha"]` for `params["beta"]`,
        another scalar cache entry, `self.dim_original` for `self.dim_`, `self.params` for the `params` argument).  The
        generated definition keeps its shape; it is the binder NAME (`p_k`, `c_k`, `s_<attr>`), passed by name in
        GenSpec.lean, that makes the application fail to elaborate.  Reads of `self.params[...]` must fail closed.
  SEM   ordinary semantic mutations (operator, operand order, off-by-one slice bound, dropped term, swapped cache
        entries at the writer, decision tables).
The unmutated source must pass and regenerate the committed lean/ArtGen/Kernels.lean byte for byte; every mutation must
be detected.  Exit status 0 iff both hold.
"""
import os
import shutil
import subprocess
import sys
from pathlib import Path

VERIF = Path(__file__).resolve().parents[1]
sys.path.insert(0, str(VERIF / "harness"))
from artv import ktrans  # noqa: E402
from artv.ktrans import Unsupported  # noqa: E402

REPO = Path(os.environ.get("VERIF_REPO", "/repo"))
LEAN = VERIF / "lean"
SCRATCH = Path("/tmp/ktrans_selftest_%d" % os.getpid())

Fz = ktrans.FILES["FuzzyART"]
A1 = ktrans.FILES["ART1"]
A2 = ktrans.FILES["ART2A"]
Hs = ktrans.FILES["HypersphereART"]
El = ktrans.FILES["EllipsoidART"]
Ga = ktrans.FILES["GaussianART"]
Ba = ktrans.TRACK_SITES["BaseART"]
By = ktrans.TRACK_SITES["BayesianART"]
Sm = "artlib/supervised/SimpleARTMAP.py"
SOURCES = sorted(set(ktrans.FILES.values()) | set(ktrans.TRACK_SITES.values()) | {Sm})

# (name, family, file, old text (must occur exactly once), new text, must the translator fail closed?)
MUTATIONS = [
    # ------------------------------------------------------------------ KEY: same-type key swaps
    ("Gaussian match_criterion reads the cache entry `activation`", "KEY cache", Ga,
     '        exp_dist_sig_dist = cache["exp_dist_sig_dist"]\n', '        exp_dist_sig_dist = cache["activation"]\n', False),
    ("Hypersphere update: params['alpha'] where it read params['beta'] (both uses)", "KEY params", Hs,
     'radius_new = radius + (params["beta"] / 2) * (max_radius - radius)\n'
     '        # a sample sitting exactly on the centre leaves the centre where it is\n'
     '        shrink = 1 - (min(radius, i_radius) / i_radius) if i_radius > 0 else 0.0\n'
     '        centroid_new = centroid + (params["beta"] / 2) * (i - centroid) * shrink',
     'radius_new = radius + (params["alpha"] / 2) * (max_radius - radius)\n'
     '        # a sample sitting exactly on the centre leaves the centre where it is\n'
     '        shrink = 1 - (min(radius, i_radius) / i_radius) if i_radius > 0 else 0.0\n'
     '        centroid_new = centroid + (params["alpha"] / 2) * (i - centroid) * shrink', False),
    ("Hypersphere update: the two cache entries read from each other's key", "KEY cache", Hs,
     '        max_radius = cache["max_radius"]\n        i_radius = cache["i_radius"]\n',
     '        max_radius = cache["i_radius"]\n        i_radius = cache["max_radius"]\n', False),
    ("Hypersphere match_criterion reads cache['i_radius'] for cache['max_radius']", "KEY cache", Hs,
     '        max_radius = cache["max_radius"]\n\n        return 1 - (max(radius, max_radius)',
     '        max_radius = cache["i_radius"]\n\n        return 1 - (max(radius, max_radius)', False),
    ("Hypersphere match_criterion: params['alpha'] for params['r_hat']", "KEY params", Hs,
     'return 1 - (max(radius, max_radius) / params["r_hat"]), cache', 'return 1 - (max(radius, max_radius) / params["alpha"]), cache', False),
    ("Ellipsoid category_distance reads params['r_hat'] where it read params['mu']", "KEY params", El,
     'return (1.0 / params["mu"]) * np.sqrt(\n                l2norm2(ic_dist)\n                - (1 - params["mu"] * params["mu"])',
     'return (1.0 / params["r_hat"]) * np.sqrt(\n                l2norm2(ic_dist)\n                - (1 - params["r_hat"] * params["r_hat"])', False),
    ("Ellipsoid category_choice reads params['mu'] where it read params['r_hat']", "KEY params", El,
     'return (params["r_hat"] - radius - max(radius, dist)) / (\n            params["r_hat"] - 2 * radius + params["alpha"]',
     'return (params["mu"] - radius - max(radius, dist)) / (\n            params["mu"] - 2 * radius + params["alpha"]', False),
    ("Ellipsoid match_criterion: params['mu'] for params['r_hat']", "KEY params", El,
     'return 1 - (radius + max(radius, dist)) / params["r_hat"], cache', 'return 1 - (radius + max(radius, dist)) / params["mu"], cache', False),
    ("Ellipsoid update reads the cache entry `activation` for `dist`", "KEY cache", El,
     '        dist = cache["dist"]\n\n        radius_new', '        dist = cache["activation"]\n\n        radius_new', False),
    ("Ellipsoid category_choice hands self.params to category_distance", "KEY self.params", El,
     "dist = self.category_distance(i, centroid, major_axis, params)", "dist = self.category_distance(i, centroid, major_axis, self.params)", True),
    ("Fuzzy category_choice reads self.params['alpha'] instead of the params argument", "KEY self.params", Fz,
     '(params["alpha"] + l1norm(w)), None', '(self.params["alpha"] + l1norm(w)), None', True),
    ("ART2 update reads self.params['beta'] instead of the params argument", "KEY self.params", A2,
     'return params["beta"] * i + (1 - params["beta"]) * w', 'return self.params["beta"] * i + (1 - self.params["beta"]) * w', True),
    ("Fuzzy update: params['alpha'] for params['beta']", "KEY params", Fz,
     '        b = params["beta"]\n', '        b = params["alpha"]\n', False),
    ("Fuzzy match_criterion divides by self.dim_ instead of self.dim_original", "KEY attribute", Fz,
     "return l1norm(fuzzy_and(i, w)) / self.dim_original, cache", "return l1norm(fuzzy_and(i, w)) / self.dim_, cache", False),
    ("ART1 category_choice slices at self.dim_original instead of self.dim_", "KEY attribute", A1,
     "w_bu = w[: self.dim_]", "w_bu = w[: self.dim_original]", False),
    ("ART1 update: params['rho'] where it read params['L'] (both uses)", "KEY params", A1,
     'w_td_new = np.logical_and(i, w_td)\n        w_bu_new = (params["L"] / (params["L"] - 1',
     'w_td_new = np.logical_and(i, w_td)\n        w_bu_new = (params["rho"] / (params["rho"] - 1', False),
    ("ART2 update: params['alpha'] where it read params['beta'] (both uses)", "KEY params", A2,
     'return params["beta"] * i + (1 - params["beta"]) * w', 'return params["alpha"] * i + (1 - params["alpha"]) * w', False),
    ("ART2 match_criterion: params['rho'] for params['alpha']", "KEY params", A2,
     'M_u = params["alpha"] * np.sum(i)', 'M_u = params["rho"] * np.sum(i)', False),
    ("ART2 match_criterion reads the cache entry `match_criterion` for `activation`", "KEY cache", A2,
     'M = cache["activation"]', 'M = cache["match_criterion"]', False),
    ("Gaussian category_choice: params['rho'] for params['alpha']", "KEY params", Ga,
     'p_i_cj = exp_dist_sig_dist / (params["alpha"] + sqrt_det_sig)', 'p_i_cj = exp_dist_sig_dist / (params["rho"] + sqrt_det_sig)', False),
    ("Gaussian update: lower slice bound self.dim_original for self.dim_", "KEY attribute", Ga,
     "sigma = w[self.dim_ : 2 * self.dim_]", "sigma = w[self.dim_original : 2 * self.dim_]", False),
    ("Gaussian update slices the mean at another attribute of the model", "KEY attribute", Ga,
     "        mean = w[: self.dim_]\n        sigma = ", "        mean = w[: self.n_clusters]\n        sigma = ", True),
    ("BaseART.match_criterion_bin compares with self.params['rho'] (not the tracked params)", "KEY self.params", Ba,
     'M_bin = op(M, params["rho"])', 'M_bin = op(M, self.params["rho"])', True),
    ("BaseART._match_tracking reads the cache entry `activation`", "KEY cache", Ba,
     'M = cache["match_criterion"]', 'M = cache["activation"]', True),
    # ------------------------------------------------------------------ SEM: ordinary semantic mutations
    ("Fuzzy category_choice: alpha subtracted", "SEM operator", Fz,
     '(params["alpha"] + l1norm(w)), None', '(params["alpha"] - l1norm(w)), None', False),
    ("Fuzzy update: learning-rate weights exchanged", "SEM operand order", Fz,
     "return b * fuzzy_and(i, w) + (1 - b) * w", "return (1 - b) * fuzzy_and(i, w) + b * w", False),
    ("ART1 match_criterion: top-down slice one too far", "SEM off-by-one slice bound", A1,
     "        w_td = w[self.dim_ :]\n        return l1norm(", "        w_td = w[self.dim_ + 1 :]\n        return l1norm(", False),
    ("ART1 update: the `- 1` of the bottom-up normaliser dropped", "SEM dropped term", A1,
     'w_td_new = np.logical_and(i, w_td)\n        w_bu_new = (params["L"] / (params["L"] - 1 + l1norm(w_td_new)))',
     'w_td_new = np.logical_and(i, w_td)\n        w_bu_new = (params["L"] / (params["L"] + l1norm(w_td_new)))', False),
    ("ART2 match_criterion: strict comparison relaxed", "SEM comparison", A2, "        if M < M_u:\n", "        if M <= M_u:\n", False),
    ("Hypersphere category_choice: min instead of max", "SEM operator", Hs,
     "max_radius = max(radius, i_radius)", "max_radius = min(radius, i_radius)", False),
    ("Hypersphere category_choice: cache entries written under each other's key", "SEM swapped cache entries", Hs,
     '"max_radius": max_radius,\n            "i_radius": i_radius,', '"max_radius": i_radius,\n            "i_radius": max_radius,', False),
    ("Hypersphere update: radius step reversed", "SEM operand order", Hs,
     '(params["beta"] / 2) * (max_radius - radius)', '(params["beta"] / 2) * (radius - max_radius)', False),
    ("Hypersphere category_distance: sum instead of difference", "SEM operator", Hs,
     "return np.sqrt(l2norm2(i - centroid))", "return np.sqrt(l2norm2(i + centroid))", False),
    ("Ellipsoid category_distance: 1 + mu^2", "SEM operator", El,
     '- (1 - params["mu"] * params["mu"])', '- (1 + params["mu"] * params["mu"])', False),
    ("Ellipsoid update: shrink also at distance 0", "SEM comparison", El,
     "shrink = 1 - (min(radius, dist) / dist) if dist > 0 else 0.0", "shrink = 1 - (min(radius, dist) / dist) if dist >= 0 else 0.0", False),
    ("Ellipsoid category_choice: major axis slice keeps the radius", "SEM slice bound", El,
     "        major_axis = w[self.dim_ : -1]\n        radius = w[-1]\n\n        dist = self.category_distance",
     "        major_axis = w[self.dim_ :]\n        radius = w[-1]\n\n        dist = self.category_distance", False),
    ("Gaussian category_choice: exponent -1 instead of -1/2", "SEM constant", Ga, "np.exp(-0.5 * np.dot", "np.exp(-1.0 * np.dot", False),
    ("Gaussian category_choice: sigma block instead of the inverse block", "SEM slice bound", Ga,
     "inv_sig = w[2 * self.dim_ : 3 * self.dim_]", "inv_sig = w[self.dim_ : 2 * self.dim_]", False),
    ("Gaussian category_choice: likelihood not multiplied by the prior", "SEM dropped term", Ga,
     "activation = p_i_cj * p_cj", "activation = p_i_cj", False),
    ("Gaussian update: count increases by two", "SEM off-by-one", Ga, "n_new = n + 1", "n_new = n + 2", False),
    ("Gaussian new_weight: count starts at 0", "SEM constant", Ga, "[det_sig_init], [1.0]]", "[det_sig_init], [0.0]]", False),
    ("BaseART._match_tracking MT+: epsilon subtracted", "SEM operator", Ba,
     'self.params["rho"] = M + epsilon', 'self.params["rho"] = M - epsilon', False),
    ("BayesianART.match_criterion_bin: operator applied the BaseART way round", "SEM operand order", By,
     "M_bin = op(\n", "M_bin = op(M, params['rho']) or op(\n", True),
    ("SimpleARTMAP.match_reset_func: veto when the class is the SAME", "SEM comparison", Sm,
     "self.map[cluster_a] != cluster_b", "self.map[cluster_a] == cluster_b", True),
]


def lean_env():
    lp = subprocess.run(["lake", "env", "printenv", "LEAN_PATH"], cwd=LEAN, capture_output=True, text=True, check=True).stdout.strip()
    lean = subprocess.run(["lake", "env", "sh", "-c", "command -v lean"], cwd=LEAN, capture_output=True, text=True,
                          check=True).stdout.strip().splitlines()[-1]
    return lean, lp.splitlines()[-1]


def fresh_tree(root: Path):
    if root.exists():
        shutil.rmtree(root)
    for rel in SOURCES:
        (root / rel).parent.mkdir(parents=True, exist_ok=True)
        shutil.copy(REPO / rel, root / rel)


def check(root: Path, work: Path, lean: str, lp: str):
    """-> (verdict, detail): "pass" | "translator failed closed" | "proof build broke" """
    try:
        text = ktrans.generate(root)
    except (Unsupported, SyntaxError, OSError) as e:          # exactly what ktrans.write turns into a failed obligation
        return "translator failed closed", f"{type(e).__name__}: {e}"
    src, out = work / "src" / "ArtGen", work / "out" / "ArtGen"
    src.mkdir(parents=True, exist_ok=True)
    out.mkdir(parents=True, exist_ok=True)
    (src / "Kernels.lean").write_text(text)
    # the scratch `ArtGen/` shadows the project's directory of that name: link the project's other generated modules
    # next to the scratch one (GenSpec itself imports only ArtGen.Kernels; this keeps the shadowing harmless)
    built = LEAN / ".lake" / "build" / "lib" / "lean" / "ArtGen"
    if built.is_dir():
        for f in built.iterdir():
            if not f.name.startswith("Kernels.") and not (out / f.name).exists():
                os.symlink(f, out / f.name)
    for stale in out.glob("Kernels.*"):
        stale.unlink()
    env = dict(os.environ, LEAN_PATH=lp)
    p = subprocess.run([lean, f"--root={work / 'src'}", "-o", str(out / "Kernels.olean"), str(src / "Kernels.lean")],
                       cwd=work / "src", env=env, capture_output=True, text=True, timeout=600)
    if p.returncode != 0:
        return "proof build broke", "the generated file does not elaborate: " + (p.stdout + p.stderr).strip().split("\n")[0][:160]
    env = dict(os.environ, LEAN_PATH=f"{work / 'out'}:{lp}")
    p = subprocess.run([lean, "ArtGenProofs/GenSpec.lean"], cwd=LEAN, env=env, capture_output=True, text=True, timeout=1200)
    errs = [l for l in (p.stdout + p.stderr).split("\n") if ": error" in l]
    if p.returncode != 0 or errs:
        first = errs[0] if errs else (p.stdout + p.stderr).strip().split("\n")[0]
        return "proof build broke", f"{len(errs)} error(s), first: {first[:170]}"
    return "pass", ""


def main():
    keep = "--keep" in sys.argv
    lean, lp = lean_env()
    ok = True
    committed_before = (LEAN / "ArtGen" / "Kernels.lean").read_bytes()
    try:
        root, work = SCRATCH / "repo", SCRATCH / "lean"
        fresh_tree(root)
        v, d = check(root, work, lean, lp)
        committed = committed_before.decode() == ktrans.generate(root)
        print(f"[{'ok' if v == 'pass' and committed else 'FAIL'}] unmutated source: {v} {d}; committed ArtGen/Kernels.lean "
              f"{'is' if committed else 'IS NOT'} byte for byte what the translator produces", flush=True)
        ok &= v == "pass" and committed
        n_key = n_det = 0
        for name, kind, rel, old, new, closed in MUTATIONS:
            fresh_tree(root)
            text = (root / rel).read_text()
            if text.count(old) != 1:
                print(f"[FAIL] {name}: the text to mutate occurs {text.count(old)} times in {rel}")
                ok = False
                continue
            (root / rel).write_text(text.replace(old, new))
            v, d = check(root, work, lean, lp)
            det = v != "pass" and (not closed or v == "translator failed closed")
            ok &= det
            n_key += kind.startswith("KEY")
            n_det += det
            tag = "detected" if det else ("NOT CLOSED" if v != "pass" else "MISSED")
            print(f"[{tag}] {name} ({kind}; {rel.split('/')[-1]}): {v} — {d}", flush=True)
        print(f"{n_det} of {len(MUTATIONS)} mutations detected ({n_key} same-type key swaps, {len(MUTATIONS) - n_key} semantic)")
        if (LEAN / "ArtGen" / "Kernels.lean").read_bytes() != committed_before:
            print("[FAIL] lean/ArtGen/Kernels.lean changed during the self-test")
            ok = False
    finally:
        if not keep:
            shutil.rmtree(SCRATCH, ignore_errors=True)
    print("SELFTEST", "PASSED" if ok else "FAILED")
    return 0 if ok else 1


if __name__ == "__main__":
    sys.exit(main())
