#!/usr/bin/env python3
"""Regenerate MANIFEST.json from the table below (python3 tools/mk_manifest.py)."""
import json
from pathlib import Path

VERIF = Path(__file__).resolve().parents[1]

TB = ("Trusted: Lean 4.33 kernel + Mathlib v4.33 as compiled in the image; axioms of every listed theorem ⊆ {propext, "
      "Classical.choice, Quot.sound} (audited by #print axioms on every run; no sorry/native_decide/bv_decide/user "
      "axioms); the hand-written model is tied to /repo by differential runs of the compiled model (lean/artdrv) "
      "against the real artlib, whose reach is that of the generators (distribution recorded in the evidence). ")

P = {
 "C01": ("Generic resonance search: termination, winner soundness (live, passed the threshold in force, not vetoed), "
         "visiting order (activation desc., oldest first), maximality, exhaustion, exact threshold trace per mode, "
         "no-reset characterisation (first arg-max of the vigilance-passing set), one-step frame — for every linear "
         "order of activations, match/threshold type (scalar or per-channel), mode, epsilon, veto pattern, any number "
         "of categories.  Tie: every real step_fit step of all 8 elementary classes + FusionART is replayed through "
         "the Lean search on the exact doubles (order keys) incl. thresholds seen by the reset function; end-to-end "
         "histories over Q for Fuzzy/ART1/ART2-A and on IEEE doubles for HypersphereART; the match-tracking tables of "
         "BaseART/BayesianART/Dual/Topo/CVIART, the operator per mode and the orientation of the binary test are "
         "regenerated from the source by the translator on every run and proved equal to the model's (8 obligations).",
         "Outside the theorem: whether T and M are the right numbers (C03); float rounding inside kernels; activations are "
         "assumed never to be -inf (np.nanargmax then returns a NaN slot and the real loop spins: finding F15, fixed).",
         "Lean proof by induction over the search loop + trace-driven correspondence"),
 "C02": ("Every category = the module's learning rule folded over exactly the samples labelled with it (any kernel, "
         "mode, veto); Fuzzy fast learning = meet of members = smallest enclosing box; weights antitone; enclosed "
         "stays enclosed; |w| ≥ rho·d invariant for every mode that never lowers the threshold; sphere/ellipsoid "
         "radius monotone and bounded, old sphere internally tangent; exact running mean and count; MT− "
         "counterexample.  Tie: end-to-end weights over Q; oracle recomputes box/AND/mean/count, containment, "
         "stepwise monotonicity and bounds on bare modules, FusionART channels, ARTMAP sides, Dual/Topo bases.",
         "Over ordered fields (ℚ executed, ℝ intended); float rounding and the Euclidean norm itself (sqrt) are "
         "outside the theorems, measured by the oracle to 1e-9.  Known finding F20 (MT− lowers the bound by design).",
         "Lean proof (invariants over the stream, ordered-field algebra) + correspondence"),
 "C03": ("Kernel definitions are the published equations; decision table of the binary match test per mode/inversion; "
         "bounding box for any n ≤ d; shrink_clusters keeps the centre and stays inside; ART1 template AND and "
         "bottom-up rule; ART2-A suppression; sphere update cases.  Tie: every public kernel function of "
         "Fuzzy/ART1/ART2-A (exact rationals) and Hypersphere (IEEE doubles, mostly bit-identical) against the Lean "
         "definitions on trained and arbitrary weights; Ellipsoid/Gaussian/Bayesian/QuadNeuron against the published "
         "rules in numpy (1e-9); purity bitwise.",
         "Translator tie for FuzzyART/ART1/ART2-A/HypersphereART: harness/artv/ktrans.py regenerates Lean definitions from "
         "the Python AST on every run and ArtGenProofs/GenSpec.lean proves them equal to the published rules for all "
         "arguments (17 obligations; fails closed on unsupported syntax).  Ellipsoid/Gaussian/Bayesian/QuadNeuron and the "
         "geometry accessors are tied by sampled correspondence only; exp/LAPACK kernels compared with tolerance; the "
         "translator itself is trusted.",
         "Lean proof + source-to-Lean kernel translator (regenerated every run) + kernel-level correspondence"),
 "C04": ("Every denominator the kernels divide by is positive for all weights training can reach, under each class's "
         "validation and the property's guards (uses the C02 bounds); repaired 0/0 never divides; Gaussian variances "
         "stay positive.  Oracle: all 20 estimator families are fitted / incrementally fitted / asked to predict on "
         "validated data with duplicates, centre hits, ties and extreme legal hyper-parameters under a watchdog; any "
         "exception, hang or non-finite weight/activation/match/centre is a violation.",
         "Overflow/underflow of exp, 1/σ², LAPACK conditioning are float-only and outside the theorems (probed by "
         "the oracle only).",
         "Lean proof (definedness lemmas) + exhaustive-family oracle"),
 "C05": ("Consistent: |cnt|=|W|, labels < |W|, counters = label histogram, sample counter = #labels, no empty "
         "category, creation order — invariant over every history of fit/partial_fit calls with any batch sizes, any "
         "kernel/mode/veto; labels_ length = samples since the last fit.  Tie: end-to-end labels+counters over Q; "
         "oracle recomputes everything after every call for all BaseART-derived families and ARTMAP sides.",
         "DualVigilanceART/TopoART are outside the counter clause (own loops) as the property says.",
         "Lean proof (invariant by induction over operation histories) + correspondence"),
 "C06": ("partial_fit is a fold: any partition = one batch = fit on a fresh model; re-fit = fresh fit; SimpleARTMAP and "
         "ARTMAP (two batches, B never reads A) likewise.  Oracle: fit vs every/random partition vs re-fit vs read-only "
         "operations interleaved, for 20 families; tie: Lean folds reproduce base and SimpleARTMAP histories over Q.",
         "That the implementation is such a fold is established by the tie, not by the theorem.  Known findings F11 "
         "(TopoART.partial_fit never prunes), F16 (dim_ survives fit).",
         "Lean proof (fold lemmas) + relational oracle + correspondence"),
 "C07": ("The vigilance slot is saved, really overwritten while tracking, and restored on all four exits; over any "
         "stream the slot is constant and the state equals the pure fold at the configured value; the first visit of "
         "every search sees the configured threshold.  Oracle: parameter trees by value around every "
         "fit/partial_fit/predict of 20 families in all modes; first threshold seen by a reset function per sample.",
         "Exception exits are outside the statement.",
         "Lean proof (explicit save/mutate/restore model) + oracle"),
 "C08": ("predict is List.map of step_pred: pointwise, batching, permutation, repetition; first arg-max with finite "
         "activations; in range; SimpleARTMAP prediction = map of A-side prediction ∈ classes seen.  Oracle: "
         "permutation/batching/repetition/purity/arg-max/range on 18 families; tie: Lean predict end-to-end.",
         "Purity of the Python functions is a run-time fact checked by snapshots.",
         "Lean proof + relational oracle + correspondence"),
 "C09": ("MapInv (one entry per A category, total, zip(labels_a, targets) consistent) after any history, all modes; "
         "entries never overwritten; map_a2b(labels_a) = targets; predictions = map[predict_a] ∈ targets.  Oracle on "
         "SimpleARTMAP/ARTMAP with all elementary classes + Dual/Fusion as A-side, contradictory labels, negative class "
         "labels, re-fits, epochs; tie: Lean SimpleARTMAP histories over Q; match_reset_func is regenerated from the source by "
         "the translator on every run and proved to be the negation of the model's veto.",
         "ARTMAP regression returns sklearn-free B-side centres: checked by the oracle only.",
         "Lean proof (invariant via winner-not-vetoed + frame) + correspondence"),
 "C12": ("DeepInv for supervised and unsupervised hierarchies of any depth after any valid history: columns are layer "
         "labels, finer column determines coarser (nested, transitive), counts monotone, map_deep consistent incl. "
         "negative levels, predict nested, batching irrelevant, SMART = unsupervised hierarchy on replicated data.  "
         "Tie: exact end-to-end hierarchies (fuzzy/art1/art2a levels); oracle on all classes.",
         "max_iter = 1 only.",
         "Lean proof (induction over layers using MapInv) + correspondence"),
 "C13": ("Literal dual-vigilance loop: termination, visiting order over positive activations, three-way decision = "
         "reference fold, threshold trace, map total / range exactly 0..k-1 / new label = max+1, labels and predictions "
         "in range, weights change only on upper-test passers, configured-rho bound when tracking only tightens.  "
         "Tie: table-driven replay of every step of all 8 base classes × 5 modes.",
         "Known findings: zero-activation categories never visited (F18), stale map after a zero-row fit, inverted "
         "(Bayesian) base tracked with the non-inverted rule.",
         "Lean proof + table-driven correspondence"),
 "C14": ("Two-winner search spec, step frame (best learns at beta, second at beta_lower, one adjacency cell +1), shape "
         "invariant (square, zero diagonal) after every sample, prune keeps exactly permanent ∨ count ≥ phi and "
         "re-indexes W/cnt/mask/adjacency/labels by one monotone injection, labels in range, schedule for fit.  Tie: "
         "table-driven replay incl. pruning rounds and re-prediction, compared after every sample.",
         "Known findings: partial_fit never prunes (F11), zero-row fit leaves stale adjacency/mask.",
         "Lean proof + table-driven correspondence"),
 "C15": ("Inv of the incremental Calinski-Harabasz record for vector data of any dimension over any ordered field "
         "after any permitted add/switch history; criterion = batch index; iCVIFuzzyART tracks CH(X, labels_) online "
         "and offline; gates: joining an existing cluster ⇒ strictly better index (all modes).  Tie: exact rational "
         "replays of op sequences and of every iCVI_match candidate; oracle vs sklearn.",
         "Davies-Bouldin / silhouette values are an oracle parameter; known float-only finding F26 (WGSS == 0 tested "
         "on a rounding residue).",
         "Lean proof (ordered-field algebra, invariant over op histories) + correspondence"),
 "C17": ("rows_/columns_ shapes, membership, partition into exactly one bicluster, column module trained alone, rows by "
         "the generic search under the correlation veto.  Tie: real fit (also with a patched veto table) vs model.",
         "Pearson arithmetic enters as a recorded veto oracle; known findings F13 (non-square IndexError, width-1 "
         "column cluster ValueError).",
         "Lean proof + correspondence"),
 "C18": ("normalize in [0,1], denorm∘norm = id, decc∘cc = id, row sums = d, prepare/restore round trips (also "
         "compound), prepare output passes validation, bounds re-used, validate-then-body rejection is a no-op.  "
         "Tie: exact rationals vs float outputs; oracle: every estimator's prepare/restore pair and rejection "
         "atomicity at random history points.",
         "'to numerical precision' measured, not proved; known findings C18-a…i (state written before validation "
         "completes in ART2A/BayesianART/FusionART/CVIART, CVIART.predict validates the wrapper, …).",
         "Lean proof (ordered-field algebra) + correspondence"),
 "C19": ("BaseART parameter protocol modelled literally: set∘get no-op, set = construct for the 8 class tables, unknown "
         "/ out-of-range rejected, attribute mirror, ownership (Own vs View) — with the F25 counterexample (rejected "
         "value stays) and partial atomicity.  Tie: 400 get/set/attr sequences + class table re-extracted from the "
         "source (inspect/ast) every run; oracle a–j on 28 estimators (clone, deepcopy/pickle twins, mutation of "
         "training arrays, interleaved instances).",
         "deepcopy / pickle / sklearn.clone / instance independence are NOT modelled in Lean — covered by the oracle "
         "only (partial).  18 known findings (clone raises for 6 classes, flat-copy set_params of TopoART/CVIART, …).",
         "Lean proof (table-driven, decide per class + generic lemmas) + oracle"),
 "C20": ("VAT indices are a permutation, seed row holds a global maximum (first in row-major order), each step appends "
         "the unvisited sample nearest to the visited set (tie rule pinned), output = input re-ordered, symmetric/zero "
         "diagonal preserved — for every linear order and every square matrix.  Tie: bitwise on doubles (order keys) "
         "for precomputed matrices, default and custom metrics.",
         "squareform(pdist) is scipy's (trusted); NaN entries outside the quantifier.",
         "Lean proof + bitwise correspondence"),
}

P.update({
 "C10": ("FusionART as a kernel built from channel kernels: activation = left-to-right gamma-weighted sum, match = all channels, "
         "tracking per channel, update/new weight channel-wise (slices by data widths for samples, by weight lengths for "
         "weights), every channel's weights = its module's rule folded over its slices of the category's members, module "
         "lists are projections with equal counts, W = concatenation, one channel with gamma 1 = bare module, adjacent channel "
         "swap leaves labels unchanged — any number of channels, widths, weight lengths, streams, modes, reset functions.  Tie: "
         "exact end-to-end histories (Fuzzy/ART1/ART2-A channels); oracle on all 8 channel classes.",
         "Float rounding of the weighted sum is not modelled (near-ties within 1e-9 are skipped and counted); BayesianART's "
         "inverted channel test is covered by the oracle only.",
         "Lean proof (fusion kernel + member-fold projection) + correspondence"),
 "C11": ("Skipped channels add a constant to every activation, adding a constant preserves np.argmax, hence prediction with a "
         "skip set depends on the supplied slices only and is the arg-max of the remaining channels; negative indices "
         "normalised; regression returns the target channels' centres; join/split and prepare/restore round trips.  Tie: exact "
         "rational replays; oracle over all skip/target subsets, positive and negative indices, several fillers.",
         "Centres of non-Fuzzy target modules and de-normalisation are the modules' own (C03/C18).",
         "Lean proof + correspondence"),
 "C16": ("FALCON/TD-FALCON training = FusionART training on joined rows (definitional), get_rewards = reward-channel centre of "
         "the category chosen with the reward channel withheld, get_action = first arg-max/arg-min over the action space, SARSA "
         "targets = complement code of clip(Q + alpha(r + lambda Q' - Q), 0, 1) for every transition but the last, valid reward "
         "inputs; single-transition and untrained cases.  Tie: exact replays of sarsa/act/rew ops; oracle vs a FusionART trained "
         "directly on the joined rows.",
         "Reward channel = one complement-coded scalar; get_probabilistic_action (random) not covered; 'r alone before any "
         "training' read as Q ≡ 0 (target clip(alpha·r)).",
         "Lean proof + correspondence"),
})

PENDING = {}


def main():
    checks = []
    for pid in sorted(P):
        text, note, tech = P[pid]
        checks.append({
            "property_id": pid,
            "quick_cmd": f"./check {pid} --tier quick",
            "thorough_cmd": f"./check {pid} --tier thorough",
            "evidence_file": f"evidence/{pid}.json",
            "replay_cmd_template": f"./check {pid} --replay {{path}}",
            "engine": "lean-model+harness",
            "level_claimed": {"category": "proof", "text": text, "design_ref": f"DESIGN.md §6 {pid}"},
            "level_note": TB + note,
            "technique": tech,
        })
    claimed = sorted(P)
    man = {
        "version": 1,
        "setup_cmd": "cd lean && lake build ArtModel ArtProofs ArtProps ArtGenProofs artdrv",
        "hooks": {
            "guard": "ARTLIB_VERIF",
            "enable": "no source hooks: the harness observes the public API and wraps bound methods on instances from outside; "
                      "ARTLIB_VERIF=1 is exported by the harness but nothing in /repo reads it",
            "baseline_off_cmd": "cd /repo && /venv/bin/python -m pytest -ra -q -p no:cacheprovider --timeout=900 "
                                "--continue-on-collection-errors",
            "source_commits": [],
            "add_only": True,
        },
        "engines": [
            {"name": "lean-model+harness", "path": "lean/ + harness/artv/", "serves_properties": claimed,
             "kind_free_text": "Lean 4 model (ArtModel, core only) + proofs (ArtProofs/ArtProps, single Mathlib modules) + compiled "
                               "line-protocol driver artdrv; Python correspondence harness and oracles driving the real artlib in-process"},
        ],
        "checks": checks,
        "not_applicable": [{"property_id": k, "reason": v} for k, v in sorted(PENDING.items()) if k not in P],
        "notes": "Every check = lake build + static audit (#print axioms of the property's theorems, forbidden-token grep) + "
                 "correspondence + oracle; exit 1 only for a violation not listed in known_findings.json / known_findings.d.",
    }
    (VERIF / "MANIFEST.json").write_text(json.dumps(man, indent=1, ensure_ascii=False))
    print("claimed", claimed)


if __name__ == "__main__":
    main()
