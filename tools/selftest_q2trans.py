#!/usr/bin/env python3
"""Self-test of the compound-estimator protocol translator tie (harness/artv/q2trans.py + lean/ArtGenProofs/Params2Spec.lean).

    /venv/bin/python tools/selftest_q2trans.py [--keep]

Copies the ten translated source files of /repo to a scratch tree under /tmp, applies one *semantic* mutation at a
time, runs `q2trans.generate` on the scratch tree, compiles the generated text to a scratch .olean (outside
/verif/lean: nothing in the project tree is touched, other builds are not disturbed) and type-checks
`ArtGenProofs/Params2Spec.lean` against it (the scratch directory comes first on LEAN_PATH).  A mutation is *detected*
when the translator fails closed or the proof file no longer checks.  The unmutated source must pass; every mutation
must be detected.  Exit status 0 iff both hold.
"""
import os
import shutil
import subprocess
import sys
from pathlib import Path

VERIF = Path(__file__).resolve().parents[1]
sys.path.insert(0, str(VERIF / "harness"))
from artv import q2trans  # noqa: E402
from artv.ktrans import Unsupported  # noqa: E402

REPO = Path(os.environ.get("VERIF_REPO", "/repo"))
LEAN = VERIF / "lean"
SCRATCH = Path("/tmp/q2trans_selftest_%d" % os.getpid())

B = "artlib/common/BaseART.py"
Bm = "artlib/common/BaseARTMAP.py"
Sm = "artlib/supervised/SimpleARTMAP.py"
Am = "artlib/supervised/ARTMAP.py"
Du = "artlib/topological/DualVigilanceART.py"
To = "artlib/topological/TopoART.py"
Cv = "artlib/cvi/CVIART.py"
Ic = "artlib/cvi/iCVIFuzzyArt.py"
De = "artlib/hierarchical/DeepARTMAP.py"

# (name, kind, file, old text (must occur exactly once), new text)
MUTATIONS = [
    # ---- BaseARTMAP.set_params
    ("BaseARTMAP.set_params: unknown-name test inverted", "changed condition", Bm,
     "            if key not in valid_params:\n", "            if key in valid_params:\n"),
    ("BaseARTMAP.set_params: nested/plain branches swapped", "changed condition", Bm,
     "            if delim:\n", "            if not delim:\n"),
    ("BaseARTMAP.set_params: nested sub-parameters stored under the sub-key", "swapped operands", Bm,
     "nested_params[key][sub_key] = value", "nested_params[sub_key][key] = value"),
    ("BaseARTMAP.set_params: nested key split on \"_\"", "changed separator", Bm,
     'key.partition("__")', 'key.partition("_")'),
    ("BaseARTMAP.set_params: unknown names raise AttributeError", "changed exception", Bm,
     "                raise ValueError(\n", "                raise AttributeError(\n"),
    ("BaseARTMAP.set_params: a plain name is recorded but not assigned", "dropped statement", Bm,
     "                setattr(self, key, value)\n", ""),
    ("BaseARTMAP.set_params: empty call no longer returns early, non-empty does", "changed condition", Bm,
     "        if not params:\n", "        if params:\n"),
    ("BaseARTMAP.set_params: the nested call goes to the group's first sub-key, not to the module", "changed key", Bm,
     "            valid_params[key].set_params(**sub_params)", "            valid_params[key + \"__\"].set_params(**sub_params)"),
    ("BaseARTMAP.__init__: map attribute renamed", "changed name", Bm,
     "        self.map: dict[int, int] = dict()", "        self.map_: dict[int, int] = dict()"),
    # ---- SimpleARTMAP / ARTMAP
    ("SimpleARTMAP.get_params: nested names joined with a single underscore", "changed separator", Sm,
     'out.update(("module_a" + "__" + k, val) for k, val in deep_items)',
     'out.update(("module_a" + "_" + k, val) for k, val in deep_items)'),
    ("SimpleARTMAP.get_params: deep test inverted", "changed condition", Sm,
     "        if deep:\n            deep_items = self.module_a.get_params().items()",
     "        if not deep:\n            deep_items = self.module_a.get_params().items()"),
    ("SimpleARTMAP.__init__: BaseARTMAP.__init__ no longer called", "dropped statement", Sm,
     "        self.module_a = module_a\n        super().__init__()\n", "        self.module_a = module_a\n"),
    ("ARTMAP.__init__: module_b receives module_a", "swapped operands", Am,
     "        self.module_b = module_b\n", "        self.module_b = module_a\n"),
    ("ARTMAP.get_params: module_b's parameters exposed under module_a__", "changed name", Am,
     'out.update(("module_b" + "__" + k, val) for k, val in deep_b_items)',
     'out.update(("module_a" + "__" + k, val) for k, val in deep_b_items)'),
    # ---- DeepARTMAP.set_params
    ("DeepARTMAP.set_params: a plain name is recorded but not assigned", "dropped statement", De,
     "                setattr(self, key, value)\n", ""),
    # ---- DualVigilanceART
    ("DualVigilanceART.validate_params: rho_lower_bound >= 0 made strict", "bound made strict", Du,
     'assert params["rho_lower_bound"] >= 0\n', 'assert params["rho_lower_bound"] > 0\n'),
    ("DualVigilanceART.__init__: rho > rho_lower_bound made non-strict", "bound made non-strict", Du,
     'assert base_module.params["rho"] > params["rho_lower_bound"] >= 0',
     'assert base_module.params["rho"] >= params["rho_lower_bound"] >= 0'),
    ("DualVigilanceART.get_params: deep test inverted", "changed condition", Du,
     "        if deep:\n            deep_items = self.base_module.get_params().items()",
     "        if not deep:\n            deep_items = self.base_module.get_params().items()"),
    ("DualVigilanceART.__init__: base_module stored after BaseART.__init__", "reordered effect", Du,
     "        self.base_module = base_module\n        # BaseART.__init__ resets",
     "        # BaseART.__init__ resets"),
    ("DualVigilanceART.__init__: the saved counter is also read after the restore (pair no longer droppable)", "added effect", Du,
     "        base_module.weight_sample_counter_ = counter\n",
     "        base_module.weight_sample_counter_ = counter\n        self.rho_lower_bound = len(counter)\n"),
    # ---- TopoART
    ("TopoART.validate_params: beta >= beta_lower made strict", "bound made strict", To,
     'assert params["beta"] >= params["beta_lower"]', 'assert params["beta"] > params["beta_lower"]'),
    ("TopoART.validate_params: phi <= tau made strict", "bound made strict", To,
     'assert params["phi"] <= params["tau"]', 'assert params["phi"] < params["tau"]'),
    ("TopoART.validate_params: tau may be a float", "changed type", To,
     'assert isinstance(params["tau"], int)', 'assert isinstance(params["tau"], float)'),
    ("TopoART.__init__: tau and phi stored under each other's name", "swapped operands", To,
     '**{"beta_lower": beta_lower, "tau": tau, "phi": phi}', '**{"beta_lower": beta_lower, "tau": phi, "phi": tau}'),
    ("TopoART.__init__: isinstance(base_module, BaseART) dropped", "dropped assert", To,
     "        assert isinstance(base_module, BaseART)\n", ""),
    # ---- CVIART
    ("CVIART.validate_params: the base module's checks no longer run", "dropped statement", Cv,
     "        self.base_module.validate_params(params)\n", ""),
    ("CVIART: CALINSKIHARABASZ = 0", "changed constant", Cv,
     "    CALINSKIHARABASZ = 1\n", "    CALINSKIHARABASZ = 0\n"),
    ("CVIART.__init__: validity stored under another name", "changed key", Cv,
     'params = dict(base_module.params, **{"validity": validity})', 'params = dict(base_module.params, **{"validity_": validity})'),
    # ---- iCVIFuzzyART
    ("iCVIFuzzyART.__init__: offline no longer stored (the former finding F21-iCVIFuzzyART)", "dropped statement", Ic,
     '        self.params["offline"] = offline\n', ""),
    ("iCVIFuzzyART.__init__: default offline=False", "changed constant", Ic,
     "offline: bool = True", "offline: bool = False"),
    # ---- BaseART, as the compound classes run it
    ("BaseART.set_params: validation dropped", "dropped statement", B,
     "        self.validate_params(local_params)\n", ""),
    ("BaseART.__setattr__: redirect condition inverted", "changed condition", B,
     'if key in self.__dict__.get("params", {}):', 'if key not in self.__dict__.get("params", {}):'),
]


def lean_env():
    lp = subprocess.run(["lake", "env", "printenv", "LEAN_PATH"], cwd=LEAN, capture_output=True, text=True, check=True).stdout.strip()
    lean = subprocess.run(["lake", "env", "sh", "-c", "command -v lean"], cwd=LEAN, capture_output=True, text=True,
                          check=True).stdout.strip().splitlines()[-1]
    return lean, lp.splitlines()[-1]


def fresh_tree(root: Path):
    if root.exists():
        shutil.rmtree(root)
    for rel in q2trans.FILES.values():
        (root / rel).parent.mkdir(parents=True, exist_ok=True)
        shutil.copy(REPO / rel, root / rel)


def check(root: Path, work: Path, lean: str, lp: str):
    """-> (verdict, detail): "pass" | "translator failed closed" | "proof build broke" """
    try:
        text = q2trans.generate(root)
    except (Unsupported, SyntaxError, KeyError, AttributeError, TypeError, IndexError, ValueError) as e:
        return "translator failed closed", f"{type(e).__name__}: {e}"
    src, out = work / "src" / "ArtGen", work / "out" / "ArtGen"
    src.mkdir(parents=True, exist_ok=True)
    out.mkdir(parents=True, exist_ok=True)
    (src / "Params2.lean").write_text(text)
    # Lean resolves the root `ArtGen` to the first LEAN_PATH entry that has it: the other generated modules that the
    # proof file imports (ArtGen.Params, through ArtGenProofs.ParamsSpec) are linked next to the scratch Params2
    for d in lp.split(":"):
        built = Path(d) / "ArtGen"
        if built.is_dir():
            for f in built.iterdir():
                if not f.name.startswith("Params2.") and not (out / f.name).exists():
                    os.symlink(f, out / f.name)
            break
    env = dict(os.environ, LEAN_PATH=lp)
    p = subprocess.run([lean, f"--root={work / 'src'}", "-o", str(out / "Params2.olean"), str(src / "Params2.lean")],
                       cwd=work / "src", env=env, capture_output=True, text=True, timeout=600)
    if p.returncode != 0:
        return "proof build broke", "the generated file does not elaborate: " + (p.stdout + p.stderr).strip().split("\n")[0][:160]
    env = dict(os.environ, LEAN_PATH=f"{work / 'out'}:{lp}")
    try:
        p = subprocess.run([lean, "ArtGenProofs/Params2Spec.lean"], cwd=LEAN, env=env, capture_output=True, text=True, timeout=600)
    except subprocess.TimeoutExpired:
        return "proof build broke", "the proof file did not check within 600 s"
    errs = [l for l in (p.stdout + p.stderr).split("\n") if ": error" in l]
    if p.returncode != 0 or errs:
        first = errs[0] if errs else (p.stdout + p.stderr).strip().split("\n")[0]
        return "proof build broke", f"{len(errs)} error(s), first: {first[:160]}"
    return "pass", ""


def main():
    keep = "--keep" in sys.argv
    lean, lp = lean_env()
    ok = True
    try:
        root, work = SCRATCH / "repo", SCRATCH / "lean"
        fresh_tree(root)
        v, d = check(root, work, lean, lp)
        committed = (LEAN / "ArtGen" / "Params2.lean").read_text() == q2trans.generate(root)
        print(f"[{'ok' if v == 'pass' and committed else 'FAIL'}] unmutated source: {v} {d}; committed ArtGen/Params2.lean "
              f"{'is' if committed else 'IS NOT'} what the translator produces", flush=True)
        ok &= v == "pass" and committed
        for name, kind, rel, old, new in MUTATIONS:
            fresh_tree(root)
            text = (root / rel).read_text()
            if text.count(old) != 1:
                print(f"[FAIL] {name}: the text to mutate occurs {text.count(old)} times in {rel}", flush=True)
                ok = False
                continue
            (root / rel).write_text(text.replace(old, new))
            v, d = check(root, work, lean, lp)
            det = v != "pass"
            ok &= det
            print(f"[{'detected' if det else 'MISSED'}] {name} ({kind}; {rel.split('/')[-1]}): {v} — {d}", flush=True)
    finally:
        if not keep:
            shutil.rmtree(SCRATCH, ignore_errors=True)
    print("SELFTEST", "PASSED" if ok else "FAILED")
    return 0 if ok else 1


if __name__ == "__main__":
    sys.exit(main())
