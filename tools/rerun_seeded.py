#!/usr/bin/env python3
"""Re-run every seeded change under seeded/ against the checks named in its meta.json and refresh the
recorded outcome (tools/rerun_seeded.py [id …]).  Runs four at a time."""
import json, subprocess, sys, re
from concurrent.futures import ThreadPoolExecutor
from pathlib import Path
V = Path(__file__).resolve().parents[1]
S = V / "seeded"
ids = sys.argv[1:] or sorted(d.name for d in S.iterdir() if d.is_dir())

def props_of(meta):
    if meta.get("props"):
        return meta["props"]
    toks = meta["ran"].replace("(", " ").split()
    out = []
    for t in toks[3:]:
        if re.fullmatch(r"C\d\d", t):
            out.append(t)
        elif out:
            break
    return out

def one(i):
    d = S / i
    meta = json.loads((d / "meta.json").read_text())
    props = props_of(meta)
    r = subprocess.run([sys.executable, str(V / "tools" / "try_mutant.py"), str(d), i] + props, capture_output=True, text=True)
    try:
        res = json.loads(r.stdout)
    except Exception:
        return i, "ERROR " + (r.stdout + r.stderr)[-300:]
    meta["props"] = props
    meta["confirmed"] = {"patch_applies_to_repo_HEAD": res.get("patch_applies"), "demo_rc_unmodified": res.get("demo_unmodified_rc"),
                         "demo_rc_modified": res.get("demo_modified_rc"), "unit_tests_modified": res.get("pytest")}
    meta["checks"] = {k: {"rc": v["rc"], "violation": v["violations"][:1], "first_issue": v["issues"][:1]} for k, v in res.get("checks", {}).items()}
    meta["ran"] = "tools/try_mutant.py seeded/%s %s %s" % (i, i, " ".join(props))
    (d / "meta.json").write_text(json.dumps(meta, indent=1))
    return i, {k: v["rc"] for k, v in res.get("checks", {}).items()}

with ThreadPoolExecutor(4) as ex:
    for i, out in ex.map(one, ids):
        print(i, out)
