#!/venv/bin/python
"""Self-test of the fit_gif translator tie (harness/artv/gftrans.py + lean/ArtGenProofs/FitGifSpec.lean).

Copies `artlib/common/BaseART.py` to a scratch repo under /tmp, applies semantic one-statement mutations to
`BaseART.fit_gif` (and a few to `fit`, the hooks and `step_fit`, which the tie also reads), and for each
  1. runs `gftrans.generate` on the scratch repo             -> `Unsupported` = the translator FAILED CLOSED (detected);
  2. otherwise compiles the generated text as module `ArtGen.FitGif` into a scratch search-path root under /tmp (the
     project's `lean/ArtGen/FitGif.lean` and `.lake` are never touched) and elaborates `ArtGenProofs/FitGifSpec.lean`
     against it                                              -> an error = the PROOF BROKE (detected).
The unmutated source must pass both steps and regenerate `lean/ArtGen/FitGif.lean` byte for byte.
Exit code 0 iff every mutation is detected and the unmutated source passes.
"""
from __future__ import annotations

import os
import shutil
import subprocess
import sys
import tempfile
from pathlib import Path

VERIF = Path(__file__).resolve().parents[1]
sys.path.insert(0, str(VERIF / "harness"))
from artv import gftrans                    # noqa: E402
from artv.ktrans import Unsupported         # noqa: E402

REPO = Path(os.environ.get("VERIF_REPO", "/repo"))
LEAN = VERIF / "lean"
SPEC = LEAN / "ArtGenProofs" / "FitGifSpec.lean"
REL = gftrans.BASE_FILE

# (name, kind, old text, new text) — `old` must occur exactly once in BaseART.py.  Inside `with writer.saving(…):` the
# statements of fit_gif are indented four columns deeper than their twins in fit, which makes the texts unique.
MUTATIONS = [
    ("fit_gif: epsilon no longer forwarded to step_fit (seeded C01m)", "dropped argument",
     "                        match_tracking=match_tracking,\n                        epsilon=epsilon,\n",
     "                        match_tracking=match_tracking,\n"),
    ("fit_gif: step_fit called with **step_kwargs (seeded C01m, as written)", "dropped argument",
     "                    c = self.step_fit(\n                        x,\n                        match_reset_func=match_reset_func,\n"
     "                        match_tracking=match_tracking,\n                        epsilon=epsilon,\n                    )\n",
     "                    c = self.step_fit(x, **dict(match_reset_func=match_reset_func, match_tracking=match_tracking))\n"),
    ("fit_gif: post_step_fit moved before `self.labels_[i] = c` (seeded C14m)", "reordered effect",
     "                    self.labels_[i] = c\n                    self.post_step_fit(X)\n",
     "                    self.post_step_fit(X)\n                    self.labels_[i] = c\n"),
    ("fit_gif: the counter resets removed (F45 re-introduced)", "dropped statement",
     "        self.W = []\n        self.weight_sample_counter_ = []\n        self.sample_counter_ = 0\n",
     "        self.W = []\n"),
    ("fit_gif: only the sample counter reset removed", "dropped statement",
     "        self.weight_sample_counter_ = []\n        self.sample_counter_ = 0\n        self.labels_ = -np.ones",
     "        self.weight_sample_counter_ = []\n        self.labels_ = -np.ones"),
    ("fit_gif: label stored one row further up (`self.labels_[i - 1] = c`)", "off-by-one",
     "\n                    self.labels_[i] = c\n", "\n                    self.labels_[i - 1] = c\n"),
    ("fit_gif: label stored one row further down", "off-by-one",
     "\n                    self.labels_[i] = c\n", "\n                    self.labels_[i + 1] = c\n"),
    ("fit_gif: post_fit moved inside the epoch loop", "reordered effect",
     "                    writer.grab_frame()\n            self.post_fit(X)\n",
     "                    writer.grab_frame()\n                self.post_fit(X)\n"),
    ("fit_gif: post_fit never called", "dropped statement",
     "                    writer.grab_frame()\n            self.post_fit(X)\n", "                    writer.grab_frame()\n"),
    ("fit_gif: pre_step_fit never called", "dropped statement",
     "                    self.pre_step_fit(X)\n", ""),
    ("fit_gif: W is not reset", "dropped statement",
     "        self.W = []\n        self.weight_sample_counter_ = []\n        self.sample_counter_ = 0\n        self.labels_ = -np.ones",
     "        pass\n        self.weight_sample_counter_ = []\n        self.sample_counter_ = 0\n        self.labels_ = -np.ones"),
    ("fit_gif: one epoch too many", "off-by-one",
     "\n            for _ in range(max_iter):", "\n            for _ in range(max_iter + 1):"),
    ("fit_gif: the match-tracking mode is not forwarded (constant instead)", "changed argument",
     "                        match_tracking=match_tracking,\n                        epsilon=epsilon,\n",
     '                        match_tracking="MT+",\n                        epsilon=epsilon,\n'),
    ("fit_gif: the reset function is not forwarded", "changed argument",
     "                        match_reset_func=match_reset_func,\n                        match_tracking=match_tracking,\n                        epsilon",
     "                        match_reset_func=None,\n                        match_tracking=match_tracking,\n                        epsilon"),
    ("fit_gif: labels_ allocated one entry short of … one entry too long", "off-by-one",
     "self.labels_ = -np.ones((X.shape[0],), dtype=int)", "self.labels_ = -np.ones((X.shape[0] + 1,), dtype=int)"),
    ("fit_gif: labels_ started from +1", "changed constant",
     "self.labels_ = -np.ones((X.shape[0],), dtype=int)", "self.labels_ = np.ones((X.shape[0],), dtype=int)"),
    ("fit_gif: a drawing statement replaced by a mutation of the estimator", "added effect",
     "                    ax.clear()\n", "                    self.W.clear()\n"),
    ("fit_gif: the `colors` default block re-binds a training variable", "added effect",
     "            colors = np.vstack((colors, black))  # Add black at the end\n",
     "            colors = np.vstack((colors, black))  # Add black at the end\n            epsilon = 0.5\n"),
    ("fit_gif: the `filename` default block writes an attribute", "added effect",
     '            filename = f"fit_gif_{self.__class__.__name__}.gif"\n',
     '            filename = f"fit_gif_{self.__class__.__name__}.gif"\n            self.sample_counter_ = 0\n'),
    ("fit_gif: a plotting call receives the result of a training call", "added effect",
     "                    writer.grab_frame()\n", "                    writer.grab_frame(self.step_fit(x))\n"),
    ("fit_gif: visualize receives the result of a training call", "added effect",
     "self.visualize(X, self.labels_, ax, colors=colors, **kwargs)", "self.visualize(X, self.partial_fit(X), ax, colors=colors, **kwargs)"),
    ("fit_gif: a training statement reads a plotting local", "changed argument",
     "                        match_tracking=match_tracking,\n                        epsilon=epsilon,\n",
     "                        match_tracking=match_tracking,\n                        epsilon=fps,\n"),
    ("fit: post_step_fit dropped from fit (fit_gif is no longer its twin)", "dropped statement",
     "                self.labels_[i] = c\n                self.post_step_fit(X)\n        self.post_fit(X)",
     "                self.labels_[i] = c\n        self.post_fit(X)"),
    ("BaseART.post_step_fit gets a body (the hooks are no longer the identity)", "added effect",
     "        # this is where pruning steps can go\n        pass\n\n    def post_fit(",
     "        self.sample_counter_ += 1\n\n    def post_fit("),
    ("step_fit writes labels_ (the view without labels_ is no longer faithful)", "added effect",
     "        self.sample_counter_ += 1\n        base_params = self._deep_copy_params()",
     "        self.sample_counter_ += 1\n        self.labels_ = self.labels_\n        base_params = self._deep_copy_params()"),
]


INFRA = ("object file", "unknown module prefix", "unknown package", "failed to read")


def lean_env() -> dict:
    out = subprocess.run(["lake", "env", "printenv", "LEAN_PATH"], cwd=LEAN, capture_output=True, text=True)
    path = [l for l in out.stdout.splitlines() if l and not l.startswith("WARNING")][-1]
    lean = subprocess.run(["lake", "env", "which", "lean"], cwd=LEAN, capture_output=True, text=True)
    exe = [l for l in lean.stdout.splitlines() if l and not l.startswith("WARNING")][-1]
    return {"LEAN_PATH": path, "LEAN": exe}


def first_error(log: str) -> str:
    for line in log.splitlines():
        if "error" in line:
            return line.strip()[:170]
    return log.strip()[:170]


def check_proofs(text: str, work: Path, env: dict) -> tuple[bool, str]:
    """compile `text` as ArtGen.FitGif under work/out, then elaborate the spec file against it"""
    src = work / "src" / "ArtGen"
    out = work / "out"
    shutil.rmtree(src.parent, ignore_errors=True)
    shutil.rmtree(out, ignore_errors=True)
    src.mkdir(parents=True)
    (out / "ArtGen").mkdir(parents=True)
    # the other generated modules (ArtGen.Control, and ArtGen.Kernels through ControlFit) must be reachable under the
    # same search-path root
    built = LEAN / ".lake" / "build" / "lib" / "lean" / "ArtGen"
    for f in built.iterdir():
        if f.is_file() and not f.name.startswith("FitGif."):
            shutil.copy2(f, out / "ArtGen" / f.name)
    (src / "FitGif.lean").write_text(text)
    e = dict(os.environ, LEAN_PATH=str(out) + ":" + env["LEAN_PATH"])
    r = subprocess.run([env["LEAN"], "-o", str(out / "ArtGen" / "FitGif.olean"), "-i", str(out / "ArtGen" / "FitGif.ilean"),
                        "ArtGen/FitGif.lean"], cwd=src.parent, env=e, capture_output=True, text=True)
    if r.returncode != 0:
        return False, "generated file does not compile: " + first_error(r.stdout + r.stderr)
    r = subprocess.run([env["LEAN"], str(SPEC)], cwd=LEAN, env=e, capture_output=True, text=True)
    if r.returncode != 0:
        return False, first_error(r.stdout + r.stderr)
    return True, "all proofs check"


def main() -> int:
    work = Path(tempfile.mkdtemp(prefix="gftrans_selftest_", dir="/tmp"))
    ok = True
    try:
        env = lean_env()
        subprocess.run(["lake", "build", "ArtModel.ImpFitGif", "ArtGen.Control", "ArtGenProofs.ControlFit", "ArtProofs.Fit"],
                       cwd=LEAN, capture_output=True)
        scratch = work / "repo"
        (scratch / REL).parent.mkdir(parents=True, exist_ok=True)
        shutil.copy2(REPO / REL, scratch / REL)
        original = (scratch / REL).read_text()

        text = gftrans.generate(scratch)
        committed = (LEAN / "ArtGen" / "FitGif.lean").read_text()
        same = text == committed
        good, msg = check_proofs(text, work, env)
        if not good:        # other slices build in the same project concurrently: an .olean may have been half-written
            good, msg = check_proofs(text, work, env)
        print(f"[{'ok' if good and same else 'FAIL'}] unmutated source: {msg}; "
              f"lean/ArtGen/FitGif.lean {'is' if same else 'IS NOT'} what the translator generates")
        ok &= good and same

        for name, kind, old, new in MUTATIONS:
            path = scratch / REL
            if original.count(old) != 1:
                print(f"[FAIL] {name}: the text to mutate occurs {original.count(old)} times in {REL}")
                ok = False
                continue
            path.write_text(original.replace(old, new))
            try:
                text = gftrans.generate(scratch)
            except (Unsupported, SyntaxError, KeyError, AttributeError, TypeError, IndexError) as e:
                print(f"[detected] {name} ({kind}): translator failed closed — {type(e).__name__}: {str(e)[:120]}")
                continue
            finally:
                path.write_text(original)
            good, msg = check_proofs(text, work, env)
            if not good and any(t in msg for t in INFRA):          # not a verdict about the mutation
                good, msg = check_proofs(text, work, env)
            if not good and any(t in msg for t in INFRA):
                print(f"[FAIL] {name}: could not run the proof build — {msg}")
                ok = False
                continue
            if good:
                print(f"[MISSED] {name} ({kind}): the mutated source still satisfies every proof obligation")
                ok = False
            else:
                print(f"[detected] {name} ({kind}): proof build broke — {msg}")
        # ctrans must be left exactly as it was found
        from artv import ctrans
        restored = ctrans.NAMESPACE == "Art.Gen.BaseART" and ctrans.ext.__module__ == "artv.ctrans" \
            and ctrans.tr_block.__module__ == "artv.ctrans" and ctrans.SELF_TY == "Art.Imp.Self Wt P" \
            and ctrans.TRANSLATED == ["step_fit", "step_pred", "predict", "partial_fit", "fit"] \
            and ctrans.SELF_TYPES["labels_"] == ("list", "Nat") and not hasattr(ctrans, "GUARD_FUNCS_") \
            and ctrans.GUARD_FUNCS == {"check_is_fitted"}
        print(f"[{'ok' if restored else 'FAIL'}] ctrans profile and dispatchers restored after generate")
        ok &= restored
    finally:
        shutil.rmtree(work, ignore_errors=True)
    print("SELFTEST " + ("PASSED" if ok else "FAILED"))
    return 0 if ok else 1


if __name__ == "__main__":
    sys.exit(main())
