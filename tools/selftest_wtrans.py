#!/venv/bin/python
"""Self-test of the whole-call translator tie (harness/artv/wtrans.py + lean/ArtGenProofs/WholeSpec.lean).

Copies `artlib/common/BaseART.py`, `artlib/topological/DualVigilanceART.py` and `artlib/topological/TopoART.py` to a
scratch repo under /tmp, applies semantic one-statement mutations to the translated functions (the inherited
`fit` / `partial_fit` / `predict` bodies, the wrappers' properties, the method table of the wrappers), and for each
  1. runs `wtrans.generate` on the scratch repo              -> `Unsupported` = the translator FAILED CLOSED (detected);
  2. otherwise compiles the generated text as module `ArtGen.Whole` into a scratch search-path root under /tmp (the
     project's `lean/ArtGen/Whole.lean` and `.lake` are never touched) and elaborates `ArtGenProofs/WholeSpec.lean`
     against it                                              -> an error = the PROOF BROKE (detected).
The unmutated source must pass both steps and regenerate `lean/ArtGen/Whole.lean` byte for byte.
Exit code 0 iff every mutation is detected and the unmutated source passes.
"""
from __future__ import annotations

import os
import shutil
import subprocess
import sys
import tempfile
from pathlib import Path

VERIF = Path(__file__).resolve().parents[1]
sys.path.insert(0, str(VERIF / "harness"))
from artv import wtrans                     # noqa: E402
from artv.ktrans import Unsupported         # noqa: E402

REPO = Path(os.environ.get("VERIF_REPO", "/repo"))
LEAN = VERIF / "lean"
SPEC = LEAN / "ArtGenProofs" / "WholeSpec.lean"
B, D, T = "BaseART", "DualVigilanceART", "TopoART"

# (name, kind, class whose file is mutated, old text, new text) — `old` must occur exactly once in that file
MUTATIONS = [
    ("fit: sample counter reset to 1", "changed constant", B,
     "        self.sample_counter_ = 0\n        self.labels_ = np.zeros", "        self.sample_counter_ = 1\n        self.labels_ = np.zeros"),
    ("fit: the per-category counters are not reset (F03 / F34 re-introduced)", "dropped statement", B,
     "        self.weight_sample_counter_ = []\n        self.sample_counter_ = 0\n        self.labels_ = np.zeros", "        self.sample_counter_ = 0\n        self.labels_ = np.zeros"),
    ("fit: W is not reset", "dropped statement", B,
     "        self.W: List[np.ndarray] = []\n", "        pass\n"),
    ("fit: one epoch too many", "off-by-one", B,
     "\n        for _ in range(max_iter):", "\n        for _ in range(max_iter + 1):"),
    ("fit: label stored one row further down", "off-by-one", B,
     "                self.labels_[i] = c\n                self.post_step_fit(X)",
     "                self.labels_[i + 1] = c\n                self.post_step_fit(X)"),
    ("fit: post_step_fit (pruning) runs before the label is stored", "reordered effect", B,
     "                self.labels_[i] = c\n                self.post_step_fit(X)",
     "                self.post_step_fit(X)\n                self.labels_[i] = c"),
    ("fit: post_step_fit is never called (TopoART would never prune)", "dropped statement", B,
     "                self.labels_[i] = c\n                self.post_step_fit(X)",
     "                self.labels_[i] = c"),
    ("fit: labels_ allocated one entry short", "off-by-one", B,
     "        self.labels_ = np.zeros((X.shape[0],), dtype=int)\n        for _ in range(max_iter):",
     "        self.labels_ = np.zeros((X.shape[0] + 1,), dtype=int)\n        for _ in range(max_iter):"),
    ("partial_fit: label written at i instead of i + j", "dropped offset", B,
     "self.labels_[i + j] = c", "self.labels_[i] = c"),
    ("partial_fit: hasattr test inverted", "changed condition", B,
     'if not hasattr(self, "W"):', 'if hasattr(self, "W"):'),
    ("partial_fit: labels_ padded by one entry too many", "off-by-one", B,
     'np.pad(self.labels_, [(0, X.shape[0])], mode="constant")', 'np.pad(self.labels_, [(0, X.shape[0] + 1)], mode="constant")'),
    ("partial_fit: offset read after the padding", "reordered effect", B,
     '            j = len(self.labels_)\n            self.labels_ = np.pad(self.labels_, [(0, X.shape[0])], mode="constant")',
     '            self.labels_ = np.pad(self.labels_, [(0, X.shape[0])], mode="constant")\n            j = len(self.labels_)'),
    ("partial_fit: calls the pruning hook (F11 'repaired' — the theorem states what the code does)", "added statement", B,
     "            self.labels_[i + j] = c\n", "            self.labels_[i + j] = c\n            self.post_step_fit(X)\n"),
    ("predict: prediction stored one row further down", "off-by-one", B,
     "            y[i] = c\n", "            y[i + 1] = c\n"),
    ("predict: trains instead of predicting (step_fit for step_pred)", "swapped callee", B,
     "            c = self.step_pred(x)\n", "            c = self.step_fit(x)\n"),
    ("DualVigilanceART.weight_sample_counter_ setter writes the wrapper (F34 re-introduced)", "changed target", D,
     "        self.base_module.weight_sample_counter_ = new_counter", "        self.wrapper_counter_ = new_counter"),
    ("DualVigilanceART.labels_ getter reads another array", "changed source", D,
     "        return self.base_module.labels_", "        return self.base_module.labels_.copy()"),
    ("DualVigilanceART.W setter clears the map as well", "added effect", D,
     "        self.base_module.W = new_W", "        self.base_module.W = new_W\n        self.map = dict()"),
    ("DualVigilanceART gains its own post_step_fit hook", "changed method lookup", D,
     "    def step_pred(self, x) -> int:", "    def post_step_fit(self, X):\n        self.map = dict()\n\n    def step_pred(self, x) -> int:"),
    ("TopoART.W setter no longer writes the base module", "changed target", T,
     "        self.base_module.W = new_W", "        self._W = new_W"),
    ("TopoART no longer overrides post_step_fit (renamed): BaseART's no-op would run", "changed method lookup", T,
     "    def post_step_fit(self, X: np.ndarray):", "    def post_step_fit_(self, X: np.ndarray):"),
    ("TopoART overrides pre_step_fit", "changed method lookup", T,
     "    def post_step_fit(self, X: np.ndarray):",
     "    def pre_step_fit(self, X: np.ndarray):\n        self.sample_counter_ += 1\n\n    def post_step_fit(self, X: np.ndarray):"),
    ("TopoART gains a labels_ property that delegates to the base module", "changed attribute lookup", T,
     "    def validate_data(self, X: np.ndarray):",
     "    @property\n    def labels_(self):\n        return self.base_module.labels_\n\n"
     "    @labels_.setter\n    def labels_(self, v):\n        self.base_module.labels_ = v\n\n    def validate_data(self, X: np.ndarray):"),
]


def lean_env() -> dict:
    out = subprocess.run(["lake", "env", "printenv", "LEAN_PATH"], cwd=LEAN, capture_output=True, text=True)
    path = [l for l in out.stdout.splitlines() if l and not l.startswith("WARNING")][-1]
    lean = subprocess.run(["lake", "env", "which", "lean"], cwd=LEAN, capture_output=True, text=True)
    exe = [l for l in lean.stdout.splitlines() if l and not l.startswith("WARNING")][-1]
    return {"LEAN_PATH": path, "LEAN": exe}


def check_proofs(text: str, work: Path, env: dict) -> tuple[bool, str]:
    """compile `text` as ArtGen.Whole under work/out, then elaborate the spec file against it"""
    src = work / "src" / "ArtGen"
    out = work / "out"
    shutil.rmtree(src.parent, ignore_errors=True)
    shutil.rmtree(out, ignore_errors=True)
    src.mkdir(parents=True)
    (out / "ArtGen").mkdir(parents=True)
    # the other generated modules (ArtGen.Dual, ArtGen.Topo …) must be reachable under the same search-path root
    built = LEAN / ".lake" / "build" / "lib" / "lean" / "ArtGen"
    for f in built.iterdir():
        if f.is_file() and not f.name.startswith("Whole."):
            shutil.copy2(f, out / "ArtGen" / f.name)
    (src / "Whole.lean").write_text(text)
    e = dict(os.environ, LEAN_PATH=str(out) + ":" + env["LEAN_PATH"])
    r = subprocess.run([env["LEAN"], "-o", str(out / "ArtGen" / "Whole.olean"), "-i", str(out / "ArtGen" / "Whole.ilean"),
                        "ArtGen/Whole.lean"], cwd=src.parent, env=e, capture_output=True, text=True)
    if r.returncode != 0:
        return False, "generated file does not compile: " + first_error(r.stdout + r.stderr)
    r = subprocess.run([env["LEAN"], str(SPEC)], cwd=LEAN, env=e, capture_output=True, text=True)
    if r.returncode != 0:
        return False, first_error(r.stdout + r.stderr)
    return True, "all proofs check"


def first_error(log: str) -> str:
    for line in log.splitlines():
        if "error" in line:
            return line.strip()[:160]
    return log.strip()[:160]


def main() -> int:
    work = Path(tempfile.mkdtemp(prefix="wtrans_selftest_", dir="/tmp"))
    ok = True
    try:
        env = lean_env()
        subprocess.run(["lake", "build", "ArtGen", "ArtModel.ImpWhole", "ArtGenProofs.DualSpec", "ArtGenProofs.TopoSpec",
                        "ArtGenProofs.TopoStepSpec", "ArtGenProofs.ControlFit", "ArtProps.C13", "ArtProps.C14"],
                       cwd=LEAN, capture_output=True)
        scratch = work / "repo"
        for rel in wtrans.FILES.values():
            (scratch / rel).parent.mkdir(parents=True, exist_ok=True)
            shutil.copy2(REPO / rel, scratch / rel)
        originals = {c: (scratch / rel).read_text() for c, rel in wtrans.FILES.items()}

        text = wtrans.generate(scratch)
        committed = (LEAN / "ArtGen" / "Whole.lean").read_text()
        same = text == committed
        good, msg = check_proofs(text, work, env)
        if not good:        # other slices build in the same project concurrently: an .olean may have been half-written
            good, msg = check_proofs(text, work, env)
        print(f"[{'ok' if good and same else 'FAIL'}] unmutated source: {msg}; "
              f"lean/ArtGen/Whole.lean {'is' if same else 'IS NOT'} what the translator generates")
        ok &= good and same

        for name, kind, cls, old, new in MUTATIONS:
            original, path = originals[cls], scratch / wtrans.FILES[cls]
            if original.count(old) != 1:
                print(f"[FAIL] {name}: the text to mutate occurs {original.count(old)} times in {wtrans.FILES[cls]}")
                ok = False
                continue
            path.write_text(original.replace(old, new))
            try:
                text = wtrans.generate(scratch)
            except (Unsupported, SyntaxError, KeyError, AttributeError, TypeError, IndexError) as e:
                print(f"[detected] {name} ({kind}): translator failed closed — {type(e).__name__}: {str(e)[:120]}")
                continue
            finally:
                path.write_text(original)
            good, msg = check_proofs(text, work, env)
            if good:
                print(f"[MISSED] {name} ({kind}): the mutated source still satisfies every proof obligation")
                ok = False
            else:
                print(f"[detected] {name} ({kind}): proof build broke — {msg}")
        # ctrans must be left exactly as it was found
        from artv import ctrans
        restored = ctrans.NAMESPACE == "Art.Gen.BaseART" and ctrans.ext.__module__ == "artv.ctrans" \
            and ctrans.tr_block.__module__ == "artv.ctrans" and ctrans.SELF_TY == "Art.Imp.Self Wt P" \
            and ctrans.TRANSLATED == ["step_fit", "step_pred", "predict", "partial_fit", "fit"]
        print(f"[{'ok' if restored else 'FAIL'}] ctrans profile and dispatchers restored after generate")
        ok &= restored
    finally:
        shutil.rmtree(work, ignore_errors=True)
    print("SELFTEST " + ("PASSED" if ok else "FAILED"))
    return 0 if ok else 1


if __name__ == "__main__":
    sys.exit(main())
