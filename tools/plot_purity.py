#!/usr/bin/env python3
"""Purity obligation for the plotting code (visualize, plot_*, artlib/common/visualization.py).

No translator reads the plotting functions (DESIGN §5), and every theorem about a history that contains a plotting call —
`fit_gif` = `fit` (gftrans drops `self.visualize(...)`), "read-only operations interleaved anywhere change nothing" (C06),
the accessor clauses of C07 / C08 — assumes they change neither the estimator nor their arguments.  This obligation makes
that assumption checkable at the source level: every statement of a plotting function through which state could escape —
a store whose target is a subscript or an attribute, any augmented assignment (in place on an ndarray), a `del`, a call of a mutating method
(`append`, `update`, `sort`, …) or of `setattr` — is listed with its source text, and the list is compared with the
committed snapshot `lean/obligations/plot_purity.json` on every run.  A statement that is not in the snapshot breaks the
obligation (reported by every check's audit as `plot-purity: …`); it is not a violation by itself.

    tools/plot_purity.py [repo]            print the difference (exit 1 if any)
    tools/plot_purity.py --snapshot [repo] rewrite the snapshot from the current source
"""
import ast
import json
import sys
from pathlib import Path

VERIF = Path(__file__).resolve().parents[1]
SNAPSHOT = VERIF / "lean" / "obligations" / "plot_purity.json"
MUTATORS = {"append", "extend", "insert", "remove", "pop", "clear", "sort", "reverse", "update", "setdefault", "popitem",
            "fill", "resize", "put", "itemset", "partition", "setflags", "__setitem__", "__setattr__", "add", "discard"}
PLOT_OBJECTS = {"ax", "fig", "plt", "axes", "cbar", "writer", "line", "patch", "rect", "ellipse", "circle", "poly"}


def is_plotting(name: str) -> bool:
    return name == "visualize" or name.startswith("plot_") or name == "get_2d_ellipsoids"


def _root(e):
    while isinstance(e, (ast.Attribute, ast.Subscript, ast.Call)):
        e = e.func if isinstance(e, ast.Call) else e.value
    return e.id if isinstance(e, ast.Name) else None


def escapes(fn: ast.FunctionDef) -> list[str]:
    out = []
    for n in ast.walk(fn):
        if isinstance(n, (ast.Assign, ast.AnnAssign, ast.AugAssign)):
            targets = n.targets if isinstance(n, ast.Assign) else [n.target]
            flat = []
            for t in targets:
                flat += list(t.elts) if isinstance(t, (ast.Tuple, ast.List)) else [t]
            if any(isinstance(t, (ast.Subscript, ast.Attribute, ast.Starred)) for t in flat):
                out.append("store: " + ast.unparse(n))
            elif isinstance(n, ast.AugAssign):
                # `v *= c` on a plain name is in place when v is an ndarray — possibly a view of a weight
                out.append("in-place: " + ast.unparse(n))
        elif isinstance(n, ast.Delete):
            out.append("del: " + ast.unparse(n))
        elif isinstance(n, ast.Call):
            f = n.func
            if isinstance(f, ast.Name) and f.id in ("setattr", "delattr", "exec", "eval"):
                out.append("call: " + ast.unparse(n))
            elif isinstance(f, ast.Attribute) and f.attr in MUTATORS and _root(f.value) not in PLOT_OBJECTS:
                out.append("call: " + ast.unparse(n))
        elif isinstance(n, (ast.Global, ast.Nonlocal)):
            out.append("scope: " + ast.unparse(n))
    return sorted(out)


def surface(repo: Path) -> dict:
    res = {}
    root = Path(repo) / "artlib"
    for path in sorted(root.rglob("*.py")):
        rel = path.relative_to(repo).as_posix()
        if "/experimental/" in rel:
            continue
        tree = ast.parse(path.read_text())
        whole_file = rel.endswith("common/visualization.py")
        for node in ast.walk(tree):
            if isinstance(node, ast.ClassDef):
                for f in node.body:
                    if isinstance(f, ast.FunctionDef) and is_plotting(f.name):
                        res[f"{rel}::{node.name}.{f.name}"] = escapes(f)
        for f in tree.body:
            if isinstance(f, ast.FunctionDef) and (whole_file or is_plotting(f.name)):
                res[f"{rel}::{f.name}"] = escapes(f)
    return res


def diff(snap: dict, cur: dict) -> list[str]:
    out = []
    for k in sorted(set(snap) | set(cur)):
        if k not in snap:
            if cur[k]:
                out.append(f"new plotting function {k} with state-escaping statements {cur[k]}")
            continue
        if k not in cur:
            continue                       # a plotting function was removed: nothing can escape through it
        new = [s for s in cur[k] if s not in snap[k]]
        if new:
            out.append(f"{k} now contains " + " ; ".join(new))
    return out


if __name__ == "__main__":
    args = [a for a in sys.argv[1:] if not a.startswith("--")]
    repo = Path(args[0] if args else "/repo")
    if "--snapshot" in sys.argv:
        SNAPSHOT.write_text(json.dumps(surface(repo), indent=1, sort_keys=True) + "\n")
        print("wrote", SNAPSHOT)
        sys.exit(0)
    d = diff(json.loads(SNAPSHOT.read_text()), surface(repo))
    print("\n".join(d) if d else "plotting code: no new state-escaping statement")
    sys.exit(1 if d else 0)
