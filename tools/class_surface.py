#!/usr/bin/env python3
"""Which class overrides which inherited method (all of artlib except experimental/ and the plotting module).

The Lean models and the `generated = model` theorems are about named methods of named classes and silently assume the
inheritance structure around them: that GaussianART *inherits* BaseART.step_pred, that FusionART *overrides* `partial_fit`
but not `step_fit`, ...  A class that starts (or stops) overriding an inherited method changes what runs without touching
a single translated function.  This tool computes the override relation from the source text (ast, no import);
`--write` stores it as lean/obligations/class_surface.json, the checks compare the current source with that snapshot on
every run (framework.audit) and report a difference as a broken obligation.

    tools/class_surface.py [repo]            print the relation as JSON
    tools/class_surface.py --write [repo]    refresh the committed snapshot
"""
import ast
import json
import sys
from pathlib import Path

VERIF = Path(__file__).resolve().parents[1]
SNAPSHOT = VERIF / "lean" / "obligations" / "class_surface.json"
SKIP = ("experimental", "visualization.py")


def surface(repo) -> dict:
    root = Path(repo) / "artlib"
    classes = {}
    for f in sorted(root.rglob("*.py")):
        rel = f.relative_to(root).as_posix()
        if any(s in rel for s in SKIP):
            continue
        tree = ast.parse(f.read_text())
        for node in tree.body:
            if isinstance(node, ast.ClassDef):
                names = set()
                for st in node.body:
                    if isinstance(st, (ast.FunctionDef, ast.AsyncFunctionDef)):
                        names.add(st.name)
                    elif isinstance(st, ast.Assign):
                        names.update(t.id for t in st.targets if isinstance(t, ast.Name))
                    elif isinstance(st, ast.AnnAssign) and isinstance(st.target, ast.Name):
                        names.add(st.target.id)
                bases = [ast.unparse(b).split(".")[-1] for b in node.bases]
                classes[node.name] = {"file": rel, "bases": bases, "defines": names}

    def inherited(c, seen=()):
        out = set()
        for b in classes.get(c, {}).get("bases", []):
            if b in classes and b not in seen:
                out |= classes[b]["defines"] | inherited(b, seen + (c,))
        return out
    rel = {}
    for c, info in sorted(classes.items()):
        inh = inherited(c)
        rel[c] = {"file": info["file"], "bases": info["bases"],
                  "overrides": sorted(n for n in info["defines"] if n in inh and not (n.startswith("__") and n != "__init__" and n not in ("__getattr__", "__setattr__", "__getstate__", "__setstate__")))}
    return rel


def diff(old: dict, new: dict) -> list[str]:
    out = []
    for c in sorted(set(old) | set(new)):
        if c not in old:
            out.append(f"new class {c}({', '.join(new[c]['bases'])}) in {new[c]['file']} overriding {new[c]['overrides']}")
            continue
        if c not in new:
            out.append(f"class {c} no longer exists")
            continue
        if old[c]["bases"] != new[c]["bases"]:
            out.append(f"{c}: bases {old[c]['bases']} -> {new[c]['bases']}")
        a, b = set(old[c]["overrides"]), set(new[c]["overrides"])
        for n in sorted(b - a):
            out.append(f"{c} now overrides the inherited `{n}` (the model and the translated code assume the inherited one runs)")
        for n in sorted(a - b):
            out.append(f"{c} no longer overrides `{n}` (the inherited one now runs)")
    return out


if __name__ == "__main__":
    args = [a for a in sys.argv[1:] if not a.startswith("--")]
    repo = args[0] if args else "/repo"
    rel = surface(repo)
    if "--write" in sys.argv:
        SNAPSHOT.write_text(json.dumps(rel, indent=1, sort_keys=True) + "\n")
        print(f"wrote {SNAPSHOT} ({len(rel)} classes)")
    else:
        print(json.dumps(rel, indent=1, sort_keys=True))
