#!/venv/bin/python
"""Self-test of the FALCON translator tie (harness/artv/rtrans.py + lean/ArtGenProofs/FalconSpec.lean).

For the unmutated source and for each one-line semantic mutation of the translated Python functions
(artlib/reinforcement/FALCON.py, artlib/common/utils.py) this script
  1. copies the two source files to a scratch repo under /tmp and applies the mutation there,
  2. runs `rtrans.generate` on the scratch repo            -> "translator failed closed" if it raises Unsupported,
  3. compiles the generated text as module ArtGen.Falcon in a scratch directory (never in /verif/lean/ArtGen) and
     checks lean/ArtGenProofs/FalconSpec.lean against it with that directory first on LEAN_PATH
                                                             -> "proof build broke" if Lean reports an error.
Every mutation must be detected, the unmutated source must pass.  Exit code 0 iff so.  /tmp is cleaned afterwards.
"""
from __future__ import annotations

import os
import shutil
import subprocess
import sys
import tempfile
from pathlib import Path

VERIF = Path(__file__).resolve().parents[1]
LEAN = VERIF / "lean"
sys.path.insert(0, str(VERIF / "harness"))

from artv import rtrans  # noqa: E402
from artv.ktrans import Unsupported  # noqa: E402

REPO = Path(os.environ.get("VERIF_REPO", "/repo"))
F, U = rtrans.FILE, rtrans.UTILS

# (label, file, old text (must occur exactly once), new text)
MUTATIONS = [
    ("SARSA branch test off by one: len(states) > 1 -> > 2", F,
     "if len(states) > 1:", "if len(states) > 2:"),
    ("SARSA changed operator: ... * Q[1:] - Q[:-1] -> + Q[:-1]", F,
     "rewards_dcc[:-1] + self.td_lambda * Q[1:] - Q[:-1]", "rewards_dcc[:-1] + self.td_lambda * Q[1:] + Q[:-1]"),
    ("SARSA lost shift: td_lambda * Q[1:] -> td_lambda * Q[:-1]", F,
     "self.td_lambda * Q[1:]", "self.td_lambda * Q[:-1]"),
    ("SARSA swapped td_alpha / td_lambda", F,
     "sarsa_rewards = Q[:-1] + self.td_alpha * (", "sarsa_rewards = Q[:-1] + self.td_lambda * ("),
    ("clipping swapped: maximum(minimum(x, 1), 0) -> minimum(maximum(x, 1), 0)", F,
     "np.maximum(np.minimum(sarsa_rewards, 1.0), 0.0)", "np.minimum(np.maximum(sarsa_rewards, 1.0), 0.0)"),
    ("clipping statement dropped", F,
     "            sarsa_rewards = np.maximum(np.minimum(sarsa_rewards, 1.0), 0.0)\n", ""),
    ("kept states shifted: states[:-1, :] -> states[1:, :]", F,
     "states_fit = states[:-1, :]", "states_fit = states[1:, :]"),
    ("trained test reads another module: modules[0] -> modules[1]", F,
     'hasattr(self.fusion_art.modules[0], "W")', 'hasattr(self.fusion_art.modules[1], "W")'),
    ("trained / untrained branches swapped", F,
     'if hasattr(self.fusion_art.modules[0], "W"):', 'if not hasattr(self.fusion_art.modules[0], "W"):'),
    ("single sample: targets not complement coded", F,
     "sarsa_rewards_fit = compliment_code(np.array([[single_sample_reward]]))",
     "sarsa_rewards_fit = np.array([[single_sample_reward]])"),
    ("get_action: comparison changed == 'max' -> == 'min'", F,
     'if optimality == "max":', 'if optimality == "min":'),
    ("get_action: argmin replaced by argmax", F,
     "c_winner = np.argmin(rewards)", "c_winner = np.argmax(rewards)"),
    ("get_action: index off by one", F,
     "return action_space[c_winner]", "return action_space[c_winner + 1]"),
    ("get_rewards: predicts with another channel withheld", F,
     "C = self.fusion_art.predict(data, skip_channels=[2])", "C = self.fusion_art.predict(data, skip_channels=[1])"),
    ("get_rewards: reads the action centres", F,
     "        reward_centers = self.fusion_art.get_channel_centers(2)\n        data = self.fusion_art.join_channel_data([states, actions], skip_channels=[2])",
     "        reward_centers = self.fusion_art.get_channel_centers(1)\n        data = self.fusion_art.join_channel_data([states, actions], skip_channels=[2])"),
    ("get_actions_and_rewards: state and action swapped in the query", F,
     "[state.reshape(1, -1), action.reshape(1, -1)]", "[action.reshape(1, -1), state.reshape(1, -1)]"),
    ("get_actions_and_rewards: action space not prepared", F,
     "action_space_prepared = self.fusion_art.modules[1].prepare_data(action_space)",
     "action_space_prepared = action_space"),
    ("get_actions_and_rewards: last label instead of first (c[-1])", F,
     "viable_clusters.append(c[0])", "viable_clusters.append(c[-1])"),
    ("FALCON.fit: channels joined in another order", F,
     "        data = self.fusion_art.join_channel_data([states, actions, rewards])\n        self.fusion_art = self.fusion_art.fit(data)",
     "        data = self.fusion_art.join_channel_data([actions, states, rewards])\n        self.fusion_art = self.fusion_art.fit(data)"),
    ("FALCON.partial_fit calls fit (forgets what was learned)", F,
     "        self.fusion_art = self.fusion_art.partial_fit(data)\n        return self\n\n    def get_actions_and_rewards",
     "        self.fusion_art = self.fusion_art.fit(data)\n        return self\n\n    def get_actions_and_rewards"),
    ("TD partial_fit: trains on the raw rewards", F,
     "[states_fit, actions_fit, sarsa_rewards_fit]\n", "[states_fit, actions_fit, rewards]\n"),
    ("TD partial_fit: result of the nested partial_fit dropped", F,
     "        )\n        self.fusion_art = self.fusion_art.partial_fit(data)\n        return self",
     "        )\n        self.fusion_art.partial_fit(data)\n        return self"),
    ("compliment_code: halves in the other order", U,
     "cc_data = np.hstack([data, 1.0 - data])", "cc_data = np.hstack([1.0 - data, data])"),
    ("compliment_code: swapped operands data - 1.0", U,
     "cc_data = np.hstack([data, 1.0 - data])", "cc_data = np.hstack([data, data - 1.0])"),
    ("de_compliment_code: second half not flipped", U,
     "arr2 = 1 - data[:, m:]", "arr2 = data[:, m:]"),
    ("de_compliment_code: mean divides by 1", U,
     "mean_array = (arr1 + arr2) / 2", "mean_array = (arr1 + arr2) / 1"),
    ("de_compliment_code: split point off by one", U,
     "m = total_columns // 2", "m = total_columns // 2 + 1"),
]


def lean_env():
    def last(cmd):
        out = subprocess.run(cmd, cwd=LEAN, capture_output=True, text=True, check=True).stdout
        return [ln for ln in out.splitlines() if ln.strip()][-1].strip()
    return last(["lake", "env", "printenv", "LEAN_PATH"]), last(["lake", "env", "which", "lean"])


def scratch_repo(root: Path, file: str | None, old: str, new: str) -> Path:
    repo = root / "repo"
    if repo.exists():
        shutil.rmtree(repo)
    for f in (F, U):
        (repo / f).parent.mkdir(parents=True, exist_ok=True)
        text = (REPO / f).read_text()
        if f == file:
            if text.count(old) != 1:
                raise SystemExit(f"mutation pattern occurs {text.count(old)} times in {f}: {old!r}")
            text = text.replace(old, new)
        (repo / f).write_text(text)
    return repo


def check(root: Path, repo: Path, lean_path: str, lean_bin: str) -> tuple[str, str]:
    """-> (verdict, detail); verdict in {"pass", "failed closed", "proof build broke", "generated file does not compile"}"""
    try:
        text = rtrans.generate(repo)
    except (Unsupported, SyntaxError, KeyError, AttributeError, TypeError, IndexError) as e:
        return "failed closed", f"{type(e).__name__}: {e}"
    gen = root / "gen"
    if gen.exists():
        shutil.rmtree(gen)
    (gen / "ArtGen").mkdir(parents=True)
    (gen / "ArtGen" / "Falcon.lean").write_text(text)
    env = dict(os.environ, LEAN_PATH=lean_path)
    r = subprocess.run([lean_bin, "-o", "ArtGen/Falcon.olean", "ArtGen/Falcon.lean"], cwd=gen, env=env,
                       capture_output=True, text=True)
    if r.returncode != 0:
        return "generated file does not compile", (r.stdout + r.stderr).strip().splitlines()[0]
    env = dict(os.environ, LEAN_PATH=f"{gen}:{lean_path}")
    r = subprocess.run([lean_bin, "ArtGenProofs/FalconSpec.lean"], cwd=LEAN, env=env, capture_output=True, text=True)
    errs = [ln for ln in (r.stdout + r.stderr).splitlines() if ": error" in ln]
    if r.returncode != 0 or errs:
        return "proof build broke", (errs[0] if errs else f"exit code {r.returncode}")[:160]
    return "pass", ""


def main() -> int:
    subprocess.run(["lake", "build", "ArtModel.ImpFalcon", "ArtProps.C16"], cwd=LEAN, check=True,
                   stdout=subprocess.DEVNULL, stderr=subprocess.DEVNULL)
    lean_path, lean_bin = lean_env()
    root = Path(tempfile.mkdtemp(prefix="selftest_rtrans_"))
    ok = True
    try:
        verdict, detail = check(root, scratch_repo(root, None, "", ""), lean_path, lean_bin)
        print(f"[{'ok' if verdict == 'pass' else 'FAIL'}] unmutated source: {verdict} {detail}")
        ok &= verdict == "pass"
        committed = (LEAN / "ArtGen" / "Falcon.lean").read_text()
        same = committed == rtrans.generate(REPO)
        print(f"[{'ok' if same else 'FAIL'}] lean/ArtGen/Falcon.lean is byte-identical to generate({REPO})")
        ok &= same
        for label, file, old, new in MUTATIONS:
            verdict, detail = check(root, scratch_repo(root, file, old, new), lean_path, lean_bin)
            detected = verdict in ("failed closed", "proof build broke", "generated file does not compile")
            print(f"[{'ok' if detected else 'UNDETECTED'}] {label}: {verdict}" + (f"  ({detail})" if detail else ""))
            ok &= detected
    finally:
        shutil.rmtree(root, ignore_errors=True)
    print("selftest_rtrans:", "all mutations detected, unmutated source passes" if ok else "FAILED")
    return 0 if ok else 1


if __name__ == "__main__":
    sys.exit(main())
