#!/usr/bin/env python3
"""Self-test of the validation-gate translator tie (harness/artv/p2trans.py + lean/ArtGenProofs/GuardsSpec.lean).

    /venv/bin/python tools/selftest_p2trans.py [--keep]

Copies the translated source files of /repo to a scratch tree under /tmp, applies one *semantic* mutation at a time,
runs `p2trans.generate` on the scratch tree, compiles the generated text to a scratch .olean (outside /verif/lean:
nothing in the project tree is touched, other builds are not disturbed) and type-checks `ArtGenProofs/GuardsSpec.lean`
against it (the scratch directory comes first on LEAN_PATH).  A mutation is *detected* when the translator fails closed
or the proof file no longer checks.  The unmutated source must pass; every mutation must be detected.  Exit status 0 iff
both hold.
"""
import os
import shutil
import subprocess
import sys
from pathlib import Path

VERIF = Path(__file__).resolve().parents[1]
sys.path.insert(0, str(VERIF / "harness"))
from artv import p2trans  # noqa: E402
from artv.ktrans import Unsupported  # noqa: E402

REPO = Path(os.environ.get("VERIF_REPO", "/repo"))
LEAN = VERIF / "lean"
SCRATCH = Path("/tmp/p2trans_selftest_%d" % os.getpid())

B = "artlib/common/BaseART.py"
By = "artlib/elementary/BayesianART.py"
Hs = "artlib/elementary/HypersphereART.py"
Fu = "artlib/fusion/FusionART.py"
S = "artlib/supervised/SimpleARTMAP.py"
D = "artlib/topological/DualVigilanceART.py"
T = "artlib/topological/TopoART.py"
Bm = "artlib/biclustering/BARTMAP.py"

BAYES_BODY = (
    '        if not hasattr(self, "dim_"):\n'
    '            assert self.params["cov_init"].shape[0] == X.shape[1]\n'
    '            assert self.params["cov_init"].shape[1] == X.shape[1]\n'
    '            self.dim_ = X.shape[1]\n'
    '        else:\n'
    '            assert X.shape[1] == self.dim_\n')

# (name, kind, file, old text (must occur exactly once), new text)
MUTATIONS = [
    ("BayesianART.check_dimensions: else branch removed, the cov_init assertions and the store run on every call",
     "dropped branch", By, BAYES_BODY,
     '        assert self.params["cov_init"].shape[0] == X.shape[1]\n'
     '        assert self.params["cov_init"].shape[1] == X.shape[1]\n'
     '        self.dim_ = X.shape[1]\n'),
    ("BayesianART.check_dimensions: later calls re-check the live cov_init instead of the remembered dim_",
     "changed operand", By, "            assert X.shape[1] == self.dim_\n",
     '            assert X.shape[1] == self.params["cov_init"].shape[0]\n'),
    ("BayesianART.check_dimensions: dim_ stored before the cov_init assertions", "reordered effect", By,
     '            assert self.params["cov_init"].shape[0] == X.shape[1]\n'
     '            assert self.params["cov_init"].shape[1] == X.shape[1]\n'
     '            self.dim_ = X.shape[1]\n',
     '            self.dim_ = X.shape[1]\n'
     '            assert self.params["cov_init"].shape[0] == X.shape[1]\n'
     '            assert self.params["cov_init"].shape[1] == X.shape[1]\n'),
    ("BayesianART.check_dimensions: the assertion on cov_init's columns dropped", "dropped statement", By,
     '            assert self.params["cov_init"].shape[1] == X.shape[1]\n', ""),
    ("BayesianART.check_dimensions: cov_init compared with the number of rows of X", "changed index", By,
     'assert self.params["cov_init"].shape[0] == X.shape[1]', 'assert self.params["cov_init"].shape[0] == X.shape[0]'),
    ("BayesianART.check_dimensions: polarity of hasattr", "changed condition", By,
     '        if not hasattr(self, "dim_"):\n            assert self.params', '        if hasattr(self, "dim_"):\n            assert self.params'),
    ("BaseART.validate_data (inherited by Bayesian/Hypersphere/Ellipsoid/Gaussian/QuadraticNeuron ART): upper range assertion dropped",
     "dropped statement", B, '        assert np.all(X <= 1.0), "Data has not been normalized"\n', ""),
    ("BaseART.check_dimensions (inherited, also by TopoART): compares the number of rows", "changed index", B,
     "assert X.shape[1] == self.dim_", "assert X.shape[0] == self.dim_"),
    ("HypersphereART gains a validate_data override without the range checks", "added override", Hs,
     "    def category_choice(", "    def validate_data(self, X: np.ndarray):\n        self.check_dimensions(X)\n\n    def category_choice("),
    ("FusionART.validate_data: every module validates the first channel's columns", "wrong channel's indices", Fu,
     "X_k = X[:, self._channel_indices[k][0] : self._channel_indices[k][1]]",
     "X_k = X[:, self._channel_indices[0][0] : self._channel_indices[0][1]]"),
    ("FusionART.validate_data: slice bounds swapped", "swapped operands", Fu,
     "X_k = X[:, self._channel_indices[k][0] : self._channel_indices[k][1]]",
     "X_k = X[:, self._channel_indices[k][1] : self._channel_indices[k][0]]"),
    ("FusionART.validate_data: the first module validates every channel", "changed index", Fu,
     "self.modules[k].validate_data(X_k)", "self.modules[0].validate_data(X_k)"),
    ("FusionART.validate_data: the modules' check_dimensions instead of validate_data", "changed callee", Fu,
     "self.modules[k].validate_data(X_k)", "self.modules[k].check_dimensions(X_k)"),
    ("FusionART.validate_data: total-width check after the modules ran", "reordered effect", Fu,
     '        self.check_dimensions(X)\n'
     '        for k in range(self.n):\n'
     '            X_k = X[:, self._channel_indices[k][0] : self._channel_indices[k][1]]\n'
     '            self.modules[k].validate_data(X_k)\n',
     '        for k in range(self.n):\n'
     '            X_k = X[:, self._channel_indices[k][0] : self._channel_indices[k][1]]\n'
     '            self.modules[k].validate_data(X_k)\n'
     '        self.check_dimensions(X)\n'),
    ("FusionART.validate_data: total-width check not called", "dropped statement", Fu,
     '        self.check_dimensions(X)\n        for k in range(self.n):\n', '        for k in range(self.n):\n'),
    ("FusionART.check_dimensions: the assertion dropped", "dropped assert", Fu,
     '        assert X.shape[1] == self.dim_, "Invalid data shape"\n', ""),
    ("FusionART.check_dimensions: compares the number of rows", "changed index", Fu,
     'assert X.shape[1] == self.dim_, "Invalid data shape"', 'assert X.shape[0] == self.dim_, "Invalid data shape"'),
    ("SimpleARTMAP.validate_data: validates with module_b", "module_b instead of module_a", S,
     "        self.module_a.validate_data(X)\n        return X, y\n", "        self.module_b.validate_data(X)\n        return X, y\n"),
    ("SimpleARTMAP.validate_data: module_a validates the raw X before check_X_y", "reordered effect", S,
     "        X, y = check_X_y(X, y, dtype=None)\n        self.module_a.validate_data(X)\n",
     "        self.module_a.validate_data(X)\n        X, y = check_X_y(X, y, dtype=None)\n"),
    ("SimpleARTMAP.validate_data: module_a's gate not called", "dropped statement", S,
     "        self.module_a.validate_data(X)\n        return X, y\n", "        return X, y\n"),
    ("SimpleARTMAP.validate_data: check_X_y with sklearn's default dtype", "changed argument", S,
     "check_X_y(X, y, dtype=None)", "check_X_y(X, y)"),
    ("BARTMAP.validate_data: module_b validates X_a", "module_b instead of module_a", Bm,
     "        self.module_a.validate_data(X_a)\n", "        self.module_b.validate_data(X_a)\n"),
    ("BARTMAP.validate_data: module_b first", "reordered effect", Bm,
     "        self.module_a.validate_data(X_a)\n        self.module_b.validate_data(X_b)\n",
     "        self.module_b.validate_data(X_b)\n        self.module_a.validate_data(X_a)\n"),
    ("BARTMAP.validate_data: module_a validates X_b", "changed argument", Bm,
     "        self.module_a.validate_data(X_a)\n", "        self.module_a.validate_data(X_b)\n"),
    ("DualVigilanceART.validate_data: check_dimensions before the module's validate_data", "reordered effect", D,
     "        self.base_module.validate_data(X)\n        self.check_dimensions(X)\n",
     "        self.check_dimensions(X)\n        self.base_module.validate_data(X)\n"),
    ("DualVigilanceART.validate_data: the module's validate_data not called", "dropped statement", D,
     "        self.base_module.validate_data(X)\n        self.check_dimensions(X)\n", "        self.check_dimensions(X)\n"),
    ("DualVigilanceART.check_dimensions: forwards to validate_data", "changed callee", D,
     "        self.base_module.check_dimensions(X)\n", "        self.base_module.validate_data(X)\n"),
    ("TopoART.validate_data: only the module's check_dimensions", "changed callee", T,
     "        self.base_module.validate_data(X)\n", "        self.base_module.check_dimensions(X)\n"),
    ("TopoART.validate_data: additionally records TopoART's own dim_", "added effect", T,
     "        self.base_module.validate_data(X)\n", "        self.base_module.validate_data(X)\n        self.check_dimensions(X)\n"),
]


def lean_env():
    lp = subprocess.run(["lake", "env", "printenv", "LEAN_PATH"], cwd=LEAN, capture_output=True, text=True, check=True).stdout.strip()
    lean = subprocess.run(["lake", "env", "sh", "-c", "command -v lean"], cwd=LEAN, capture_output=True, text=True,
                          check=True).stdout.strip().splitlines()[-1]
    return lean, lp


def fresh_tree(root: Path):
    if root.exists():
        shutil.rmtree(root)
    for rel in set(p2trans.FILES.values()):
        (root / rel).parent.mkdir(parents=True, exist_ok=True)
        shutil.copy(REPO / rel, root / rel)


def check(root: Path, work: Path, lean: str, lp: str):
    """-> (verdict, detail): "pass" | "translator failed closed" | "proof build broke" """
    try:
        text = p2trans.generate(root)
    except (Unsupported, SyntaxError, KeyError, AttributeError, TypeError, IndexError, ValueError) as e:
        return "translator failed closed", f"{type(e).__name__}: {e}"
    src, out = work / "src" / "ArtGen", work / "out" / "ArtGen"
    src.mkdir(parents=True, exist_ok=True)
    out.mkdir(parents=True, exist_ok=True)
    (src / "Guards.lean").write_text(text)
    env = dict(os.environ, LEAN_PATH=lp)
    p = subprocess.run([lean, f"--root={work / 'src'}", "-o", str(out / "Guards.olean"), str(src / "Guards.lean")],
                       cwd=work / "src", env=env, capture_output=True, text=True, timeout=600)
    if p.returncode != 0:
        return "proof build broke", "the generated file does not elaborate: " + (p.stdout + p.stderr).strip().split("\n")[0][:160]
    env = dict(os.environ, LEAN_PATH=f"{work / 'out'}:{lp}")
    p = subprocess.run([lean, "ArtGenProofs/GuardsSpec.lean"], cwd=LEAN, env=env, capture_output=True, text=True, timeout=1200)
    errs = [l for l in (p.stdout + p.stderr).split("\n") if ": error" in l]
    if p.returncode != 0 or errs:
        first = errs[0] if errs else (p.stdout + p.stderr).strip().split("\n")[0]
        return "proof build broke", f"{len(errs)} error(s), first: {first[:160]}"
    return "pass", ""


def main():
    keep = "--keep" in sys.argv
    lean, lp = lean_env()
    ok = True
    try:
        root, work = SCRATCH / "repo", SCRATCH / "lean"
        fresh_tree(root)
        v, d = check(root, work, lean, lp)
        committed = (LEAN / "ArtGen" / "Guards.lean").read_text() == p2trans.generate(root)
        print(f"[{'ok' if v == 'pass' and committed else 'FAIL'}] unmutated source: {v} {d}; committed ArtGen/Guards.lean "
              f"{'is' if committed else 'IS NOT'} what the translator produces")
        ok &= v == "pass" and committed
        for name, kind, rel, old, new in MUTATIONS:
            fresh_tree(root)
            text = (root / rel).read_text()
            if text.count(old) != 1:
                print(f"[FAIL] {name}: the text to mutate occurs {text.count(old)} times in {rel}")
                ok = False
                continue
            (root / rel).write_text(text.replace(old, new))
            v, d = check(root, work, lean, lp)
            det = v != "pass"
            ok &= det
            print(f"[{'detected' if det else 'MISSED'}] {name} ({kind}; {rel.split('/')[-1]}): {v} — {d}")
    finally:
        if not keep:
            shutil.rmtree(SCRATCH, ignore_errors=True)
    print("SELFTEST", "PASSED" if ok else "FAILED")
    return 0 if ok else 1


if __name__ == "__main__":
    sys.exit(main())
