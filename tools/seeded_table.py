#!/usr/bin/env python3
"""Print the markdown table of seeded changes and which checks catch them (from seeded/*/meta.json)."""
import json
from pathlib import Path
S = Path(__file__).resolve().parents[1] / "seeded"
print("| id | breaks | what the change does | needs to manifest | caught by (quick tier, seed 0) |")
print("|----|--------|----------------------|-------------------|-------------------------------|")
for d in sorted(S.iterdir()):
    m = json.loads((d / "meta.json").read_text())
    caught = []
    for k, v in m.get("checks", {}).items():
        p = k.split("@")[0]
        if v["rc"] == 1:
            kind = "no-failing-input-found" if v["violation"] and "no-failing-input-found" in v["violation"][0] else "replay"
            caught.append(f"{p} ({kind})")
        else:
            caught.append(f"{p}: not caught")
    print(f"| {d.name} | {m['breaks_property']} | {m['what']} | {m['needs_to_manifest']} | {'; '.join(caught)} |")
