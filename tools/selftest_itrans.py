#!/venv/bin/python
"""Self-test of the iCVI translator tie (harness/artv/itrans.py + lean/ArtGenProofs/ICVISpec.lean).

Copies `artlib/cvi/iCVIs/CalinkskiHarabasz.py` to a scratch directory under /tmp, applies one-line *semantic* mutations
to the translated functions, regenerates `lean/ArtGen/ICVI.lean` from each mutant, rebuilds the proof module and
reports whether the translator failed closed or a proof obligation broke.  Every mutation must be detected; the
unmutated source must pass (it is built last, so the tree is left in its built, unmutated state).  The generated file
is ALWAYS restored.

usage:  /venv/bin/python tools/selftest_itrans.py [--only N[,M…]]      (about 8 minutes: one proof build per mutant)
"""
from __future__ import annotations

import os
import shutil
import subprocess
import sys
import time
from pathlib import Path

VERIF = Path(__file__).resolve().parents[1]
sys.path.insert(0, str(VERIF / "harness"))

from artv import itrans  # noqa: E402
from artv.ktrans import Unsupported  # noqa: E402

REPO = Path(os.environ.get("VERIF_REPO", "/repo"))
SCRATCH = Path("/tmp/itrans_selftest")
GEN = VERIF / "lean" / "ArtGen" / "ICVI.lean"

# (kind, description, old text, new text, which occurrence (0-based) of `old` is replaced)
MUTATIONS = [
    ("changed comparison", "remove_sample: `Data[\"n\"] <= 1` -> `< 1` (a cluster of one may be emptied)",
     'if Data["n"] <= 1:', 'if Data["n"] < 1:', 0),
    ("off-by-one", "add_sample, new label: `n_clusters = len(self.CD) + 1` -> `len(self.CD)`",
     "n_clusters = len(self.CD) + 1", "n_clusters = len(self.CD)", 0),
    ("swapped operands", "delta_add_sample_to_average: `(sample - average)` -> `(average - sample)`",
     "return (sample - average) / total_samples", "return (average - sample) / total_samples", 0),
    ("reordered effect", "add_sample: `diff_x_v = x - CD[\"v\"]` moved before `CD[\"v\"] = …` (reads a missing key)",
     '            CD["v"] = Data["v"] - deltaV  # Vnew = Vold - deltaV\n            diff_x_v = x - CD["v"]\n',
     '            diff_x_v = x - CD["v"]\n            CD["v"] = Data["v"] - deltaV  # Vnew = Vold - deltaV\n', 0),
    ("dropped statement", "update: `self.WGSS += params[\"CP_diff2\"]` removed",
     '            self.WGSS += params["CP_diff2"]\n', "", 0),
    ("changed constant", "add_sample: `2 * (deltaV @ Data[\"G\"])` -> `1 * …` (invisible to runs: G is 0 in every "
                         "reachable state)",
     '+ 2 * (deltaV @ Data["G"])', '+ 1 * (deltaV @ Data["G"])', 0),
    ("dropped alias", "remove_sample: `newP[\"CD\"] = CD` removed (the candidate dict loses its cluster entry)",
     '        CD = {}\n        newP["CD"] = CD\n', "        CD = {}\n", 0),
    ("wrong key", "switch_label: the second `CP_diff` is read from params_remove instead of params_add",
     'newP["CP_diff2"] = params_add["CP_diff"]', 'newP["CP_diff2"] = params_remove["CP_diff"]', 0),
    ("unsupported syntax", "add_sample: `newP[\"mu\"] = x` -> `np.copy(x)` (not in the translated sub-language)",
     'newP["mu"] = x', 'newP["mu"] = np.copy(x)', 0),
]


def build() -> tuple[bool, str]:
    r = subprocess.run(["lake", "build", "ArtGen.ICVI", "ArtGenProofs.ICVISpec"], cwd=VERIF / "lean",
                       capture_output=True, text=True)
    out = r.stdout + r.stderr
    first = next((ln.strip() for ln in out.splitlines() if "error" in ln), "")
    return r.returncode == 0, first[:160]


def mutate(text: str, old: str, new: str, occ: int) -> str:
    idx = -1
    for _ in range(occ + 1):
        idx = text.find(old, idx + 1)
        if idx < 0:
            raise SystemExit(f"selftest: mutation site not found: {old!r}")
    return text[:idx] + new + text[idx + len(old):]


def main() -> int:
    only = None
    if len(sys.argv) > 2 and sys.argv[1] == "--only":
        only = {int(x) for x in sys.argv[2].split(",")}
    original_src = (REPO / itrans.FILE).read_text()
    original_gen = GEN.read_text()
    if itrans.generate(REPO) != original_gen:
        print("selftest: lean/ArtGen/ICVI.lean is not what the translator generates from the current source")
        return 1
    ok_all = True
    try:
        for n, (kind, what, old, new, occ) in enumerate(MUTATIONS):
            if only is not None and n not in only:
                continue
            shutil.rmtree(SCRATCH, ignore_errors=True)
            dst = SCRATCH / itrans.FILE
            dst.parent.mkdir(parents=True)
            dst.write_text(mutate(original_src, old, new, occ))
            t0 = time.time()
            try:
                text = itrans.generate(SCRATCH)
            except (Unsupported, SyntaxError, KeyError, AttributeError, TypeError, IndexError) as e:
                print(f"[{n}] {kind}: {what}\n      DETECTED — translator failed closed: {type(e).__name__}: {e}")
                continue
            if text == original_gen:
                print(f"[{n}] {kind}: {what}\n      NOT DETECTED — the generated file did not change")
                ok_all = False
                continue
            GEN.write_text(text)
            ok, err = build()
            dt = time.time() - t0
            if ok:
                print(f"[{n}] {kind}: {what}\n      NOT DETECTED — the proofs still build ({dt:.0f}s)")
                ok_all = False
            else:
                print(f"[{n}] {kind}: {what}\n      DETECTED — proof build broke ({dt:.0f}s): {err}")
        # the unmutated source, last: leaves the project built from the real generated file
        GEN.write_text(original_gen)
        t0 = time.time()
        ok, err = build()
        print(f"[unmutated] {'PASS' if ok else 'FAIL: ' + err} ({time.time() - t0:.0f}s)")
        ok_all = ok_all and ok
    finally:
        if GEN.read_text() != original_gen:
            GEN.write_text(original_gen)
        shutil.rmtree(SCRATCH, ignore_errors=True)
    print("selftest_itrans:", "OK — every mutation detected, unmutated source passes" if ok_all else "FAILED")
    return 0 if ok_all else 1


if __name__ == "__main__":
    sys.exit(main())
