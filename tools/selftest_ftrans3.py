#!/venv/bin/python
"""Self-test of the FusionART training translator tie (harness/artv/ftrans3.py + lean/ArtGenProofs/FusionFitSpec.lean).

For the unmutated source and for each one-line semantic mutation of the translated Python functions
(artlib/common/BaseART.py: step_fit, fit, _match_tracking_operator;  artlib/fusion/FusionART.py: partial_fit,
_set_params, _deep_copy_params, the W setter) this script
  1. copies the two source files to a scratch repo under /tmp and applies the mutation there,
  2. runs `ftrans3.generate` on the scratch repo         -> "translator failed closed" if it raises Unsupported,
  3. compiles the generated text as module ArtGen.FusionFit in a scratch directory (never in /verif/lean/ArtGen)
     and checks lean/ArtGenProofs/FusionFitSpec.lean against it with that directory first on LEAN_PATH
                                                           -> "proof build broke" if Lean reports an error.
Every mutation must be detected, the unmutated source must pass.  Exit code 0 iff so.  /tmp is cleaned afterwards.
(`SELFTEST_FROM=k` skips the first k mutations — each proof check takes about 15 s.)
"""
from __future__ import annotations

import os
import shutil
import subprocess
import sys
import tempfile
from pathlib import Path

VERIF = Path(__file__).resolve().parents[1]
LEAN = VERIF / "lean"
sys.path.insert(0, str(VERIF / "harness"))

from artv import ftrans3  # noqa: E402
from artv.ktrans import Unsupported  # noqa: E402

REPO = Path(os.environ.get("VERIF_REPO", "/repo"))
B, F = ftrans3.BASE, ftrans3.FUSION

# (label, file, old text (must occur exactly once), new text)
MUTATIONS = [
    ("step_fit: sample counter advances by two", B, "self.sample_counter_ += 1", "self.sample_counter_ += 2"),
    ("step_fit: first-sample test off by one (len(self.W) == 1)", B, "if len(self.W) == 0:", "if len(self.W) == 1:"),
    ("step_fit: params not restored after resonance (dropped statement)", B,
     "                    self._set_params(base_params)\n                    return c_\n", "                    return c_\n"),
    ("step_fit: params not restored after a new category (dropped statement)", B,
     "            self.add_weight(w_new)\n            self._set_params(base_params)\n            return c_new\n",
     "            self.add_weight(w_new)\n            return c_new\n"),
    ("step_fit: resonance needs match OR no reset", B, "if m and no_match_reset:", "if m or no_match_reset:"),
    ("step_fit: the visited category is not struck (dropped T[c_] = nan)", B,
     "                    T[c_] = np.nan\n", "                    pass\n"),
    ("step_fit: search abandoned when tracking says keep searching (inverted test)", B,
     "if not keep_searching:", "if keep_searching:"),
    ("step_fit: match tracking runs when the category did NOT match", B,
     "if m and not no_match_reset:", "if not m and not no_match_reset:"),
    ("step_fit: nanargmin instead of nanargmax", B, "c_ = int(np.nanargmax(T))", "c_ = int(np.nanargmin(T))"),
    ("step_fit: returns label 0 instead of the resonating category", B,
     "                    self._set_params(base_params)\n                    return c_\n",
     "                    self._set_params(base_params)\n                    return 0\n"),
    ("step_fit: new category label off by one", B, "c_new = len(self.W)", "c_new = len(self.W) + 1"),
    ("step_fit: the winner's update is written to category 0", B,
     "self.set_weight(c_, self.update(x, w, self.params, cache=cache))",
     "self.set_weight(0, self.update(x, w, self.params, cache=cache))"),
    ("step_fit: the weight read for the test is category 0's", B, "w = self.W[c_]", "w = self.W[0]"),
    ("step_fit: MT~ pre-pass keeps the vetoed categories and strikes the others (inverted)", B,
     "if match_reset_func(x, w, c_, params=self.params, cache=None)",
     "if not match_reset_func(x, w, c_, params=self.params, cache=None)"),
    ("step_fit: under MT~ every match is treated as vetoed", B,
     "                    no_match_reset = True\n", "                    no_match_reset = False\n"),
    ("step_fit: a missing reset function vetoes (is not None)", B,
     "no_match_reset = match_reset_func is None or match_reset_func(",
     "no_match_reset = match_reset_func is not None or match_reset_func("),
    ("_match_tracking_operator: MT+ uses the strict operator", B,
     'if method in ["MT+", "MT-", "MT1"]:\n            return operator.ge',
     'if method in ["MT+", "MT-", "MT1"]:\n            return operator.gt'),
    ("fit: labels written to slot 0", B, "                self.labels_[i] = c\n                self.post_step_fit(X)\n",
     "                self.labels_[0] = c\n                self.post_step_fit(X)\n"),
    ("fit: sample counter reset to 1", B, "        self.sample_counter_ = 0\n        self.labels_ = np.zeros",
     "        self.sample_counter_ = 1\n        self.labels_ = np.zeros"),
    ("fit: only one epoch whatever max_iter", B, "dtype=int)\n        for _ in range(max_iter):", "dtype=int)\n        for _ in range(1):"),
    ("fit: the weights are not reset (dropped statement)", B, "        self.W: List[np.ndarray] = []\n", ""),
    ("partial_fit: labels written without the offset of the earlier batches", F,
     "            self.labels_[i + j] = c\n", "            self.labels_[i] = c\n"),
    ("partial_fit: offset of a later batch is 0", F, "            j = len(self.labels_)\n", "            j = 0\n"),
    ("partial_fit: fresh / trained branches swapped", F,
     'if not hasattr(self.modules[0], "W"):', 'if hasattr(self.modules[0], "W"):'),
    ("partial_fit: a fresh estimator does not reset its modules (dropped statement)", F,
     "            self.W: List[np.ndarray] = []\n", ""),
    ("partial_fit: labels of a fresh estimator one too short", F,
     "            self.labels_ = np.zeros((X.shape[0],), dtype=int)\n            j = 0\n",
     "            self.labels_ = np.zeros((X.shape[0] + 1,), dtype=int)\n            j = 0\n"),
    ("_set_params: every module receives module 0's params", F,
     "self.modules[i].params = new_params[i]", "self.modules[i].params = new_params[0]"),
    ("_deep_copy_params: copies module 0's params for every module", F,
     "deepcopy(module.params) for i, module in enumerate(self.modules)",
     "deepcopy(self.modules[0].params) for i, module in enumerate(self.modules)"),
    ("W setter: the modules' sample counters are reset to 1", F,
     "                self.modules[k].sample_counter_ = 0\n", "                self.modules[k].sample_counter_ = 1\n"),
    ("W setter: the per-category counters are not reset (dropped statement)", F,
     "                self.modules[k].weight_sample_counter_ = []\n", ""),
    ("W setter: empty-list test inverted (len(new_W) >= 0)", F, "if len(new_W) > 0:", "if len(new_W) >= 0:"),
    ("FusionART overrides step_fit (a new method the translation does not know)", F,
     "    def step_pred(self, x, skip_channels: List[int] = []) -> int:",
     "    def step_fit(self, x, match_reset_func=None, match_tracking='MT+', epsilon=0.0):\n"
     "        return 0\n\n    def step_pred(self, x, skip_channels: List[int] = []) -> int:"),
]


def lean_env():
    def last(cmd):
        out = subprocess.run(cmd, cwd=LEAN, capture_output=True, text=True, check=True).stdout
        return [ln for ln in out.splitlines() if ln.strip()][-1].strip()
    return last(["lake", "env", "printenv", "LEAN_PATH"]), last(["lake", "env", "which", "lean"])


def scratch_repo(root: Path, which: str | None, old: str | None, new: str) -> Path:
    repo = root / "repo"
    if repo.exists():
        shutil.rmtree(repo)
    for f in (B, F):
        (repo / f).parent.mkdir(parents=True, exist_ok=True)
        text = (REPO / f).read_text()
        if which == f:
            if text.count(old) != 1:
                raise SystemExit(f"mutation pattern occurs {text.count(old)} times in {f}: {old!r}")
            text = text.replace(old, new)
        (repo / f).write_text(text)
    return repo


def check(root: Path, repo: Path, lean_path: str, lean_bin: str) -> tuple[str, str]:
    """-> (verdict, detail); verdict in {"pass", "failed closed", "proof build broke", "generated file does not compile"}"""
    try:
        text = ftrans3.generate(repo)
    except (Unsupported, SyntaxError, KeyError, AttributeError, TypeError, IndexError) as e:
        return "failed closed", f"{type(e).__name__}: {e}"[:160]
    gen = root / "gen"
    if gen.exists():
        shutil.rmtree(gen)
    (gen / "ArtGen").mkdir(parents=True)
    (gen / "ArtGen" / "FusionFit.lean").write_text(text)
    # the scratch directory shadows the whole package directory ArtGen: link the other built modules of it
    for o in (LEAN / ".lake" / "build" / "lib" / "lean" / "ArtGen").glob("*.olean"):
        if o.stem != "FusionFit":
            os.symlink(o, gen / "ArtGen" / o.name)
    env = dict(os.environ, LEAN_PATH=lean_path)
    r = subprocess.run([lean_bin, "-o", "ArtGen/FusionFit.olean", "ArtGen/FusionFit.lean"], cwd=gen, env=env,
                       capture_output=True, text=True)
    if r.returncode != 0:
        return "generated file does not compile", ((r.stdout + r.stderr).strip().splitlines() or ["?"])[0][:160]
    env = dict(os.environ, LEAN_PATH=f"{gen}:{lean_path}")
    r = subprocess.run([lean_bin, "ArtGenProofs/FusionFitSpec.lean"], cwd=LEAN, env=env, capture_output=True, text=True)
    errs = [ln for ln in (r.stdout + r.stderr).splitlines() if ": error" in ln]
    if r.returncode != 0 or errs:
        return "proof build broke", (errs[0] if errs else f"exit code {r.returncode}")[:160]
    return "pass", ""


def main() -> int:
    subprocess.run(["lake", "build", "ArtModel.ImpFusion3", "ArtGen.Fusion", "ArtGenProofs.FusionSpec",
                    "ArtGenProofs.ControlSpec", "ArtProps.C10"],
                   cwd=LEAN, check=True, stdout=subprocess.DEVNULL, stderr=subprocess.DEVNULL)
    lean_path, lean_bin = lean_env()
    root = Path(tempfile.mkdtemp(prefix="selftest_ftrans3_"))
    ok = True
    try:
        verdict, detail = check(root, scratch_repo(root, None, None, ""), lean_path, lean_bin)
        print(f"[{'ok' if verdict == 'pass' else 'FAIL'}] unmutated source: {verdict} {detail}", flush=True)
        ok &= verdict == "pass"
        committed = (LEAN / "ArtGen" / "FusionFit.lean").read_text()
        same = committed == ftrans3.generate(REPO)
        print(f"[{'ok' if same else 'FAIL'}] lean/ArtGen/FusionFit.lean is byte-identical to generate({REPO})", flush=True)
        ok &= same
        for label, which, old, new in MUTATIONS[int(os.environ.get("SELFTEST_FROM", "0")):]:
            verdict, detail = check(root, scratch_repo(root, which, old, new), lean_path, lean_bin)
            detected = verdict in ("failed closed", "proof build broke", "generated file does not compile")
            print(f"[{'ok' if detected else 'UNDETECTED'}] {label}: {verdict}" + (f"  ({detail})" if detail else ""), flush=True)
            ok &= detected
    finally:
        shutil.rmtree(root, ignore_errors=True)
    print("selftest_ftrans3:", "all mutations detected, unmutated source passes" if ok else "FAILED")
    return 0 if ok else 1


if __name__ == "__main__":
    sys.exit(main())
