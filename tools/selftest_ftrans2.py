#!/venv/bin/python
"""Self-test of the second FusionART translator tie (harness/artv/ftrans2.py + lean/ArtGenProofs/FusionPredictSpec.lean).

For the unmutated source and for each one-line semantic mutation of the translated Python functions
(artlib/fusion/FusionART.py: step_pred, predict, predict_regression, get_channel_centers, get_cluster_centers,
n_clusters, join_channel_data, split_channel_data, prepare_data, restore_data) this script
  1. copies the source file to a scratch repo under /tmp and applies the mutation there,
  2. runs `ftrans2.generate` on the scratch repo          -> "translator failed closed" if it raises Unsupported,
  3. compiles the generated text as module ArtGen.FusionPredict in a scratch directory (never in /verif/lean/ArtGen)
     and checks lean/ArtGenProofs/FusionPredictSpec.lean against it with that directory first on LEAN_PATH
                                                            -> "proof build broke" if Lean reports an error.
Every mutation must be detected, the unmutated source must pass.  Exit code 0 iff so.  /tmp is cleaned afterwards.
"""
from __future__ import annotations

import os
import shutil
import subprocess
import sys
import tempfile
from pathlib import Path

VERIF = Path(__file__).resolve().parents[1]
LEAN = VERIF / "lean"
sys.path.insert(0, str(VERIF / "harness"))

from artv import ftrans2  # noqa: E402
from artv.ktrans import Unsupported  # noqa: E402

REPO = Path(os.environ.get("VERIF_REPO", "/repo"))
F = ftrans2.FILE
NORM = "skip_channels = [self.n + k if k < 0 else k for k in skip_channels]\n"

# (label, old text (must occur exactly once), new text)
MUTATIONS = [
    ("step_pred: off by one, int(np.argmax(T)) + 1",
     "c_ = int(np.argmax(T))", "c_ = int(np.argmax(T)) + 1"),
    ("step_pred: argmin instead of argmax",
     "c_ = int(np.argmax(T))", "c_ = int(np.argmin(T))"),
    ("step_pred: the skipped channels are not passed on to category_choice",
     "x, w, params=self.params, skip_channels=skip_channels\n", "x, w, params=self.params, skip_channels=[]\n"),
    ("predict: negative indices normalised with the wrong comparison (k <= 0)",
     NORM + "\n        y = np.zeros", "skip_channels = [self.n + k if k <= 0 else k for k in skip_channels]\n\n        y = np.zeros"),
    ("predict: normalisation dropped",
     "        " + NORM + "\n        y = np.zeros", "\n        y = np.zeros"),
    ("predict: every label written to slot 0",
     "            y[i] = c\n", "            y[0] = c\n"),
    ("predict: step_pred is called without the skipped channels",
     "c = self.step_pred(x, skip_channels=skip_channels)", "c = self.step_pred(x)"),
    ("predict_regression: target channels are not withheld from the prediction",
     "C = self.predict(X, skip_channels=target_channels)", "C = self.predict(X)"),
    ("predict_regression: single target reads category 0 instead of the predicted one",
     "return np.array([centers[0][c] for c in C])", "return np.array([centers[0][0] for c in C])"),
    ("predict_regression: multi target reads the first target's centres for every target (centers[0])",
     "np.array([centers[j][c] for c in C])", "np.array([centers[0][c] for c in C])"),
    ("predict_regression: branch test off by one (len == 2)",
     "if len(target_channels) == 1:", "if len(target_channels) == 2:"),
    ("predict_regression: normalisation adds the wrong amount (self.n + k + 1)",
     "target_channels = [self.n + k if k < 0 else k for k in target_channels]",
     "target_channels = [self.n + k + 1 if k < 0 else k for k in target_channels]"),
    ("get_channel_centers: always module 0",
     "return self.modules[channel].get_cluster_centers()", "return self.modules[0].get_cluster_centers()"),
    ("join_channel_data: kept / skipped branches swapped",
     "            if k not in skip_channels:\n                formatted_channel_data.append(channel_data[i])",
     "            if k in skip_channels:\n                formatted_channel_data.append(channel_data[i])"),
    ("join_channel_data: supplied arrays indexed by channel number instead of position",
     "formatted_channel_data.append(channel_data[i])", "formatted_channel_data.append(channel_data[k])"),
    ("join_channel_data: counter of supplied arrays not advanced (dropped statement)",
     "                i += 1\n", ""),
    ("join_channel_data: filler width from swapped operands (start - end)",
     "self._channel_indices[k][1] - self._channel_indices[k][0],", "self._channel_indices[k][0] - self._channel_indices[k][1],"),
    ("join_channel_data: another filler value (0.25)",
     "                    0.5\n                    * np.ones(", "                    0.25\n                    * np.ones("),
    ("join_channel_data: filler has one row instead of n_samples",
     "                            n_samples,\n", "                            1,\n"),
    ("split_channel_data: skipped columns are not skipped (dropped statement)",
     "                # so we skip those columns\n                current_col += channel_width\n",
     "                # so we skip those columns\n                current_col += 0\n"),
    ("split_channel_data: slice end is the width, not col + width",
     "joined_data[:, current_col : current_col + channel_width]", "joined_data[:, current_col : channel_width]"),
    ("split_channel_data: kept / skipped branches swapped",
     "            if k not in skip_channels:\n                # Extract the original channel data",
     "            if k in skip_channels:\n                # Extract the original channel data"),
    ("split_channel_data: column advanced before the slice is taken (reordered effect)",
     "                channel_data.append(\n                    joined_data[:, current_col : current_col + channel_width]\n                )\n"
     "                current_col += channel_width\n",
     "                current_col += channel_width\n                channel_data.append(\n"
     "                    joined_data[:, current_col : current_col + channel_width]\n                )\n"),
    ("prepare_data: skipped channels are prepared too and kept ones dropped (filter inverted)",
     "            for i in range(self.n)\n            if i not in skip_channels\n        ]\n\n        return self.join_channel_data(",
     "            for i in range(self.n)\n            if i in skip_channels\n        ]\n\n        return self.join_channel_data("),
    ("prepare_data: every channel prepared by module 0",
     "self.modules[i].prepare_data(channel_data[i])", "self.modules[0].prepare_data(channel_data[i])"),
    ("prepare_data: the join does not withhold the skipped channels",
     "            prepared_channel_data, skip_channels=skip_channels\n", "            prepared_channel_data, skip_channels=[]\n"),
    ("restore_data: split list indexed by channel number instead of position (the former finding C11-a)",
     "self.modules[i].restore_data(channel_data[pos])", "self.modules[i].restore_data(channel_data[i])"),
    ("restore_data: restored by the module at the position instead of the channel's module",
     "self.modules[i].restore_data(channel_data[pos])", "self.modules[pos].restore_data(channel_data[pos])"),
    ("restore_data: split without the skipped channels",
     "channel_data = self.split_channel_data(X, skip_channels=skip_channels)", "channel_data = self.split_channel_data(X)"),
    ("get_cluster_centers: centre index and channel index swapped",
     "np.concatenate([centers_[k][i] for k in range(self.n)])", "np.concatenate([centers_[i][k] for k in range(self.n)])"),
    ("n_clusters: counts the categories of module 1",
     "return self.modules[0].n_clusters", "return self.modules[1].n_clusters"),
]


def lean_env():
    def last(cmd):
        out = subprocess.run(cmd, cwd=LEAN, capture_output=True, text=True, check=True).stdout
        return [ln for ln in out.splitlines() if ln.strip()][-1].strip()
    return last(["lake", "env", "printenv", "LEAN_PATH"]), last(["lake", "env", "which", "lean"])


def scratch_repo(root: Path, old: str | None, new: str) -> Path:
    repo = root / "repo"
    if repo.exists():
        shutil.rmtree(repo)
    (repo / F).parent.mkdir(parents=True, exist_ok=True)
    text = (REPO / F).read_text()
    if old is not None:
        if text.count(old) != 1:
            raise SystemExit(f"mutation pattern occurs {text.count(old)} times in {F}: {old!r}")
        text = text.replace(old, new)
    (repo / F).write_text(text)
    return repo


def check(root: Path, repo: Path, lean_path: str, lean_bin: str) -> tuple[str, str]:
    """-> (verdict, detail); verdict in {"pass", "failed closed", "proof build broke", "generated file does not compile"}"""
    try:
        text = ftrans2.generate(repo)
    except (Unsupported, SyntaxError, KeyError, AttributeError, TypeError, IndexError) as e:
        return "failed closed", f"{type(e).__name__}: {e}"[:160]
    gen = root / "gen"
    if gen.exists():
        shutil.rmtree(gen)
    (gen / "ArtGen").mkdir(parents=True)
    (gen / "ArtGen" / "FusionPredict.lean").write_text(text)
    # the scratch directory shadows the whole package directory ArtGen: link the other built modules of it
    # (the spec imports ArtGen.Fusion through ArtGenProofs.FusionSpec) next to the scratch FusionPredict
    for o in (LEAN / ".lake" / "build" / "lib" / "lean" / "ArtGen").glob("*.olean"):
        if o.stem != "FusionPredict":
            os.symlink(o, gen / "ArtGen" / o.name)
    env = dict(os.environ, LEAN_PATH=lean_path)
    r = subprocess.run([lean_bin, "-o", "ArtGen/FusionPredict.olean", "ArtGen/FusionPredict.lean"], cwd=gen, env=env,
                       capture_output=True, text=True)
    if r.returncode != 0:
        return "generated file does not compile", ((r.stdout + r.stderr).strip().splitlines() or ["?"])[0][:160]
    env = dict(os.environ, LEAN_PATH=f"{gen}:{lean_path}")
    r = subprocess.run([lean_bin, "ArtGenProofs/FusionPredictSpec.lean"], cwd=LEAN, env=env, capture_output=True, text=True)
    errs = [ln for ln in (r.stdout + r.stderr).splitlines() if ": error" in ln]
    if r.returncode != 0 or errs:
        return "proof build broke", (errs[0] if errs else f"exit code {r.returncode}")[:160]
    return "pass", ""


def main() -> int:
    subprocess.run(["lake", "build", "ArtModel.ImpFusion2", "ArtGen.Fusion", "ArtGenProofs.FusionSpec", "ArtProps.C11"],
                   cwd=LEAN, check=True, stdout=subprocess.DEVNULL, stderr=subprocess.DEVNULL)
    lean_path, lean_bin = lean_env()
    root = Path(tempfile.mkdtemp(prefix="selftest_ftrans2_"))
    ok = True
    try:
        verdict, detail = check(root, scratch_repo(root, None, ""), lean_path, lean_bin)
        print(f"[{'ok' if verdict == 'pass' else 'FAIL'}] unmutated source: {verdict} {detail}")
        ok &= verdict == "pass"
        committed = (LEAN / "ArtGen" / "FusionPredict.lean").read_text()
        same = committed == ftrans2.generate(REPO)
        print(f"[{'ok' if same else 'FAIL'}] lean/ArtGen/FusionPredict.lean is byte-identical to generate({REPO})")
        ok &= same
        for label, old, new in MUTATIONS:
            verdict, detail = check(root, scratch_repo(root, old, new), lean_path, lean_bin)
            detected = verdict in ("failed closed", "proof build broke", "generated file does not compile")
            print(f"[{'ok' if detected else 'UNDETECTED'}] {label}: {verdict}" + (f"  ({detail})" if detail else ""))
            ok &= detected
    finally:
        shutil.rmtree(root, ignore_errors=True)
    print("selftest_ftrans2:", "all mutations detected, unmutated source passes" if ok else "FAILED")
    return 0 if ok else 1


if __name__ == "__main__":
    sys.exit(main())
