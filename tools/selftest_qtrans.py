#!/usr/bin/env python3
"""Self-test of the estimator-protocol translator tie (harness/artv/qtrans.py + lean/ArtGenProofs/ParamsSpec.lean).

    /venv/bin/python tools/selftest_qtrans.py [--keep]

Copies the nine translated source files of /repo to a scratch tree under /tmp, applies one *semantic* mutation at a
time, runs `qtrans.generate` on the scratch tree, compiles the generated text to a scratch .olean (outside
/verif/lean: nothing in the project tree is touched, other builds are not disturbed) and type-checks
`ArtGenProofs/ParamsSpec.lean` against it (the scratch directory comes first on LEAN_PATH).  A mutation is *detected*
when the translator fails closed or the proof file no longer checks.  The unmutated source must pass; every mutation
must be detected.  Exit status 0 iff both hold.
"""
import os
import shutil
import subprocess
import sys
from pathlib import Path

VERIF = Path(__file__).resolve().parents[1]
sys.path.insert(0, str(VERIF / "harness"))
from artv import qtrans  # noqa: E402
from artv.ktrans import Unsupported  # noqa: E402

REPO = Path(os.environ.get("VERIF_REPO", "/repo"))
LEAN = VERIF / "lean"
SCRATCH = Path("/tmp/qtrans_selftest_%d" % os.getpid())

B = "artlib/common/BaseART.py"
A1 = "artlib/elementary/ART1.py"
Fz = "artlib/elementary/FuzzyART.py"
Hs = "artlib/elementary/HypersphereART.py"
El = "artlib/elementary/EllipsoidART.py"
Ga = "artlib/elementary/GaussianART.py"
By = "artlib/elementary/BayesianART.py"
Qn = "artlib/elementary/QuadraticNeuronART.py"

# (name, kind, file, old text (must occur exactly once), new text)
MUTATIONS = [
    # ---- validate_params
    ("FuzzyART.validate_params: alpha >= 0 made strict", "bound made strict", Fz,
     'assert params["alpha"] >= 0.0', 'assert params["alpha"] > 0.0'),
    ("FuzzyART.validate_params: beta > 0 made non-strict", "bound made non-strict", Fz,
     'assert 1.0 >= params["beta"] > 0.0', 'assert 1.0 >= params["beta"] >= 0.0'),
    ("EllipsoidART.validate_params: upper bound of mu made strict", "bound made strict", El,
     'assert 1.0 >= params["mu"] > 0.0', 'assert 1.0 > params["mu"] > 0.0'),
    ("ART1.validate_params: isinstance(L, float) dropped", "dropped assert", A1,
     '        assert isinstance(params["L"], float)\n', ""),
    ("QuadraticNeuronART.validate_params: `\"lr_w\" in params` dropped", "dropped assert", Qn,
     '        assert "lr_w" in params\n', ""),
    ("HypersphereART.validate_params: r_hat > 1.0", "changed constant", Hs,
     'assert params["r_hat"] > 0.0', 'assert params["r_hat"] > 1.0'),
    ("BayesianART.validate_params: cov_init must be a float", "changed type", By,
     'assert isinstance(params["cov_init"], np.ndarray)', 'assert isinstance(params["cov_init"], float)'),
    ("BayesianART.validate_params: range assert checks the other key", "changed key", By,
     'assert params["rho"] > 0', 'assert params["cov_init"] > 0'),
    ("ART1.validate_params: type check before the range check (another exception kind for rho=2)", "reordered asserts", A1,
     '        assert 1.0 >= params["rho"] >= 0.0\n        assert params["L"] >= 1.0\n        assert isinstance(params["rho"], float)\n',
     '        assert isinstance(params["rho"], float)\n        assert 1.0 >= params["rho"] >= 0.0\n        assert params["L"] >= 1.0\n'),
    ("GaussianART.validate_params: entries of sigma_init only non-negative", "bound made non-strict", Ga,
     'assert np.all(params["sigma_init"] > 0.0)', 'assert np.all(params["sigma_init"] >= 0.0)'),
    # ---- constructors
    ("ART1.__init__: values stored under the other names", "swapped operands", A1,
     'params = {"rho": rho, "L": L}', 'params = {"rho": L, "L": rho}'),
    ("GaussianART.__init__: default alpha 1e-9", "changed constant", Ga,
     "alpha: float = 1e-10", "alpha: float = 1e-9"),
    ("BaseART.__init__: params stored before they are validated", "reordered effect", B,
     "        self.validate_params(params)\n        self.params = params\n",
     "        self.params = params\n        self.validate_params(params)\n"),
    ("BaseART.__init__: sample_counter_ starts at 1", "changed constant", B,
     "self.sample_counter_ = 0\n        self.weight_sample_counter_: List[int] = []",
     "self.sample_counter_ = 1\n        self.weight_sample_counter_: List[int] = []"),
    # ---- attribute access
    ("BaseART.__getattr__: membership test inverted", "changed condition", B,
     "        if key in self.params:\n            return self.params[key]",
     "        if key not in self.params:\n            return self.params[key]"),
    ("BaseART.__setattr__: redirect condition inverted", "changed condition", B,
     'if key in self.__dict__.get("params", {}):', 'if key not in self.__dict__.get("params", {}):'),
    ("BaseART.__setattr__: redirect writes the instance __dict__ too", "added effect", B,
     "            self.params[key] = value\n        else:",
     "            self.params[key] = value\n            super().__setattr__(key, value)\n        else:"),
    # ---- set_params
    ("BaseART.set_params: assign before validate (the former defect F25)", "reordered effect", B,
     "        self.validate_params(local_params)\n        for key, value in plain_params.items():\n"
     "            setattr(self, key, value)\n            valid_params[key] = value\n",
     "        for key, value in plain_params.items():\n"
     "            setattr(self, key, value)\n            valid_params[key] = value\n        self.validate_params(local_params)\n"),
    ("BaseART.set_params: only the passed values are validated, not the merged dict", "changed argument", B,
     "self.validate_params(local_params)", "self.validate_params(plain_params)"),
    ("BaseART.set_params: the merged dict does not receive the new value", "dropped statement", B,
     "                plain_params[key] = value\n                local_params[key] = value\n",
     "                plain_params[key] = value\n"),
    ("BaseART.set_params: validation dropped", "dropped statement", B,
     "        self.validate_params(local_params)\n", ""),
    ("BaseART.set_params: nested key split on \"_\"", "changed separator", B,
     'key.partition("__")', 'key.partition("_")'),
    ("BaseART.set_params: nested key split on \".\"", "changed separator", B,
     'key.partition("__")', 'key.partition(".")'),
    ("BaseART.set_params: unknown-name test inverted", "changed condition", B,
     "            if key not in valid_params:\n", "            if key in valid_params:\n"),
    ("BaseART.set_params: unknown names raise AttributeError", "changed exception", B,
     "                raise ValueError(\n", "                raise AttributeError(\n"),
    ("BaseART.set_params: nested/plain branches swapped", "changed condition", B,
     "            if delim:\n", "            if not delim:\n"),
    ("BaseART.set_params: empty call no longer returns early, non-empty does", "changed condition", B,
     "        if not params:\n", "        if params:\n"),
    ("BaseART.set_params: nested routing before the plain assignments", "reordered effect", B,
     "        for key, value in plain_params.items():\n            setattr(self, key, value)\n            valid_params[key] = value\n"
     "        for key, sub_params in nested_params.items():\n            valid_params[key].set_params(**sub_params)\n",
     "        for key, sub_params in nested_params.items():\n            valid_params[key].set_params(**sub_params)\n"
     "        for key, value in plain_params.items():\n            setattr(self, key, value)\n            valid_params[key] = value\n"),
    ("BaseART.set_params: nested sub-parameters stored under the group name", "swapped operands", B,
     "nested_params[key][sub_key] = value", "nested_params[sub_key][key] = value"),
]


def lean_env():
    lp = subprocess.run(["lake", "env", "printenv", "LEAN_PATH"], cwd=LEAN, capture_output=True, text=True, check=True).stdout.strip()
    lean = subprocess.run(["lake", "env", "sh", "-c", "command -v lean"], cwd=LEAN, capture_output=True, text=True,
                          check=True).stdout.strip().splitlines()[-1]
    return lean, lp.splitlines()[-1]


def fresh_tree(root: Path):
    if root.exists():
        shutil.rmtree(root)
    for rel in qtrans.FILES.values():
        (root / rel).parent.mkdir(parents=True, exist_ok=True)
        shutil.copy(REPO / rel, root / rel)


def check(root: Path, work: Path, lean: str, lp: str):
    """-> (verdict, detail): "pass" | "translator failed closed" | "proof build broke" """
    try:
        text = qtrans.generate(root)
    except (Unsupported, SyntaxError, KeyError, AttributeError, TypeError, IndexError, ValueError) as e:
        return "translator failed closed", f"{type(e).__name__}: {e}"
    src, out = work / "src" / "ArtGen", work / "out" / "ArtGen"
    src.mkdir(parents=True, exist_ok=True)
    out.mkdir(parents=True, exist_ok=True)
    (src / "Params.lean").write_text(text)
    env = dict(os.environ, LEAN_PATH=lp)
    p = subprocess.run([lean, f"--root={work / 'src'}", "-o", str(out / "Params.olean"), str(src / "Params.lean")],
                       cwd=work / "src", env=env, capture_output=True, text=True, timeout=600)
    if p.returncode != 0:
        return "proof build broke", "the generated file does not elaborate: " + (p.stdout + p.stderr).strip().split("\n")[0][:160]
    env = dict(os.environ, LEAN_PATH=f"{work / 'out'}:{lp}")
    try:
        p = subprocess.run([lean, "ArtGenProofs/ParamsSpec.lean"], cwd=LEAN, env=env, capture_output=True, text=True, timeout=600)
    except subprocess.TimeoutExpired:
        return "proof build broke", "the proof file did not check within 600 s"
    errs = [l for l in (p.stdout + p.stderr).split("\n") if ": error" in l]
    if p.returncode != 0 or errs:
        first = errs[0] if errs else (p.stdout + p.stderr).strip().split("\n")[0]
        return "proof build broke", f"{len(errs)} error(s), first: {first[:160]}"
    return "pass", ""


def main():
    keep = "--keep" in sys.argv
    lean, lp = lean_env()
    ok = True
    try:
        root, work = SCRATCH / "repo", SCRATCH / "lean"
        fresh_tree(root)
        v, d = check(root, work, lean, lp)
        committed = (LEAN / "ArtGen" / "Params.lean").read_text() == qtrans.generate(root)
        print(f"[{'ok' if v == 'pass' and committed else 'FAIL'}] unmutated source: {v} {d}; committed ArtGen/Params.lean "
              f"{'is' if committed else 'IS NOT'} what the translator produces", flush=True)
        ok &= v == "pass" and committed
        for name, kind, rel, old, new in MUTATIONS:
            fresh_tree(root)
            text = (root / rel).read_text()
            if text.count(old) != 1:
                print(f"[FAIL] {name}: the text to mutate occurs {text.count(old)} times in {rel}", flush=True)
                ok = False
                continue
            (root / rel).write_text(text.replace(old, new))
            v, d = check(root, work, lean, lp)
            det = v != "pass"
            ok &= det
            print(f"[{'detected' if det else 'MISSED'}] {name} ({kind}; {rel.split('/')[-1]}): {v} — {d}", flush=True)
    finally:
        if not keep:
            shutil.rmtree(SCRATCH, ignore_errors=True)
    print("SELFTEST", "PASSED" if ok else "FAILED")
    return 0 if ok else 1


if __name__ == "__main__":
    sys.exit(main())
