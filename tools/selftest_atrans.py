#!/venv/bin/python
"""Self-test of the ARTMAP translator tie (harness/artv/atrans.py + lean/ArtGenProofs/ARTMAPSpec.lean).

For the unmutated source and for each one-line semantic mutation of the translated Python functions
(artlib/supervised/ARTMAP.py, the accessors / predict_ab of artlib/supervised/SimpleARTMAP.py, BaseARTMAP.map_a2b,
BaseART.n_clusters and the defaults of BaseART.fit that the translation reads) this script
(the source is read from $VERIF_REPO, default /repo; the mutations of the first-batch reset of ARTMAP.partial_fit need
the source with fix F48)
  1. copies the four source files to a scratch repo under /tmp and applies the mutation there,
  2. runs `atrans.generate` on the scratch repo           -> "translator failed closed" if it raises Unsupported,
  3. compiles the generated text as module ArtGen.ARTMAP in a scratch directory (never in /verif/lean/ArtGen) and
     checks lean/ArtGenProofs/ARTMAPSpec.lean against it with that directory first on LEAN_PATH
                                                            -> "proof build broke" if Lean reports an error.
Every mutation must be detected, the unmutated source must pass.  Exit code 0 iff so.  /tmp is cleaned afterwards.
"""
from __future__ import annotations

import os
import shutil
import subprocess
import sys
import tempfile
from pathlib import Path

VERIF = Path(__file__).resolve().parents[1]
LEAN = VERIF / "lean"
sys.path.insert(0, str(VERIF / "harness"))

from artv import atrans  # noqa: E402
from artv.ktrans import Unsupported  # noqa: E402

REPO = Path(os.environ.get("VERIF_REPO", "/repo"))
# the spec checked against each generated text (override: a copy that is being worked on outside the project)
SPEC = Path(os.environ.get("ARTMAP_SPEC", LEAN / "ArtGenProofs" / "ARTMAPSpec.lean"))
A, S, M, B = (atrans.FILES[c] for c in ("ARTMAP", "SimpleARTMAP", "BaseARTMAP", "BaseART"))

# the conditional at the head of ARTMAP.partial_fit (fix F48), as it stands in the source
FIRST_BATCH_BLOCK = (
    '        if not hasattr(self, "labels_"):\n'
    '            # first batch of this host: the B-side starts a new model, as in fit\n'
    '            # (SimpleARTMAP.partial_fit does the same for the A-side)\n'
    '            self.module_b.W = []\n'
    '            self.module_b.weight_sample_counter_ = []\n'
    '            self.module_b.sample_counter_ = 0\n'
    '            self.module_b.labels_ = np.zeros((0,), dtype=int)\n')

# (label, file, old text (must occur exactly once), new text)
MUTATIONS = [
    ("ARTMAP.fit: A-side supervised by its own labels instead of the B-side labels", A,
     "y_c = self.module_b.labels_", "y_c = self.module_a.labels_"),
    ("ARTMAP.fit: B-side trained for one epoch only", A,
     "            y,\n            max_iter=max_iter,", "            y,\n            max_iter=1,"),
    ("ARTMAP.fit: A-side trained on the raw targets (type error)", A,
     "            X,\n            y_c,\n", "            X,\n            y,\n"),
    ("ARTMAP.fit: B-side labels read before the B-side is trained (reordered effect)", A,
     "        self.module_b.fit(\n            y,\n            max_iter=max_iter,\n            match_tracking=match_tracking,\n"
     "            epsilon=epsilon,\n        )\n\n        y_c = self.module_b.labels_\n",
     "        y_c = self.module_b.labels_\n        self.module_b.fit(\n            y,\n            max_iter=max_iter,\n"
     "            match_tracking=match_tracking,\n            epsilon=epsilon,\n        )\n"),
    ("ARTMAP.fit: B-side training dropped (call turned into a validation)", A,
     "        self.module_b.fit(\n            y,\n            max_iter=max_iter,\n            match_tracking=match_tracking,\n"
     "            epsilon=epsilon,\n        )\n", "        self.module_b.validate_data(y)\n"),
    ("ARTMAP.fit: A-side epsilon not forwarded (swapped with a constant mode)", A,
     "            y_c,\n            max_iter=max_iter,\n            match_tracking=match_tracking,",
     "            y_c,\n            max_iter=max_iter,\n            match_tracking=\"MT-\","),
    ("ARTMAP.partial_fit: the whole labels_b forwarded (finding F08 re-introduced)", A,
     "self.labels_b[-X.shape[0] :]", "self.labels_b"),
    ("ARTMAP.partial_fit: first n labels instead of the last n", A,
     "self.labels_b[-X.shape[0] :]", "self.labels_b[: X.shape[0]]"),
    ("ARTMAP.partial_fit: slice length taken from y", A,
     "self.labels_b[-X.shape[0] :]", "self.labels_b[-y.shape[0] :]"),
    ("ARTMAP.partial_fit: B-side re-fitted from scratch (fit instead of partial_fit)", A,
     "self.module_b.partial_fit(y, match_tracking=match_tracking, epsilon=epsilon)",
     "self.module_b.fit(y, match_tracking=match_tracking, epsilon=epsilon)"),
    ("ARTMAP.partial_fit: A-side re-fitted from scratch (super().fit)", A,
     "super(ARTMAP, self).partial_fit(", "super(ARTMAP, self).fit("),
    ("ARTMAP.partial_fit: A-side trained before the B-side (reordered effect)", A,
     "        self.module_b.partial_fit(y, match_tracking=match_tracking, epsilon=epsilon)\n"
     "        super(ARTMAP, self).partial_fit(\n            X,\n            self.labels_b[-X.shape[0] :],\n"
     "            match_tracking=match_tracking,\n            epsilon=epsilon,\n        )\n",
     "        super(ARTMAP, self).partial_fit(\n            X,\n            self.labels_b[-X.shape[0] :],\n"
     "            match_tracking=match_tracking,\n            epsilon=epsilon,\n        )\n"
     "        self.module_b.partial_fit(y, match_tracking=match_tracking, epsilon=epsilon)\n"),
    # the reset of the B-side on the host's first batch (fix F48)
    ("ARTMAP.partial_fit: first-batch test with the polarity flipped (B-side reset on every later batch)", A,
     'if not hasattr(self, "labels_"):', 'if hasattr(self, "labels_"):'),
    ("ARTMAP.partial_fit: first-batch reset of module_b.W dropped", A,
     "            self.module_b.W = []\n", ""),
    ("ARTMAP.partial_fit: first-batch reset of module_b.weight_sample_counter_ dropped", A,
     "            self.module_b.weight_sample_counter_ = []\n", ""),
    ("ARTMAP.partial_fit: first-batch reset of module_b.sample_counter_ dropped", A,
     "            self.module_b.sample_counter_ = 0\n", ""),
    ("ARTMAP.partial_fit: first-batch reset of module_b.labels_ dropped", A,
     "            self.module_b.labels_ = np.zeros((0,), dtype=int)\n", ""),
    ("ARTMAP.partial_fit: first-batch reset applied to module_a instead of module_b (whole block)", A,
     FIRST_BATCH_BLOCK, FIRST_BATCH_BLOCK.replace("self.module_b.", "self.module_a.")),
    ("ARTMAP.partial_fit: first-batch reset of W applied to module_a (one line)", A,
     "            self.module_b.W = []\n", "            self.module_a.W = []\n"),
    ("ARTMAP.partial_fit: first-batch reset moved after module_b.partial_fit (the batch's own B-side training is wiped)", A,
     FIRST_BATCH_BLOCK + "        self.module_b.partial_fit(y, match_tracking=match_tracking, epsilon=epsilon)\n",
     "        self.module_b.partial_fit(y, match_tracking=match_tracking, epsilon=epsilon)\n" + FIRST_BATCH_BLOCK),
    ("ARTMAP.partial_fit: first-batch reset leaves the sample counter at 1 (off by one)", A,
     "            self.module_b.sample_counter_ = 0\n", "            self.module_b.sample_counter_ = 1\n"),
    ("ARTMAP.partial_fit: first-batch reset leaves one stale label (np.zeros((1,)))", A,
     "self.module_b.labels_ = np.zeros((0,), dtype=int)", "self.module_b.labels_ = np.zeros((1,), dtype=int)"),
    ("ARTMAP.partial_fit: first-batch test reads module_b's W instead of the host's labels_", A,
     'if not hasattr(self, "labels_"):', 'if not hasattr(self.module_b, "W"):'),
    ("ARTMAP.partial_fit: first-batch reset unconditional (block dedented: every batch restarts the B-side)", A,
     FIRST_BATCH_BLOCK, "\n".join(ln[4:] for ln in FIRST_BATCH_BLOCK.splitlines()[1:]) + "\n"),
    ("ARTMAP.labels_b reads the A-side labels", A,
     "        return self.module_b.labels_\n", "        return self.module_a.labels_\n"),
    ("ARTMAP.labels_ab: A and B swapped", A,
     '{"A": self.labels_a, "B": self.module_b.labels_}', '{"A": self.module_b.labels_, "B": self.labels_a}'),
    ("ARTMAP.labels_ab: key renamed", A,
     '{"A": self.labels_a, "B": self.module_b.labels_}', '{"A": self.labels_a, "b": self.module_b.labels_}'),
    ("ARTMAP.predict returns the pair of predict_ab (type error)", A,
     "return super(ARTMAP, self).predict(X)", "return super(ARTMAP, self).predict_ab(X)"),
    ("ARTMAP.predict_regression: always the first centre", A,
     "[centers[c] for c in C]", "[centers[0] for c in C]"),
    ("ARTMAP.predict_regression: index off by one", A,
     "[centers[c] for c in C]", "[centers[c + 1] for c in C]"),
    ("ARTMAP.predict_regression: centres of the A-side", A,
     "centers = self.module_b.get_cluster_centers()", "centers = self.module_a.get_cluster_centers()"),
    ("ARTMAP overrides step_pred (the inherited predict would dispatch to it)", A,
     "    def predict(self, X: np.ndarray) -> np.ndarray:",
     "    def step_pred(self, x):\n        return 0, 0\n\n    def predict(self, X: np.ndarray) -> np.ndarray:"),
    ("SimpleARTMAP.predict_ab: A vector filled with the classes", S,
     "            y_a[i] = c_a\n", "            y_a[i] = c_b\n"),
    ("SimpleARTMAP.predict_ab: result pair swapped", S,
     "        return y_a, y_b\n", "        return y_b, y_a\n"),
    ("SimpleARTMAP.predict_ab: B vector never written (dropped statement)", S,
     "            y_a[i] = c_a\n            y_b[i] = c_b\n", "            y_a[i] = c_a\n"),
    ("SimpleARTMAP.labels_a reads self.labels_", S,
     "        return self.module_a.labels_\n", "        return self.labels_\n"),
    ("SimpleARTMAP.labels_ab: B read from the A-side", S,
     '{"A": self.labels_a, "B": self.labels_}', '{"A": self.labels_a, "B": self.labels_a}'),
    ("SimpleARTMAP.n_clusters_b: duplicates counted (set dropped)", S,
     "len(set(c for c in self.map.values()))", "len(self.map.values())"),
    ("SimpleARTMAP.n_clusters_b: keys instead of values", S,
     "len(set(c for c in self.map.values()))", "len(set(c for c in self.map.keys()))"),
    ("SimpleARTMAP.n_clusters_a counts the classes", S,
     "        return self.n_clusters\n", "        return self.n_clusters_b\n"),
    ("BaseARTMAP.map_a2b: indexed by the unique values instead of the inverse", M,
     "dtype=int)[inv]", "dtype=int)[u]"),
    ("BaseARTMAP.map_a2b: looks up the inverse indices instead of the unique labels", M,
     "[self.map[x] for x in u]", "[self.map[x] for x in inv]"),
    ("BaseARTMAP.map_a2b: integer argument returned unmapped", M,
     "            return self.map[y_a]\n", "            return y_a\n"),
    ("BaseARTMAP.map_a2b: type test negated", M,
     "if isinstance(y_a, int):", "if not isinstance(y_a, int):"),
    ("BaseARTMAP.map_a2b: inverse not requested", M,
     "np.unique(y_a, return_inverse=True)", "np.unique(y_a, return_index=True)"),
    ("BaseART.n_clusters counts the labels", B,
     "            return len(self.W)\n", "            return len(self.labels_)\n"),
    ("BaseART.n_clusters: branches swapped", B,
     "            return len(self.W)\n        else:\n            return 0\n", "            return 0\n        else:\n            return len(self.W)\n"),
    ("BaseART.fit: default of verbose changed (ARTMAP.fit leaves it to the default)", B,
     "        epsilon: float = 0.0,\n        verbose: bool = False,\n    ):\n        \"\"\"Fit the model to the data.",
     "        epsilon: float = 0.0,\n        verbose: bool = True,\n    ):\n        \"\"\"Fit the model to the data."),
    ("BaseART.partial_fit: reset function no longer optional-None by default", B,
     "        X: np.ndarray,\n        match_reset_func: Optional[Callable] = None,\n        match_tracking",
     "        X: np.ndarray,\n        match_reset_func: Optional[Callable] = min,\n        match_tracking"),
]


def lean_env():
    def last(cmd):
        out = subprocess.run(cmd, cwd=LEAN, capture_output=True, text=True, check=True).stdout
        return [ln for ln in out.splitlines() if ln.strip()][-1].strip()
    return last(["lake", "env", "printenv", "LEAN_PATH"]), last(["lake", "env", "which", "lean"])


def scratch_repo(root: Path, file: str | None, old: str, new: str) -> Path:
    repo = root / "repo"
    if repo.exists():
        shutil.rmtree(repo)
    for f in (A, S, M, B):
        (repo / f).parent.mkdir(parents=True, exist_ok=True)
        text = (REPO / f).read_text()
        if f == file:
            if text.count(old) != 1:
                raise SystemExit(f"mutation pattern occurs {text.count(old)} times in {f}: {old!r}")
            text = text.replace(old, new)
        (repo / f).write_text(text)
    return repo


def check(root: Path, repo: Path, lean_path: str, lean_bin: str) -> tuple[str, str]:
    """-> (verdict, detail); verdict in {"pass", "failed closed", "proof build broke", "generated file does not compile"}"""
    try:
        text = atrans.generate(repo)
    except (Unsupported, SyntaxError, KeyError, AttributeError, TypeError, IndexError) as e:
        return "failed closed", f"{type(e).__name__}: {e}"[:200]
    gen = root / "gen"
    if gen.exists():
        shutil.rmtree(gen)
    (gen / "ArtGen").mkdir(parents=True)
    # Lean resolves `ArtGen.X` in the first LEAN_PATH root that has an `ArtGen` directory: the scratch root therefore also
    # needs the compiled sibling modules the spec imports (ArtGen.Control, ArtGen.Kernels …) — linked, never ARTMAP itself
    for lib in lean_path.split(":"):
        if (Path(lib) / "ArtGen" / "Control.olean").exists():
            for f in (Path(lib) / "ArtGen").iterdir():
                if not f.name.startswith("ARTMAP."):
                    os.symlink(f, gen / "ArtGen" / f.name)
            break
    else:
        return "generated file does not compile", "ArtGen/Control.olean not found on LEAN_PATH"
    (gen / "ArtGen" / "ARTMAP.lean").write_text(text)
    env = dict(os.environ, LEAN_PATH=f"{gen}:{lean_path}")
    r = subprocess.run([lean_bin, "-o", "ArtGen/ARTMAP.olean", "ArtGen/ARTMAP.lean"], cwd=gen, env=env,
                       capture_output=True, text=True)
    if r.returncode != 0:
        return "generated file does not compile", (r.stdout + r.stderr).strip().splitlines()[0][:200]
    env = dict(os.environ, LEAN_PATH=f"{gen}:{lean_path}")
    r = subprocess.run([lean_bin, str(SPEC)], cwd=LEAN, env=env, capture_output=True, text=True)
    errs = [ln for ln in (r.stdout + r.stderr).splitlines() if ": error" in ln]
    if r.returncode != 0 or errs:
        return "proof build broke", (errs[0] if errs else f"exit code {r.returncode}")[:160]
    return "pass", ""


def main() -> int:
    subprocess.run(["lake", "build", "ArtModel.ImpARTMAP", "ArtGen.Control", "ArtGenProofs.ControlFit", "ArtProps.C09"], cwd=LEAN,
                   check=True, stdout=subprocess.DEVNULL, stderr=subprocess.DEVNULL)
    lean_path, lean_bin = lean_env()
    root = Path(tempfile.mkdtemp(prefix="selftest_atrans_"))
    ok = True
    try:
        verdict, detail = check(root, scratch_repo(root, None, "", ""), lean_path, lean_bin)
        print(f"[{'ok' if verdict == 'pass' else 'FAIL'}] unmutated source: {verdict} {detail}")
        ok &= verdict == "pass"
        committed = (LEAN / "ArtGen" / "ARTMAP.lean").read_text()
        same = committed == atrans.generate(REPO)
        print(f"[{'ok' if same else 'FAIL'}] lean/ArtGen/ARTMAP.lean is byte-identical to generate({REPO})")
        ok &= same
        for label, file, old, new in MUTATIONS:
            verdict, detail = check(root, scratch_repo(root, file, old, new), lean_path, lean_bin)
            detected = verdict in ("failed closed", "proof build broke", "generated file does not compile")
            print(f"[{'ok' if detected else 'UNDETECTED'}] {label}: {verdict}" + (f"  ({detail})" if detail else ""))
            ok &= detected
    finally:
        shutil.rmtree(root, ignore_errors=True)
    print("selftest_atrans:", "all mutations detected, unmutated source passes" if ok else "FAILED")
    return 0 if ok else 1


if __name__ == "__main__":
    sys.exit(main())
