#!/usr/bin/env python3
"""Confirm a seeded change and run checks against it, without touching /repo's working tree.

    tools/try_mutant.py <dir with patch.diff + demo.py> <name> C05 C06 …   [--seeds 0,1] [--keep]

Creates a scratch worktree of /repo HEAD, applies the patch there, runs the unit tests and the
demonstration (modified and unmodified), then `VERIF_REPO=<worktree> ./check Cxx --no-build` for each
property, and removes the worktree.  Prints a JSON summary (also used to fill seeded/<name>/meta.json).
"""
import json
import os
import subprocess
import sys
import shutil
from pathlib import Path

VERIF = Path(__file__).resolve().parents[1]
PY = "/venv/bin/python"


def sh(cmd, cwd=None, env=None, timeout=1800):
    p = subprocess.run(cmd, cwd=cwd, env=env, capture_output=True, text=True, timeout=timeout)
    return p.returncode, p.stdout + p.stderr


def main():
    args = [a for a in sys.argv[1:] if not a.startswith("--")]
    seeds = [0]
    for a in sys.argv[1:]:
        if a.startswith("--seeds"):
            seeds = [int(t) for t in a.split("=")[1].split(",")]
    src, name, props = Path(args[0]).resolve(), args[1], args[2:]
    wt = Path("/tmp/mutrun") / name
    if wt.exists():
        sh(["git", "-C", "/repo", "worktree", "remove", "--force", str(wt)])
    wt.parent.mkdir(exist_ok=True)
    rc, out = sh(["git", "-C", "/repo", "worktree", "add", "-q", str(wt), "HEAD"])
    assert rc == 0, out
    res = {"name": name, "patch": str(src / "patch.diff")}
    try:
        env = dict(os.environ, PYTHONPATH=str(wt), PYTHONDONTWRITEBYTECODE="1")
        shutil.copy(src / "demo.py", wt / "demo.py")
        rc0, out0 = sh([PY, "demo.py"], cwd=wt, env=env, timeout=600)
        res["demo_unmodified_rc"] = rc0
        rc, out = sh(["git", "apply", "--3way", str(src / "patch.diff")], cwd=wt)
        if rc != 0:
            rc, out = sh(["git", "apply", str(src / "patch.diff")], cwd=wt)
        res["patch_applies"] = rc == 0
        if rc != 0:
            res["apply_error"] = out[-500:]
            print(json.dumps(res, indent=1))
            return 1
        rc1, out1 = sh([PY, "demo.py"], cwd=wt, env=env, timeout=600)
        res["demo_modified_rc"] = rc1
        res["demo_modified_out"] = out1[-600:]
        rct, outt = sh([PY, "-m", "pytest", "-q", "-p", "no:cacheprovider", "unit_tests"], cwd=wt, env=env, timeout=1200)
        res["pytest"] = [l for l in outt.strip().split("\n") if "passed" in l or "failed" in l][-1:]
        res["checks"] = {}
        for p in props:
            for s in seeds:
                e2 = dict(os.environ, VERIF_REPO=str(wt), VERIF_SEED=str(s))
                rc, out = sh([str(VERIF / "check"), p, "--no-build"], cwd=VERIF, env=e2, timeout=3000)
                vio = [l for l in out.split("\n") if l.startswith("VIOLATION")]
                iss = [l.strip()[:260] for l in out.split("\n") if l.strip().startswith("issue ")][:4]
                res["checks"][f"{p}@seed{s}"] = {"rc": rc, "violations": vio[:3], "issues": iss}
    finally:
        if "--keep" not in sys.argv:
            sh(["git", "-C", "/repo", "worktree", "remove", "--force", str(wt)])
    print(json.dumps(res, indent=1))
    return 0


if __name__ == "__main__":
    sys.exit(main())
