"""Estimator specs and matching valid data, per class."""
from __future__ import annotations

import math
import random

import numpy as np

from . import gen

ELEM = ["FuzzyART", "ART1", "ART2A", "HypersphereART", "EllipsoidART", "GaussianART", "BayesianART",
        "QuadraticNeuronART"]
EXACT = ["FuzzyART", "ART1", "ART2A"]          # rational kernels: end-to-end over Q
HAS_BETA = ["FuzzyART", "ART2A", "HypersphereART", "EllipsoidART"]


def elem_spec(r: random.Random, cls: str, d: int, boundary: bool = True) -> dict:
    """hyper-parameters accepted by validate_params, dyadic, boundary values included"""
    rho = r.choice(gen.DYADIC_RHO)
    if cls == "FuzzyART":
        p = gen.fuzzy_params(r)
        return {"cls": cls, **p}
    if cls == "ART1":
        L = r.choice([1.0, 2.0, 1.5, 4.0])
        if rho == 0.0 and L == 1.0:
            L = 2.0
        return {"cls": cls, "rho": rho, "L": L}
    if cls == "ART2A":
        amax = 1 / math.sqrt(d)
        alpha = r.choice([0.0, 2.0 ** -6, 2.0 ** -3, 0.25])
        if alpha > amax:
            alpha = 0.0
        return {"cls": cls, "rho": rho, "alpha": alpha, "beta": r.choice([1.0, 0.5, 0.25])}
    if cls == "HypersphereART":
        alpha = r.choice([2.0 ** -10, 0.25, 0.0]) if rho > 0 else r.choice([2.0 ** -10, 0.25])
        return {"cls": cls, "rho": rho, "alpha": alpha, "beta": r.choice([1.0, 0.5]),
                "r_hat": r.choice([1.0, 2.0, 0.5 * math.ceil(2 * math.sqrt(d)), 0.5, 0.25])}
    if cls == "EllipsoidART":
        alpha = r.choice([2.0 ** -10, 0.25, 0.0]) if rho > 0 else r.choice([2.0 ** -10, 0.25])
        return {"cls": cls, "rho": rho, "alpha": alpha, "beta": r.choice([1.0, 0.5]),
                "mu": r.choice([1.0, 0.5, 0.75]), "r_hat": r.choice([1.0, 2.0, 4.0, 0.5])}
    if cls == "GaussianART":
        return {"cls": cls, "rho": r.choice([0.0, 0.25, 0.5, 0.75]), "sigma_init": [r.choice([0.25, 0.5, 1.0])] * d,
                "alpha": r.choice([1e-10, 2.0 ** -10])}
    if cls == "BayesianART":
        s = r.choice([0.0625, 0.25, 1.0])
        return {"cls": cls, "rho": r.choice([2.0 ** -12, 2.0 ** -6, 0.0625, 0.5, 2.0]),
                "cov_init": (np.eye(d) * s).tolist()}
    if cls == "QuadraticNeuronART":
        return {"cls": cls, "rho": r.choice([0.0, 0.25, 0.5, 0.75, 0.9]), "s_init": r.choice([0.5, 1.0, 2.0]),
                "lr_b": r.choice([0.25, 0.5, 1.0]), "lr_w": r.choice([0.0, 0.125, 0.5]),
                "lr_s": r.choice([0.0, 0.125, 0.5])}
    raise KeyError(cls)


def elem_data(r: random.Random, cls: str, n: int, d: int, style=None, floats: bool = False) -> np.ndarray:
    """data that passes the class's own validate_data; `d` = raw dimension"""
    if cls == "ART1":
        return gen.binary_rows(r, n, d)
    X = gen.float_rows(r, n, d) if floats else gen.grid_rows(r, n, d, style=style)
    if cls == "FuzzyART":
        return gen.cc(X)
    return X


def width(cls: str, d: int) -> int:
    return 2 * d if cls == "FuzzyART" else d


def is_inverted(cls: str) -> bool:
    return cls == "BayesianART"
