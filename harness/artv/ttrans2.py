"""TopoART.step_fit translator: the Python AST of `artlib/topological/TopoART.py` (`step_fit`, `update`, and what
they call: `add_weight`, `_set_params`, `_deep_copy_params`, the delegating kernel methods, and the inherited
`BaseART.set_weight`)  ->  Lean 4 definitions in `lean/ArtGen/TopoStep.lean` (namespace `Art.Gen.TopoARTStep`).

`ttrans.py` (a sibling) translates TopoART's bookkeeping (prune, post_step_fit, …); this module translates the
two-winner training step.  Like `dtrans.py` it is a *profile* of the control-flow translator `ctrans.py`: it re-uses
ctrans' statement and expression translation (`tr_block`, `ext`, `Env`, the join / continuation rules for `if`, the
`while` rule, the zip / comprehension rules, INLINE calls, calls of methods translated on their own …) unchanged and
adds the rules below.  ctrans.py is not edited: while `generate` runs, its profile tables, its two dispatchers
`ext` / `tr_block` and its method lookup `find_function` are swapped for the functions of this module (which try
their own rules first and otherwise call the original); everything is restored in a `finally`.

`lean/ArtGenProofs/TopoStepSpec.lean` proves the generated `step_fit` equal to the model's `topoStep`
(ArtModel/Topo.lean: `topoSearch`, `topoStepSearch`, `applyTopo`) for all arguments, under a kernel contract on the
base module's methods, with the base module's params restored.

The translation is syntax-directed.  Rules inherited from ctrans (see its docstring):
  x = e ; x: T = e ; self.a = e ; self.a += e ; self.a[i] += e ; self.a[i] = e ; v[i] = e ; v[:] = e ; self.a.append(v)
  if / else with and without return ; return e ; while c: B (whileFuel, helpers `step_fit_loop1_cond/_body`) ;
  a, b = zip(*[…]) ; a, b = e ; [e for v in xs] ; len ; int(np.nanargmax(T)) ; any(~np.isnan(T)) ; np.array(e) ;
  deepcopy(e) ; np.nan ; f is None (callback) ; callback calls ; and / or / not ; == ;
  self.m(args) as a statement, m in INLINE (`add_weight`, `set_weight`, `_set_params`): the translated body of m ;
  self.m() in an expression, m in INLINE with a single `return e` (`_deep_copy_params`): e ;
  x = self.m(args), m translated on its own (`update`): let r_ := m E ⟨self⟩ args; re-bind every attribute; x := r_.2 ;
  self._match_tracking_operator(m) (inherited from BaseART; an override fails closed)   ->  (E.operator m)
Rules of this module:
  method lookup                                  TopoART first, then BaseART (`set_weight`, `_match_tracking_operator`)
  self.W                                         the state variable self_W (the W property aliases base_module.W;
                                                 getter and setter are checked to be exactly that alias)
  self.base_module.params  /  … = e              the state variable self_bparams  /  let self_bparams := e
  self.m(args), m a delegating method            (let m_p1 := a1; …; <the body's return expression>)
        (category_choice / match_criterion_bin / new_weight: the body must be a single `return self.base_module.m(…)`)
  self.base_module.m(args), m a kernel method    (E.m [self_W] args)        `category_choice` also receives self_W
        (argument order is read from BaseART's own signature; argument types are checked)
  b = self._match_tracking(c, eps, p, m)         let (b, mt_params_) := E.match_tracking c eps self_bparams m
                                                 let self_bparams := mt_params_
        (the callee's source is inspected: it must write exactly `self.base_module.params`, and its `params`
         parameter must be unread — then the argument `p` is dropped, see DROPPED)
  -k   (int literal)                             (-k)                                                   : Int
  a < b, a <= b, a > b, a >= b  (Nat / Int)      (decide (a < b)) …       (a Nat operand next to an Int one is cast)
  x = e   (x an Int variable, e : Nat)           let x := (Int.ofNat e)
  return e  (e : Nat, the method returns Int)    return (Int.ofNat e)     (literals: (k : Int))
  p["key"]  (p a params dict)                    (E.param p "key")                                      : α
  dict(p, **{"k": v})  (p a params dict, v : α)  (E.dict_with p "k" v)
  dict(c, **{"k1": v1, …})  (c a cache, vi ints) (E.cache_with (… (E.cache_with c "k1" v1) …) "kn" vn)
  (c if c else {})     (c a cache)               (E.cache_or_empty c)
  c.get("key", d) / c["key"]  (c a cache)        ((E.cache_int c "key").getD d) / (E.cache_int c "key").get!
  self.a[i, j] += d    (a 2-D)                   let self_a := Art.ImpTopo.npAddAt2 self_a i j d        (Int index: .toNat)
  np.zeros((r, c)[, dtype=int])                  (Art.ImpTopo.npZeros2 r c)
  np.zeros((n,), dtype=bool)                     (List.replicate n false)
  np.pad(a, ((t, b), (l, r)), "constant")        (Art.ImpTopo.npPad2 a t b l r)
  np.pad(v, (l, r), "constant")                  (Art.ImpTopo.npPad1 v l r false)                       (boolean vectors)
Anything else raises `Unsupported`: the translator fails closed.
"""
from __future__ import annotations

import ast
import os
import sys
from contextlib import contextmanager
from pathlib import Path

from . import ctrans as C
from .ktrans import Unsupported, find_function as _k_find

VERIF = Path(__file__).resolve().parents[2]
FILE = "artlib/topological/TopoART.py"
BASE_FILE = C.BASE
CLS = "TopoART"
NAMESPACE = "Art.Gen.TopoARTStep"
EXT_TY = "Art.ImpTopoStep.Ext Xt Wt P C α"
SELF_TY = "Art.ImpTopoStep.Self Wt P"
OUT = "TopoStep.lean"

COVERS = ("TopoART.step_fit (with the inlined add_weight, _set_params, _deep_copy_params, the inherited BaseART.set_weight and the "
          "delegating category_choice / match_criterion_bin / new_weight) and TopoART.update (as a whole: the adjacency increment "
          "driven by the cache keys resonant_c / current_c, then the base module's update) are translated from "
          "artlib/topological/TopoART.py and artlib/common/BaseART.py and proved equal to the model's topoStep (= applyTopo ∘ "
          "topoStepSearch ∘ topoSearch, first-sample branch included) of ArtModel/Topo.lean, with the base module's params "
          "restored; C14's topo_step_spec (best updated at beta, second at beta_lower, edge best→second incremented, returns best "
          "or a new category), topo_step_first, topo_step_new_iff and topoStep_shape are transported to the generated step_fit.  "
          "Abstract (fields of Art.ImpTopoStep.Ext, constrained by the contract Art.GenSpec.TopoStep.Contract): the base module's "
          "category_choice, match_criterion_bin, update, new_weight, the inherited _match_tracking_operator, the wrapper's "
          "_match_tracking (its decision table is translated by ktrans: Gen.TopoART.match_tracking), and the dict operations on "
          "the opaque params / cache dictionaries (dict(params, beta=…), params[\"beta_lower\"], dict(cache, resonant_c=…, "
          "current_c=…), cache.get / cache[…]); numpy operations are the helpers of ArtModel/ImpTopo.lean.")

THEOREMS = [
    "TopoStep.loop_follows_topoSearch",
    "TopoStep.update_spec",
    "TopoStep.body_spec",
    "TopoStep.step_fit_first_sample",
    "TopoStep.step_fit_spec",
    "TopoStep.step_fit_restores_params",
    "TopoStep.gen_two_winner",
    "TopoStep.gen_first_sample",
    "TopoStep.gen_new_iff",
    "TopoStep.gen_shape",
    "TopoStep.scalar_contract",
    "TopoStep.scalar_step_fit",
]

# what is dropped, by which explicit rule, and why
DROPPED = {
    "docstrings": "ctrans.strip_doc: no effect",
    "assert statements": "ctrans.tr_block drops ast.Assert (`assert cache is not None` in update; the isinstance asserts of "
                         "_match_tracking): the theorems are about calls that do not raise",
    "type annotations and parameter defaults": "`resonant_c: int = -1` is the assignment; defaults are never substituted: every "
                                               "call site of a translated / delegating method must supply every argument, "
                                               "otherwise Unsupported",
    "np.array(e), int(e) of an index, deepcopy(e)": "ctrans.ext renders these casts / copies as the identity: Lean values are "
                                                    "immutable and the index is already a Nat",
    "dtype": "np.zeros((1, 1)) is float64 and np.zeros(…, dtype=int) int64 in numpy; both are the Nat matrix here (adjacency only "
             "ever holds non-negative integers; step_fit overwrites the float one immediately)",
    "W property": "TopoART.W (getter `return self.base_module.W`, setter `self.base_module.W = new_W`) is identified with the "
                  "state variable self_W; the translator checks that getter and setter are exactly this alias",
    "the `params` argument of self._match_tracking(cache, epsilon, self.params, method)":
        "rule `match_tracking_stmt`: dropped only after checking in the callee's source that its parameter `params` is not read "
        "outside assert statements (the wrapper's own params dict plays no role in the rule)",
    "aliasing": "Python objects are rendered as immutable values (ctrans convention): `deepcopy(d)` and `d` are the same Lean value, "
                "`params = self.base_module.params` is a copy, and `_match_tracking`'s in-place write `params[\"rho\"] = …` is the "
                "re-binding of self_bparams — sound here because base_params is a deep copy and no alias of the dict is read "
                "after match tracking wrote it (checked by hand, not by the translator)",
    "exceptions": "an IndexError of `W[c]` / `T_cache[c]` reads as the default element (`[c]!`), a KeyError of `cache[key]` as "
                  "`.get!`; the spec theorems show these defaults are never reached (indices come from nanargmax of a vector "
                  "as long as W, the cache keys are written just before they are read)",
}

# ------------------------------------------------------------------------------------------------ profile

SELF_FIELDS = {"W": ("self_W", "W"), "weight_sample_counter_": ("self_cnt", "cnt"), "adjacency": ("self_adj", "adj"),
               "_permanent_mask": ("self_perm", "perm"), "labels_": ("self_labels", "labels"),
               "sample_counter_": ("self_n", "n"), "params": ("self_params", "params"), "__bparams": ("self_bparams", "bparams")}
SELF_TYPES = {"W": ("list", "Wt"), "weight_sample_counter_": ("list", "Nat"), "adjacency": ("list", ("list", "Nat")),
              "_permanent_mask": ("list", "Bool"), "labels_": ("list", "Int"), "sample_counter_": "Nat", "params": "P",
              "__bparams": "P"}
READ_ONLY = {"params"}
BPARAMS = "self.base_module.params"          # the one attribute of the base module that step_fit reads and writes itself
METHODS = ["update", "step_fit"]             # translated on their own, in this order
METHOD_RET = {"update": "Wt", "step_fit": "Int"}
PARAM_TYPES = {"x": "Xt", "match_tracking": "Art.MT", "epsilon": "α", "i": "Xt", "w": "Wt", "params": "P", "cache": "C"}
INLINE = {"add_weight", "set_weight", "_set_params", "_deep_copy_params"}
INLINE_FROM = {"add_weight": CLS, "set_weight": "BaseART", "_set_params": CLS, "_deep_copy_params": CLS}
# TopoART methods whose body is a single `return self.base_module.<m>(…)`: inlined as an expression
DELEGATES = {"category_choice", "match_criterion_bin", "new_weight"}
# kernel methods of the base module: name -> (field of E, parameter names after self in BaseART, reads self.W first?, result)
A = ("opt", "α")
BASE_MODULE = {
    "category_choice": ("category_choice", ["i", "w", "params"], True, ("prod", [A, "C"])),
    "match_criterion_bin": ("match_criterion_bin", ["i", "w", "params", "cache", "op"], False, ("prod", ["Bool", "C"])),
    "update": ("update", ["i", "w", "params", "cache"], False, "Wt"),
    "new_weight": ("new_weight", ["i", "params"], False, "Wt"),
}
ARG_TYPES = {"i": "Xt", "w": "Wt", "params": "P", "cache": "C", "op": "Bool", "method": "Art.MT", "epsilon": "α"}
MATCH_TRACKING = ("_match_tracking", "match_tracking", ["cache", "epsilon", "params", "method"], ("base_module", "params"))
INHERITED = {"_match_tracking_operator", "set_weight"}      # must come from BaseART: an override in TopoART fails closed

PROFILE = dict(
    SELF_FIELDS=SELF_FIELDS, SELF_TYPES=SELF_TYPES, SELF_TY=SELF_TY, METHOD_RET=METHOD_RET, TRANSLATED=list(METHODS),
    INLINE=INLINE, PURE_INLINE=set(), NESTED={}, NAMESPACE=NAMESPACE, FILE=FILE, PARAM_TYPES=PARAM_TYPES,
    IGNORED_PARAMS=set(), WRITE_ONLY=set(), HAS_FLAGS={},
    EXTERNAL={"_match_tracking_operator": ("operator", ["method"], ())}, EXTERNAL_RET={"_match_tracking_operator": "Bool"},
    READS={}, GUARDS=set(), GUARD_FUNCS=set(),
)

_PATCHED = ["ext", "tr_block", "find_function"]
_ORIG = {}
_TREES = {}


def _all_defs(tree, cls, fn):
    for node in tree.body:
        if isinstance(node, ast.ClassDef) and node.name == cls:
            return [f for f in node.body if isinstance(f, ast.FunctionDef) and f.name == fn]
    raise Unsupported(f"class {cls} not found")


def _find(tree, cls, fn):
    """method lookup for a TopoART instance: TopoART first, then BaseART (`cls == "BaseART"`: BaseART only)"""
    if cls != "BaseART":
        defs = _all_defs(_TREES[CLS], CLS, fn)
        if len(defs) > 1:
            raise Unsupported(f"{CLS}.{fn} is defined {len(defs)} times")
        if defs:
            return defs[0]
    return _k_find(_TREES["BaseART"], "BaseART", fn)


@contextmanager
def _profile(trees):
    keys = set(PROFILE) | set(_PATCHED) | set(C.PROFILES["BaseART"])
    saved = {k: getattr(C, k) for k in keys if hasattr(C, k)}
    added = [k for k in keys if not hasattr(C, k)]
    _ORIG.update({k: getattr(C, k) for k in _PATCHED})
    _TREES.clear()
    _TREES.update(trees)
    try:
        for k, v in PROFILE.items():
            setattr(C, k, v)
        C.ext, C.tr_block, C.find_function = t_ext, t_tr_block, _find
        yield
    finally:
        for k, v in saved.items():
            setattr(C, k, v)
        for k in added:
            if hasattr(C, k):
                delattr(C, k)
        _ORIG.clear()
        _TREES.clear()


# ------------------------------------------------------------------------------------------------- checks

def check_class(tree):
    """what the rules take for granted about the class, checked on the source"""
    for node in tree.body:
        if isinstance(node, ast.ClassDef) and node.name == CLS:
            if [ast.unparse(b) for b in node.bases] != ["BaseART"]:
                raise Unsupported(f"{CLS} does not derive from BaseART alone")
            break
    else:
        raise Unsupported(f"class {CLS} not found")
    bodies = sorted("; ".join(ast.unparse(b) for b in C.strip_doc(f.body)) for f in _all_defs(tree, CLS, "W"))
    if bodies != ["return self.base_module.W", "self.base_module.W = new_W"]:
        raise Unsupported(f"TopoART.W is not the alias of base_module.W any more: {bodies}")
    for m in INHERITED:
        if _all_defs(tree, CLS, m):
            raise Unsupported(f"{CLS} now overrides {m}: the translation table takes it from BaseART")
    for m in sorted(DELEGATES | (INLINE - INHERITED) | set(METHODS) | {MATCH_TRACKING[0]}):
        if len(_all_defs(tree, CLS, m)) != 1:
            raise Unsupported(f"{CLS}.{m} is not defined exactly once")
    for m in METHODS + sorted(INLINE) + sorted(DELEGATES):
        f = _find(None, CLS, m)
        if f.decorator_list:
            raise Unsupported(f"{m}: decorators")


def base_signature(m: str) -> list[str]:
    f = _k_find(_TREES["BaseART"], "BaseART", m)
    a = f.args
    if a.vararg or a.kwarg or a.kwonlyargs or a.posonlyargs:
        raise Unsupported(f"BaseART.{m}: signature")
    names = [x.arg for x in a.args]
    is_static = any(isinstance(d, ast.Name) and d.id == "staticmethod" for d in f.decorator_list)
    return names if is_static else names[1:]


# ---------------------------------------------------------------------------------------------- expressions

CMP = {ast.Gt: ">", ast.GtE: "≥", ast.Lt: "<", ast.LtE: "≤"}


def src(e) -> str:
    return ast.unparse(e)


def coerce(text: str, have, want, what: str) -> str:
    if have == want:
        return text
    if have == "Nat" and want == "Int":
        return f"({text} : Int)" if text.isdigit() else f"(Int.ofNat {text})"
    raise Unsupported(f"{what}: a value of type {have} where {want} is expected")


def as_index(text: str, ty, what: str) -> str:
    if ty == "Nat":
        return text
    if ty == "Int":
        return f"({text}).toNat"
    raise Unsupported(f"{what}: index of type {ty}")


def nat_lit(e) -> str:
    if isinstance(e, ast.Constant) and isinstance(e.value, int) and not isinstance(e.value, bool) and e.value >= 0:
        return str(e.value)
    raise Unsupported(f"pad width / shape {src(e)} is not a literal")


def str_key(e, what) -> str:
    if isinstance(e, ast.Constant) and isinstance(e.value, str) and e.value.isidentifier():
        return e.value
    raise Unsupported(f"{what}: key {src(e)} is not a string literal")


def base_module_call(e):
    """self.base_module.<m>(…)"""
    if isinstance(e, ast.Call) and isinstance(e.func, ast.Attribute) and C.is_self_attr(e.func.value) == "base_module":
        return e.func.attr
    return None


def typed_args(call, names, what, env):
    out = []
    for n_, a_ in zip(names, C.order_args(call, names, what)):
        ty_ = C.ext(a_, env)[1]
        if ARG_TYPES.get(n_) != ty_:
            raise Unsupported(f"{what}: argument {n_} has type {ty_}, expected {ARG_TYPES.get(n_)}")
        out.append(C.arg(a_, env))
    return out


def delegate(m, call, env):
    """`self.m(args)` where TopoART.m only forwards to the base module: the body's return expression, with the
    parameters bound by `let`"""
    f = _find(None, CLS, m)
    body = C.strip_doc(f.body)
    if len(body) != 1 or not isinstance(body[0], ast.Return) or body[0].value is None or base_module_call(body[0].value) != m:
        raise Unsupported(f"{m}: a delegating method must be a single `return self.base_module.{m}(…)`")
    names = C.signature_of(env, m)
    args = C.order_args(call, names, m)
    inner = env.copy()
    inner.rec = None
    inner.prefix = m.strip("_") + "_"
    inner.names = {}
    lets = []
    for n_, a_ in zip(names, args):
        t_, ty_ = C.ext(a_, env)
        lets.append(f"let {inner.bind(n_, ty_)} := {t_}")
    rt, rty = C.ext(body[0].value, inner)
    return "(" + "; ".join(lets + [rt]) + ")", rty


def dict_update(e, env):
    """dict(a, **{"k1": v1, …})"""
    d = e.keywords[0].value
    if not (isinstance(d, ast.Dict) and d.keys and all(k_ is not None for k_ in d.keys)):
        raise Unsupported(f"dict update {src(e)}")
    keys = [str_key(k_, src(e)) for k_ in d.keys]
    if len(set(keys)) != len(keys):
        raise Unsupported(f"dict update {src(e)}: repeated key")
    t, ty = C.ext(e.args[0], env)
    if ty == "P":
        field, want = "dict_with", "α"
    elif ty == "C":
        field, want = "cache_with", "Int"
    else:
        raise Unsupported(f"dict update of a value of type {ty}")
    for k_, v_ in zip(keys, d.values):
        vt, vty = C.ext(v_, env)
        t = f'(E.{field} {t} "{k_}" {coerce(vt, vty, want, src(e))})'
    return t, ty


def my_ext(e, env):
    if isinstance(e, ast.Attribute) and C.is_self_attr(e.value) == "base_module":
        if src(e) == BPARAMS and isinstance(e.ctx, ast.Load):
            return SELF_FIELDS["__bparams"][0], "P"
        raise Unsupported(f"read of {src(e)}")
    if isinstance(e, ast.UnaryOp) and isinstance(e.op, ast.USub) and isinstance(e.operand, ast.Constant) \
            and isinstance(e.operand.value, int) and not isinstance(e.operand.value, bool):
        return f"(-{e.operand.value})", "Int"
    if isinstance(e, ast.Compare) and len(e.ops) == 1 and type(e.ops[0]) in CMP:
        (l, lty), (r, rty) = C.ext(e.left, env), C.ext(e.comparators[0], env)
        if lty in ("Nat", "Int") and rty in ("Nat", "Int"):
            ty = "Int" if "Int" in (lty, rty) else "Nat"
            return f"(decide ({coerce(l, lty, ty, src(e))} {CMP[type(e.ops[0])]} {coerce(r, rty, ty, src(e))}))", "Bool"
        raise Unsupported(f"comparison {src(e)} on {lty}, {rty}")
    if isinstance(e, ast.Subscript) and isinstance(e.ctx, ast.Load) and not isinstance(e.slice, (ast.Slice, ast.Tuple)):
        try:
            vt, vty = C.ext(e.value, env)
        except Unsupported:
            return None
        if vty == "C":
            return f'(E.cache_int {C.arg(e.value, env)} "{str_key(e.slice, src(e))}").get!', "Int"
        if vty == "P":
            return f'(E.param {C.arg(e.value, env)} "{str_key(e.slice, src(e))}")', "α"
        return None
    if isinstance(e, ast.IfExp) and isinstance(e.test, ast.Name) and isinstance(e.body, ast.Name) and e.test.id == e.body.id \
            and isinstance(e.orelse, ast.Dict) and not e.orelse.keys:
        t, ty = C.ext(e.test, env)
        if ty != "C":
            raise Unsupported(f"{src(e)}: not a cache")
        return f"(E.cache_or_empty {t})", "C"
    if isinstance(e, ast.Call):
        fn = src(e.func)
        sc = C.self_call(e)
        if sc and sc[0] in DELEGATES:
            return delegate(sc[0], sc[1], env)
        if sc and sc[0] == MATCH_TRACKING[0]:
            raise Unsupported(f"self.{sc[0]} writes the base module's params and is used inside an expression")
        bm = base_module_call(e)
        if bm is not None:
            if bm not in BASE_MODULE:
                raise Unsupported(f"call of self.base_module.{bm}")
            field, names, reads_w, rty = BASE_MODULE[bm]
            if base_signature(bm) != names:
                raise Unsupported(f"signature of BaseART.{bm} is {base_signature(bm)}")
            args = typed_args(e, names, "base_module." + bm, env)
            return "(E." + field + (" self_W " if reads_w else " ") + " ".join(args) + ")", rty
        if isinstance(e.func, ast.Attribute) and e.func.attr == "get" and isinstance(e.func.value, ast.Name) \
                and e.func.value.id in env.names and env.types.get(env.names[e.func.value.id]) == "C":
            if len(e.args) == 2 and not e.keywords:
                d, dty = C.ext(e.args[1], env)
                return (f'((E.cache_int {env.names[e.func.value.id]} "{str_key(e.args[0], src(e))}").getD '
                        f'{coerce(d, dty, "Int", src(e))})'), "Int"
            raise Unsupported(f"cache.get form {src(e)}")
        if fn == "dict" and len(e.args) == 1 and len(e.keywords) == 1 and e.keywords[0].arg is None:
            return dict_update(e, env)
        if fn == "np.zeros" and len(e.args) == 1 and isinstance(e.args[0], ast.Tuple):
            kws = [src(k_) for k_ in e.keywords]
            dims = e.args[0].elts
            if len(dims) == 2 and kws in ([], ["dtype=int"]):
                return f"(Art.ImpTopo.npZeros2 {nat_lit(dims[0])} {nat_lit(dims[1])})", ("list", ("list", "Nat"))
            if len(dims) == 1 and kws == ["dtype=bool"]:
                return f"(List.replicate {nat_lit(dims[0])} false)", ("list", "Bool")
            raise Unsupported(f"np.zeros form {src(e)}")
        if fn == "np.pad":
            if not (len(e.args) == 3 and not e.keywords and isinstance(e.args[2], ast.Constant) and e.args[2].value == "constant"
                    and isinstance(e.args[1], ast.Tuple) and len(e.args[1].elts) == 2):
                raise Unsupported(f"np.pad form {src(e)}")
            a, aty = C.ext(e.args[0], env)
            p, q = e.args[1].elts
            if isinstance(p, ast.Tuple) and isinstance(q, ast.Tuple) and len(p.elts) == 2 and len(q.elts) == 2:
                if aty != ("list", ("list", "Nat")):
                    raise Unsupported(f"2-D np.pad of {aty}")
                w = " ".join(nat_lit(x) for x in p.elts + q.elts)
                return f"(Art.ImpTopo.npPad2 {C.arg(e.args[0], env)} {w})", aty
            if aty != ("list", "Bool"):
                raise Unsupported(f"1-D np.pad of {aty}")
            return f"(Art.ImpTopo.npPad1 {C.arg(e.args[0], env)} {nat_lit(p)} {nat_lit(q)} false)", aty
    return None


def t_ext(e, env):
    r = my_ext(e, env)
    return r if r is not None else _ORIG["ext"](e, env)


# ----------------------------------------------------------------------------------------------- statements

def reads_name_outside_asserts(f: ast.FunctionDef, name: str) -> bool:
    def walk(stmts):
        for s in stmts:
            if isinstance(s, ast.Assert):
                continue
            for fld in ("body", "orelse", "finalbody"):
                sub = getattr(s, fld, None)
                if isinstance(sub, list) and sub and isinstance(sub[0], ast.stmt):
                    if walk(sub):
                        return True
            shallow = [getattr(s, x) for x in ("test", "value", "target", "iter", "exc", "cause") if getattr(s, x, None) is not None]
            shallow += list(getattr(s, "targets", []))
            for x in shallow:
                for n in ast.walk(x):
                    if isinstance(n, ast.Name) and n.id == name:
                        return True
            if not isinstance(s, (ast.Assign, ast.AugAssign, ast.AnnAssign, ast.Expr, ast.Return, ast.If, ast.Raise, ast.Pass)):
                raise Unsupported(f"{f.name}: statement {type(s).__name__}")
        return False
    return walk(C.strip_doc(f.body))


def nested_attrs_written(f: ast.FunctionDef) -> set:
    """{(obj, field)} for every store into self.<obj>.<field>[…]; any other store into self fails closed"""
    out = set()
    for n in ast.walk(f):
        tgts = []
        if isinstance(n, ast.Assign):
            tgts = n.targets
        elif isinstance(n, (ast.AugAssign, ast.AnnAssign)):
            tgts = [n.target]
        for t in tgts:
            while isinstance(t, ast.Subscript):
                t = t.value
            if isinstance(t, ast.Name):
                continue
            if isinstance(t, ast.Attribute) and C.is_self_attr(t.value) is not None:
                out.add((C.is_self_attr(t.value), t.attr))
                continue
            raise Unsupported(f"{f.name} stores into {src(t)}")
        if isinstance(n, ast.Call) and isinstance(n.func, ast.Attribute) and src(n.func).startswith("self."):
            raise Unsupported(f"{f.name} calls {src(n.func)}")
    return out


def match_tracking_stmt(s: ast.Assign, env) -> list[str]:
    m, field, names, written = MATCH_TRACKING
    f = _find(None, CLS, m)
    if C.signature_of(env, m) != names:
        raise Unsupported(f"signature of {m} is {C.signature_of(env, m)}")
    if nested_attrs_written(f) != {written}:
        raise Unsupported(f"{m} writes {sorted(nested_attrs_written(f))}")
    if reads_name_outside_asserts(f, "params"):
        raise Unsupported(f"{m} reads its `params` argument")
    args = C.order_args(s.value, names, m)
    bp = SELF_FIELDS["__bparams"][0]
    txt = []
    for n_, a_ in zip(names, args):
        if n_ == "params":
            if C.is_self_attr(a_) != "params":                         # dropped (see DROPPED): only the wrapper's own dict
                raise Unsupported(f"{m}: argument params is {src(a_)}, expected self.params")
            txt.append(bp)
            continue
        ty_ = C.ext(a_, env)[1]
        if ARG_TYPES[n_] != ty_:
            raise Unsupported(f"{m}: argument {n_} has type {ty_}")
        txt.append(C.arg(a_, env))
    r = env.bind(s.targets[0].id, "Bool")
    v = env.bind_self("__bparams")
    return [f"let ({r}, mt_params_) := E.{field} " + " ".join(txt), f"let {v} := mt_params_"]


def check_translated_call(m, call, env):
    """argument types of `self.m(…)` for a method translated on its own (ctrans.call_translated does not look at them)"""
    f = _find(None, CLS, m)
    names = [a_.arg for a_ in f.args.args[1:]]
    given = dict(zip(names, call.args))
    for kw in call.keywords:
        given[kw.arg] = kw.value
    for n_ in names:
        if n_ in given and n_ not in C.CALLBACKS:
            ty_ = C.ext(given[n_], env)[1]
            if PARAM_TYPES.get(n_) != ty_:
                raise Unsupported(f"{m}: argument {n_} has type {ty_}, expected {PARAM_TYPES.get(n_)}")


def t_tr_block(stmts, env, k):
    stmts = C.strip_doc(stmts)
    if not stmts:
        return k.fall(env)
    s, rest = stmts[0], stmts[1:]
    if isinstance(s, ast.AnnAssign) and s.value is not None:
        s = ast.copy_location(ast.Assign(targets=[s.target], value=s.value), s)
        stmts = [s] + rest
    # stores: the wrapper's own params are read-only; of the base module only `params` may be assigned (as a whole)
    if isinstance(s, (ast.Assign, ast.AugAssign)):
        tgts = s.targets if isinstance(s, ast.Assign) else [s.target]
        for t in tgts:
            for root in (_store_root(x) for x in (t.elts if isinstance(t, ast.Tuple) else [t])):
                if not isinstance(root, ast.Attribute):
                    continue
                if C.is_self_attr(root) in READ_ONLY or C.is_self_attr(root) == "base_module":
                    raise Unsupported(f"write to self.{root.attr}")
                if C.is_self_attr(root.value) == "base_module" \
                        and not (root is t and isinstance(s, ast.Assign) and src(root) == BPARAMS):
                    raise Unsupported(f"store into {src(t)}")
    if isinstance(s, ast.Assign) and len(s.targets) == 1 and src(s.targets[0]) == BPARAMS:
        rhs, rty = C.ext(s.value, env)
        if rty != "P":
            raise Unsupported(f"{src(s)}: a value of type {rty}")
        v = env.bind_self("__bparams")
        return [f"let {v} := {rhs}"] + C.tr_block(rest, env, k)
    if isinstance(s, ast.AugAssign) and isinstance(s.op, ast.Add):
        t = s.target
        if isinstance(t, ast.Subscript) and isinstance(t.slice, ast.Tuple) and len(t.slice.elts) == 2 \
                and C.is_self_attr(t.value) in SELF_FIELDS and SELF_TYPES[C.is_self_attr(t.value)] == ("list", ("list", "Nat")):
            a = C.is_self_attr(t.value)
            i, j = (as_index(*C.ext(x, env), src(s)) for x in t.slice.elts)
            d, dty = C.ext(s.value, env)
            if dty != "Nat":
                raise Unsupported(f"{src(s)}: increment of type {dty}")
            old = SELF_FIELDS[a][0]
            v = env.bind_self(a)
            return [f"let {v} := Art.ImpTopo.npAddAt2 {old} ({i}) ({j}) {d}"] + C.tr_block(rest, env, k)
    if isinstance(s, ast.Assign) and len(s.targets) == 1 and isinstance(s.targets[0], ast.Name):
        sc = C.self_call(s.value)
        if sc and sc[0] == MATCH_TRACKING[0]:
            return match_tracking_stmt(s, env) + C.tr_block(rest, env, k)
        if sc and sc[0] in C.TRANSLATED:
            check_translated_call(sc[0], sc[1], env)
            return _ORIG["tr_block"](stmts, env, k)
        nm = s.targets[0].id
        if nm in env.names and env.types.get(env.names[nm]) == "Int" and not isinstance(s.value, ast.Lambda):
            rhs, rty = C.ext(s.value, env)
            if rty == "Nat":
                v = env.bind(nm, "Int")
                return [f"let {v} := {coerce(rhs, rty, 'Int', src(s))}"] + C.tr_block(rest, env, k)
    if isinstance(s, ast.Expr) and C.self_call(s.value) and C.self_call(s.value)[0] in INLINE:
        m = C.self_call(s.value)[0]
        has_own = bool(_all_defs(_TREES[CLS], CLS, m))
        if has_own != (INLINE_FROM[m] == CLS):
            raise Unsupported(f"{m} is expected to be defined by {INLINE_FROM[m]}")
    if isinstance(s, ast.Return) and s.value is not None and not env.pure and not rest:
        val, vty = C.ext(s.value, env)
        if vty == "Nat" and env.ret_ty == "Int":
            return [k.ret(f"({C.self_pack()}, {coerce(val, vty, 'Int', src(s))})")]
    if isinstance(s, ast.For):
        raise Unsupported("for loop (not needed by TopoART.step_fit; its helper would be typed over Art.Imp.Ext)")
    return _ORIG["tr_block"](stmts, env, k)


def _store_root(target):
    """the name / attribute that `target` (possibly through subscripts) stores into"""
    t = target
    while isinstance(t, ast.Subscript):
        t = t.value
    return t


# -------------------------------------------------------------------------------------------------- methods

def translate_method(name: str) -> str:
    f = _k_find(_TREES[CLS], CLS, name)
    env = C.Env(_TREES[CLS], CLS)
    env.trees = dict(_TREES)
    env.fn = name
    env.ret_ty = METHOD_RET[name]
    a = f.args
    if a.vararg or a.kwarg or a.kwonlyargs or a.posonlyargs:
        raise Unsupported(f"{name}: signature")
    params = []
    for x in a.args[1:]:
        if x.arg in C.CALLBACKS:
            env.callbacks.add(x.arg)
            env.names[x.arg] = x.arg
            params += [f"({x.arg}_is_none : Bool)", f"({x.arg} : {C.CALLBACK_TYPE[x.arg]})"]
        elif x.arg in PARAM_TYPES:
            env.names[x.arg] = x.arg
            env.types[x.arg] = PARAM_TYPES[x.arg]
            params.append(f"({x.arg} : {C.lean_ty(PARAM_TYPES[x.arg])})")
        else:
            raise Unsupported(f"{name}: parameter {x.arg}")

    def no_fall(e_):
        raise Unsupported(f"{name}: a path ends without return")
    body = C.tr_block(f.body, env, C.K(no_fall, lambda t_: t_))
    has_loop = any(isinstance(n, ast.While) for n in ast.walk(f))
    fuel = "(fuel : Nat) " if has_loop else ""
    head = [f"/-- generated from `{CLS}.{name}` -/",
            f"def {name} {C.HEADER_CLASSES}",
            f"    (E : {EXT_TY}) {fuel}(self : {SELF_TY}) " + " ".join(params) + " :",
            f"    {C.ret_type(env)} :="]
    pre = [f"let {v} := self.{fld}" for v, fld in SELF_FIELDS.values()]
    return "\n".join(env.helpers) + ("\n" if env.helpers else "") + "\n".join(head + C.ind(pre + body)) + "\n"


def generate(repo: Path) -> str:
    repo = Path(repo)
    trees = {CLS: ast.parse((repo / FILE).read_text()), "BaseART": ast.parse((repo / BASE_FILE).read_text())}
    chunks = ["/-",
              f"GENERATED by harness/artv/ttrans2.py from {FILE} and {BASE_FILE} — do not edit.",
              "Regenerated on every run of the checks that name it; `ArtGenProofs/TopoStepSpec.lean` proves the generated `step_fit`",
              "equal to the model's `topoStep` (ArtModel/Topo.lean: `topoSearch`, `topoStepSearch`, `applyTopo`) for all arguments.",
              "-/",
              "import ArtModel.Imp",
              "import ArtModel.ImpTopo",
              "import ArtModel.ImpTopoStep",
              "import ArtModel.Search",
              "",
              "set_option linter.unusedVariables false",
              "",
              f"namespace {NAMESPACE}",
              ""]
    with _profile(trees):
        check_class(trees[CLS])
        for m in METHODS:
            chunks.append(translate_method(m))
    chunks += [f"end {NAMESPACE}", ""]
    return "\n".join(chunks).replace("Art.Imp.Ext Xt Wt P C α", EXT_TY)


def write(repo: Path = None) -> tuple[bool, str]:
    repo = Path(repo or os.environ.get("VERIF_REPO", "/repo"))
    out = VERIF / "lean" / "ArtGen" / OUT
    try:
        text = generate(repo)
    except (Unsupported, SyntaxError, OSError, KeyError, AttributeError, TypeError, IndexError) as e:
        return False, f"TopoART.step_fit translator failed closed: {type(e).__name__}: {e}"
    if not out.exists() or out.read_text() != text:
        tmp = out.with_suffix(".lean.tmp")
        tmp.write_text(text)
        os.replace(tmp, out)
    return True, "generated"


if __name__ == "__main__":
    ok_, msg_ = write(Path(sys.argv[1]) if len(sys.argv) > 1 else None)
    print(msg_)
    sys.exit(0 if ok_ else 1)
