"""BARTMAP translator: the Python AST of class `BARTMAP` in `artlib/biclustering/BARTMAP.py`  ->  Lean 4 definitions
in `lean/ArtGen/Bartmap.lean` (namespace `Art.Gen.BARTMAP`).

BARTMAP's own code is glue around two nested ART modules (`self.module_a` clusters the rows, `self.module_b` the
columns): it prepares the matrix and its transpose, fits the column module alone, empties the row module and trains
it row by row under a reset function (average Pearson correlation of the row with the members of some column
cluster >= eta), and finally builds the boolean indicator matrices `rows_` / `columns_` with two nested
comprehensions.  This module translates that sub-language, syntax-directed; `lean/ArtGenProofs/BartmapSpec.lean`
proves the generated definitions equal to `ArtModel/Bartmap.lean` (`bartmapFit`, `rowsOf`, `columnsOf`), which the C17
property theorems are stated about.  The two nested estimators stay abstract: an object of type `MA` / `MB` whose
methods and attributes are the fields of the structure `ModOps` (`opsA`, `opsB`).  scipy's `pearsonr` and `np.mean`
of a list are abstract function parameters (`pearsonr`, `np_mean`).

Arrays: a 1-d array is `List t`, a 2-d array a list of rows.  Everything runs in the `Option` monad (`none` = the
Python code raises).  Helpers `Art.ImpBartmap.*`: lean/ArtModel/ImpBartmap.lean.

The translation (one fixed rendering per construct; the rendering of an operator is chosen by the operand types):
  x = E  /  a, b = E               ->  let x := E  /  let (a, b) := E                  (re-binding shadows; `_` stays `_`)
  self.X = E, self.rows_ = E, self.columns_ = E    ->  let self_X := E, let rows_ := E, let columns_ := E
  self.X                           ->  the local self_X if the method wrote it, else the parameter self_X
  self.params["eta"]               ->  parameter eta : α
  self.module_x                    ->  the variable module_x (parameter of the definition; writes re-bind it)
  self.module_x = self.module_x.fit(X, max_iter=E) ->  let module_x := (opsX.fit module_x X E)
  self.module_x.W / .labels_ / .n_clusters         ->  (opsX.W module_x) / (opsX.labels_ module_x) / (opsX.n_clusters module_x)
  self.module_x.attr = E           ->  let module_x := (opsX.set_attr module_x E)       attr in W, weight_sample_counter_,
                                                                                       sample_counter_, labels_
  self.module_x.labels_[k] = E     ->  let module_x := (← opsX.labels_setitem module_x k E)
  self.module_x.prepare_data(X)    ->  (opsX.prepare_data module_x X)
  self.module_x.pre_step_fit(X) / post_step_fit(X)   (statement)  ->  let module_x := (opsX.pre_step_fit module_x X)
  c = self.module_x.step_fit(x, match_reset_func=f)  ->  let (module_x, c) := (← opsX.step_fit module_x x f)
  f = lambda p1, …: E   (used in the next statement as match_reset_func= of module_x.step_fit)
                                   ->  let f := (fun (p1 : T1) … => do pure E)          Ti = the reset-function types of side x
  self.m(args)  (m a translated method)      ->  (← m <implicit parameters> args)
  c = self.m(args)  (m writes module_a)      ->  let (module_a, c) := (← m … args)
  self.p  (p a translated @property)         ->  (← p <implicit parameters>)
  pearsonr(a, b)  (from scipy.stats)         ->  (← pearsonr a b)                      abstract parameter
  return E                         ->  pure E;  in a method that writes module_a: pure (module_a, E);  `return self` of
                                       fit: pure ⟨module_a, module_b, self_X, rows_, columns_⟩
  if c: raise …                    ->  Art.ImpBartmap.pyRaiseIf c
  if c: …; return E   (no else) followed by REST   ->  if c then (do … pure E) else (do REST)
  for t in it: body (no return)    ->  let (vars) ← it.foldlM (fun (vars) t => do body; pure (vars)) (vars)
                                       vars = the variables bound before the loop and re-bound inside it
  for t in it: body (with return, nothing carried) followed by REST
                                   ->  match (← Art.ImpBartmap.forRet it (fun t => do body'; pure none)) with
                                       | some v_ => pure v_ | none => (do REST)        body': return E -> pure (some E)
  [E for a in it]                  ->  (← it.mapM (fun a => do pure E))
  [E for a in it1 for b in it2]    ->  (← it1.mapM (fun a => do it2.mapM (fun b => do pure E))).flatten
  {"key": E}                       ->  [("key", E)]                   and d["key"] -> (← Art.ImpBartmap.dictGet d "key")
  range(E) / len(E) / X.shape[0]   ->  (List.range E) / E.length / X.length
  X.T                              ->  (Art.ImpBartmap.npT X)
  X[k, :]   (k : Nat)              ->  (← X[k]?)                      an index out of range raises
  X[m, :] / x[m]   (m a boolean mask)   ->  (← Art.ImpBartmap.npMask X m)               a mask of the wrong length raises
  v == c   (v 1-d int array, c int)     ->  (Art.ImpBartmap.npEqMask v c)
  a == b   (ints)  /  a >= b (numbers)  ->  (decide (a = b))  /  (decide (a ≥ b))
  np.zeros((E,), dtype=int)        ->  (List.replicate E 0)
  np.vstack(L)                     ->  (← Art.ImpBartmap.npVstack L)
  np.mean(L)   (L a list of numbers)    ->  (np_mean L)                                abstract parameter
  float(E)                         ->  E                              (a cast; see DROPPED)
Anything else raises `Unsupported`: the translator fails closed.
"""
from __future__ import annotations

import ast
import json
import os
from pathlib import Path

from .ktrans import Unsupported

VERIF = Path(__file__).resolve().parents[2]
FILE = "artlib/biclustering/BARTMAP.py"
CLS = "BARTMAP"
H = "Art.ImpBartmap."

DROPPED = {
    "docstrings": "string-expression statements have no effect",
    "type annotations": "checked against the table METHODS (a changed signature fails closed), otherwise no run-time effect",
    "self.validate_data(X_a, X_b)": "a guard: asserts on the prepared data inside the two modules (range, dimensions); "
                                    "it computes nothing that fit uses — the statement is dropped by an explicit rule",
    "float(E)": "a cast of a numpy scalar to a Python float: numbers are the abstract type α",
    "parameter defaults": "every generated definition takes all its arguments explicitly (max_iter=1 of fit and cache=None "
                          "of match_reset_func are the callers' business)",
    "message of raise": "`raise ValueError(msg)` is `none`; which exception and which message is not represented",
    "__init__, __getattr__, __setattr__, get_params, set_params, validate_params, validate_data, visualize":
        "not translated (constructor, parameter plumbing, guards, plotting) — out of the slice",
}

COVERS = ("BARTMAP.fit, step_fit, match_reset_func, match_criterion_bin, _average_pearson_corr, _get_x_cb, _pearsonr and the "
          "properties row_labels_, column_labels_, n_row_clusters, n_column_clusters (artlib/biclustering/BARTMAP.py) are "
          "translated; fit is proved equal to ArtModel/Bartmap's bartmapFit (rowsOf, columnsOf; the row module = the generic "
          "training fold under the veto computed by the translated reset function), the reset function to a reference "
          "definition in the spec file; the C17 theorems are transported to the generated fit.  The two nested ART modules "
          "(prepare_data, fit, step_fit, pre/post_step_fit, W, labels_, n_clusters, attribute writes) are abstract — fields "
          "of ModOps, tied to ArtModel/Search's fit / fitEpochs / stepFit by the hypothesis `Tie`; scipy's pearsonr and "
          "np.mean are abstract function parameters.")

THEOREMS = [
    "Bartmap.get_x_cb_spec", "Bartmap.average_pearson_corr_spec", "Bartmap.average_pearson_corr_nonsquare",
    "Bartmap.match_criterion_bin_spec", "Bartmap.match_reset_func_spec", "Bartmap.step_fit_spec",
    "Bartmap.properties_spec", "Bartmap.fit_inner_loop", "Bartmap.fit_epochs_spec", "Bartmap.fit_spec",
    "Bartmap.gen_fit_shapes", "Bartmap.gen_fit_partition", "Bartmap.gen_fit_membership", "Bartmap.gen_fit_columns_alone",
    "Bartmap.gen_reset_nonsquare_raises", "Bartmap.exTie",
]

# ---------------------------------------------------------------- types
# "nat" "lit" "num" "bool" "str" "P" "C" "SA" "SB" "WA" "WB" "MA" "MB"  ("list", t) ("opt", t) ("prod", [t…])
# ("dict", t)  (string keys)        ("fn", side)  (a reset function for module side)
VEC = ("list", "num")
MAT = ("list", VEC)
LNAT = ("list", "nat")
LBOOL = ("list", "bool")

ATOMS = {"nat": "Nat", "num": "α", "bool": "Bool", "str": "String", "P": "P", "C": "C", "SA": "SA", "SB": "SB",
         "WA": "WA", "WB": "WB", "MA": "MA", "MB": "MB"}
KEYWORDS = {"end": "«end»", "from": "«from»", "at": "«at»", "open": "«open»", "in": "«in»", "then": "«then»",
            "fun": "«fun»", "show": "«show»", "have": "«have»", "match": "«match»", "do": "«do»"}


def nm(s: str) -> str:
    return KEYWORDS.get(s, s)


def atom(s: str) -> str:
    return f"({s})" if " " in s else s


def lty(t) -> str:
    if isinstance(t, str):
        if t in ATOMS:
            return ATOMS[t]
        raise Unsupported(f"type {t}")
    if t[0] == "list":
        if t[1] is None:
            raise Unsupported("list of unknown element type")
        return f"List {atom(lty(t[1]))}"
    if t[0] == "opt":
        return f"Option {atom(lty(t[1]))}"
    if t[0] == "prod":
        return " × ".join(atom(lty(x)) for x in t[1])
    if t[0] == "dict":
        return f"List (String × {atom(lty(t[1]))})"
    if t[0] == "fn":
        return " → ".join(atom(lty(x)) for x in reset_types(t[1])) + " → Option Bool"
    raise Unsupported(f"type {t}")


def islist(t):
    return isinstance(t, tuple) and t[0] == "list"


def side_of(attr: str) -> str:
    return {"module_a": "A", "module_b": "B"}[attr]


def reset_types(side):
    """parameter types of the reset function that `module_x.step_fit` calls: (i, w, cluster, params, cache)"""
    return ["S" + side, "W" + side, "nat", "P", ("opt", "C")]


# the nested estimator (one table for both sides; S, W, M stand for the side's sample / weight / object type)
NESTED_READ = {"W": ("list", "W"), "labels_": LNAT, "n_clusters": "nat"}
NESTED_WRITE = {"W": ("set_W", ("list", "W")), "weight_sample_counter_": ("set_weight_sample_counter_", LNAT),
                "sample_counter_": ("set_sample_counter_", "nat"), "labels_": ("set_labels_", LNAT)}
# method -> (kind, [(parameter, type)], result type);  kinds: pure | self (returns the estimator) | update (statement) |
# update_value (changes the estimator, returns a value, may raise)
NESTED_CALL = {
    "prepare_data": ("pure", [("X", MAT)], ("list", "S")),
    "fit": ("self", [("X", ("list", "S")), ("max_iter", "nat")], "M"),
    "pre_step_fit": ("update", [("X", ("list", "S"))], None),
    "post_step_fit": ("update", [("X", ("list", "S"))], None),
    "step_fit": ("update_value", [("x", "S"), ("match_reset_func", ("fn",))], "nat"),
}


def sided(t, side):
    if t in ("S", "W", "M"):
        return t + side
    if isinstance(t, tuple):
        if t[0] == "fn":
            return ("fn", side)
        if t[0] == "prod":
            return ("prod", [sided(x, side) for x in t[1]])
        return (t[0], sided(t[1], side))
    return t


IMPLICIT_ORDER = ["opsA", "opsB", "pearsonr", "np_mean", "eta", "module_a", "module_b", "self_X"]
IMPLICIT_DECL = {
    "opsA": "(opsA : ModOps MA SA WA P C α)", "opsB": "(opsB : ModOps MB SB WB P C α)",
    "pearsonr": "(pearsonr : List α → List α → Option (α × α))", "np_mean": "(np_mean : List α → α)",
    "eta": "(eta : α)", "module_a": "(module_a : MA)", "module_b": "(module_b : MB)", "self_X": "(self_X : List (List α))",
}
SELF_TYPES = {"module_a": "MA", "module_b": "MB", "self_X": MAT, "rows_": ("list", LBOOL), "columns_": ("list", LBOOL)}
SELF_ORDER = ["module_a", "module_b", "self_X", "rows_", "columns_"]
SELF_ATTR = {"module_a": "module_a", "module_b": "module_b", "X": "self_X", "rows_": "rows_", "columns_": "columns_"}

ND = "np.ndarray"
# what is translated, in dependency order: (method, kind, [(parameter, type, annotation)], return type | "self")
METHODS = [
    ("column_labels_", "property", [], LNAT),
    ("row_labels_", "property", [], LNAT),
    ("n_row_clusters", "property", [], "nat"),
    ("n_column_clusters", "property", [], "nat"),
    ("_get_x_cb", "method", [("x", VEC, ND), ("c_b", "nat", "int")], VEC),
    ("_pearsonr", "static", [("a", VEC, ND), ("b", VEC, ND)], "num"),
    ("_average_pearson_corr", "method", [("X", MAT, ND), ("k", "nat", "int"), ("c_b", "nat", "int")], "num"),
    ("match_criterion_bin", "method", [("X", MAT, ND), ("k", "nat", "int"), ("c_b", "nat", "int"), ("params", "P", "dict")],
     "bool"),
    ("match_reset_func", "method", [("i", "SA", ND), ("w", "WA", ND), ("cluster_a", "nat", None), ("params", "P", "dict"),
                                    ("extra", ("dict", "nat"), "dict"), ("cache", ("opt", "C"), "Optional[dict]")], "bool"),
    ("step_fit", "method", [("X", ("list", "SA"), ND), ("k", "nat", "int")], "nat"),
    ("fit", "method", [("X", MAT, ND), ("max_iter", "nat", None)], "self"),
]
DECORATORS = {"property": ["property"], "static": ["staticmethod"], "method": []}


def lname(py: str) -> str:
    """Lean name of a translated method: a leading underscore becomes the prefix `p_`"""
    return "p" + py if py.startswith("_") else py


class Env:
    def __init__(self, tree):
        self.classes = {n.name: n for n in tree.body if isinstance(n, ast.ClassDef)}
        self.module_defs = {n.name for n in tree.body if isinstance(n, (ast.FunctionDef, ast.ClassDef))}
        self.module_defs |= {t.id for n in tree.body if isinstance(n, ast.Assign) for t in n.targets if isinstance(t, ast.Name)}
        self.imports = {}
        for n in tree.body:
            if isinstance(n, ast.ImportFrom):
                for a in n.names:
                    self.imports[a.asname or a.name] = f"{n.module}.{a.name}"
            if isinstance(n, ast.Import):
                for a in n.names:
                    self.imports[a.asname or a.name] = a.name
        self.done = {}      # method -> dict(lname, kind, implicit, params, rty, writes)


class Ctx:
    def __init__(self, env, writes):
        self.vars: dict[str, object] = {}
        self.used: set[str] = set()        # implicit parameters of the generated definition
        self.bound_self: set[str] = set()  # self attributes written so far (they are locals from then on)
        self.writes = writes               # self attributes the method writes anywhere (pre-scanned)
        self.env = env
        self.class_locals: set[str] = set()

    def copy(self):
        c = Ctx(self.env, self.writes)
        c.vars, c.used, c.bound_self = dict(self.vars), self.used, set(self.bound_self)
        return c

    def read_self(self, v):
        """the Lean variable that holds self attribute `v` (a parameter unless the method wrote it before)"""
        if v in IMPLICIT_DECL:
            if v not in self.bound_self:
                self.used.add(v)
            return v
        if v in self.bound_self:
            return v
        raise Unsupported(f"self attribute {v} is read before it is written")


def src(e) -> str:
    return ast.unparse(e)


def is_self(e, attr=None):
    return (isinstance(e, ast.Attribute) and isinstance(e.value, ast.Name) and e.value.id == "self"
            and (attr is None or e.attr == attr))


def module_of(e):
    """`self.module_a` / `self.module_b` -> "module_a" / "module_b", else None"""
    if is_self(e) and e.attr in ("module_a", "module_b"):
        return e.attr
    return None


def is_np(f, name=None):
    return (isinstance(f, ast.Attribute) and isinstance(f.value, ast.Name) and f.value.id == "np"
            and (name is None or f.attr == name))


def coerce(text, t, want):
    if t == want:
        return text
    if t == "lit" and want == "nat":
        return text
    if islist(t) and t[1] is None and islist(want):
        return f"([] : {lty(want)})"
    raise Unsupported(f"type mismatch: {t} where {want} is needed ({text})")


def full_slice(s):
    return isinstance(s, ast.Slice) and s.lower is None and s.upper is None and s.step is None


def ex(e: ast.AST, cx: Ctx):
    """expression -> (Lean text, type); the text is atomic and may contain nested actions `(← …)`"""
    if isinstance(e, ast.Name):
        if e.id not in cx.vars:
            raise Unsupported(f"unknown name {e.id}")
        return nm(e.id), cx.vars[e.id]
    if isinstance(e, ast.Constant):
        v = e.value
        if isinstance(v, bool):
            return ("true" if v else "false"), "bool"
        if isinstance(v, int) and v >= 0:
            return str(v), "lit"
        if isinstance(v, str):
            return json.dumps(v), "str"
        raise Unsupported(f"constant {v!r}")
    if isinstance(e, ast.Attribute):
        return attribute(e, cx)
    if isinstance(e, ast.Dict):
        if not e.keys or any(not (isinstance(k, ast.Constant) and isinstance(k.value, str)) for k in e.keys):
            raise Unsupported(f"dict display {src(e)}")
        if len({k.value for k in e.keys}) != len(e.keys):
            raise Unsupported("dict display with a repeated key")
        vals = [ex(v, cx) for v in e.values]
        ts = {json.dumps("nat" if t == "lit" else t) for _, t in vals}
        if len(ts) != 1:
            raise Unsupported("dict display of mixed value types")
        vt = "nat" if vals[0][1] == "lit" else vals[0][1]
        return "[" + ", ".join(f"({json.dumps(k.value)}, {v})" for k, (v, _) in zip(e.keys, vals)) + "]", ("dict", vt)
    if isinstance(e, ast.List):
        if e.elts:
            raise Unsupported(f"list display {src(e)}")
        return "[]", ("list", None)
    if isinstance(e, ast.Compare) and len(e.ops) == 1:
        l, lt = ex(e.left, cx)
        r, rt = ex(e.comparators[0], cx)
        op = type(e.ops[0])
        if lt == LNAT and rt in ("nat", "lit") and op is ast.Eq:
            return f"({H}npEqMask {l} {r})", LBOOL
        if lt in ("nat", "lit") and rt in ("nat", "lit") and (lt, rt) != ("lit", "lit") and op is ast.Eq:
            return f"(decide ({l} = {r}))", "bool"
        if lt == rt == "num" and op is ast.GtE:
            return f"(decide ({l} ≥ {r}))", "bool"
        raise Unsupported(f"comparison {src(e)} on {lt}, {rt}")
    if isinstance(e, ast.Subscript):
        return subscript(e, cx)
    if isinstance(e, ast.ListComp):
        return listcomp(e, cx)
    if isinstance(e, ast.Call):
        return call(e, cx)
    raise Unsupported(f"expression {type(e).__name__}: {src(e)}")


def attribute(e: ast.Attribute, cx: Ctx):
    if is_self(e):
        if e.attr in ("module_a", "module_b"):
            return cx.read_self(e.attr), "M" + side_of(e.attr)
        if e.attr == "X":
            return cx.read_self("self_X"), MAT
        d = cx.env.done.get(e.attr)
        if d is not None and d["kind"] == "property":
            if e.attr in cx.class_locals:
                raise Unsupported(f"self.{e.attr} is shadowed")
            for p in d["implicit"]:
                cx.read_self(p)
            return f"(← {d['lname']} " + " ".join(d["implicit"]) + ")", d["rty"]
        raise Unsupported(f"self.{e.attr}")
    m = module_of(e.value)
    if m is not None:
        if e.attr not in NESTED_READ:
            raise Unsupported(f"attribute {e.attr} of the nested estimator")
        s = side_of(m)
        cx.used.add("ops" + s)
        return f"(ops{s}.{e.attr} {cx.read_self(m)})", sided(NESTED_READ[e.attr], s)
    if e.attr == "T":
        b, bt = ex(e.value, cx)
        if bt != MAT:
            raise Unsupported(f".T of {bt}")
        return f"({H}npT {b})", MAT
    raise Unsupported(f"attribute {src(e)}")


def subscript(e: ast.Subscript, cx: Ctx):
    s = e.slice
    # self.params["eta"]
    if is_self(e.value, "params"):
        if isinstance(s, ast.Constant) and s.value == "eta":
            cx.used.add("eta")
            return "eta", "num"
        raise Unsupported(f"parameter {src(e)}")
    # X.shape[0]
    if isinstance(e.value, ast.Attribute) and e.value.attr == "shape":
        b, bt = ex(e.value.value, cx)
        if islist(bt) and bt[1] is not None and isinstance(s, ast.Constant) and s.value == 0 and not isinstance(s.value, bool):
            return f"{b}.length", "nat"
        raise Unsupported(f"shape access {src(e)}")
    b, bt = ex(e.value, cx)
    if isinstance(bt, tuple) and bt[0] == "dict":
        k, kt = ex(s, cx)
        if kt != "str":
            raise Unsupported("dictionary key that is not a string")
        return f"(← {H}dictGet {b} {k})", bt[1]
    if not islist(bt) or bt[1] is None:
        raise Unsupported(f"subscript of {bt}: {src(e)}")
    if isinstance(s, ast.Tuple):
        if not (len(s.elts) == 2 and full_slice(s.elts[1]) and (islist(bt[1]) or bt[1] in ("SA", "SB"))):
            raise Unsupported(f"2-d subscript {src(e)}")
        s = s.elts[0]
    if isinstance(s, ast.Slice):
        raise Unsupported(f"slice {src(e)}")
    i, it = ex(s, cx)
    if it in ("nat", "lit"):
        return f"(← {b}[{i}]?)", bt[1]
    if it == LBOOL:
        return f"(← {H}npMask {b} {i})", bt
    raise Unsupported(f"index of type {it} in {src(e)}")


def range_arg(e, cx):
    """`range(E)` -> Lean text of the list, else None"""
    if isinstance(e, ast.Call) and isinstance(e.func, ast.Name) and e.func.id == "range":
        if len(e.args) != 1 or e.keywords:
            raise Unsupported(f"range with several arguments: {src(e)}")
        a, t = ex(e.args[0], cx)
        return f"(List.range {coerce(a, t, 'nat')})"
    return None


def iterable(e, cx):
    r = range_arg(e, cx)
    if r is not None:
        return r, LNAT
    it, ity = ex(e, cx)
    if not islist(ity) or ity[1] is None:
        raise Unsupported(f"iteration over {ity}")
    return it, ity


def target_name(t):
    if not isinstance(t, ast.Name):
        raise Unsupported("pattern target of a loop / comprehension")
    return t.id


def listcomp(e: ast.ListComp, cx: Ctx):
    gens = e.generators
    if len(gens) not in (1, 2) or any(g.ifs or g.is_async for g in gens):
        raise Unsupported("comprehension with a filter / more than two generators")
    inner = cx.copy()
    its = []
    for g in gens:
        it, ity = iterable(g.iter, inner)
        x = target_name(g.target)
        if x != "_":
            inner.vars[x] = ity[1]
        its.append((it, nm(x)))
    b, bt = ex(e.elt, inner)
    if bt == "lit":
        bt = "nat"
    if len(gens) == 1:
        return f"(← {its[0][0]}.mapM (fun {its[0][1]} => do pure {b}))", ("list", bt)
    return (f"(← {its[0][0]}.mapM (fun {its[0][1]} => do {its[1][0]}.mapM (fun {its[1][1]} => do pure {b}))).flatten",
            ("list", bt))


def call_args(e: ast.Call, params, cx, what):
    """positional + keyword arguments against a parameter list -> Lean texts (every parameter must be given)"""
    if len(e.args) > len(params):
        raise Unsupported(f"{what}: too many arguments")
    given = {}
    for (p, t), a in zip(params, e.args):
        given[p] = a
    for kw in e.keywords:
        if kw.arg is None or kw.arg in given or kw.arg not in [p for p, _ in params]:
            raise Unsupported(f"{what}: keyword {kw.arg}")
        given[kw.arg] = kw.value
    out = []
    for p, t in params:
        if p not in given:
            raise Unsupported(f"{what}: argument {p} missing")
        out.append(coerce(*ex(given[p], cx), t))
    return out


def own_method(e: ast.Call, cx: Ctx):
    """`self.m(args)` for a translated method -> (descriptor, Lean call text without the arrow)"""
    f = e.func
    d = cx.env.done.get(f.attr)
    if d is None or d["kind"] == "property":
        raise Unsupported(f"self.{f.attr} is not a translated method (yet)")
    args = call_args(e, [(p, t) for p, t, _ in d["params"]], cx, f"self.{f.attr}")
    for p in d["implicit"]:
        cx.read_self(p)
    return d, f"{d['lname']} " + " ".join(d["implicit"] + args)


def call(e: ast.Call, cx: Ctx):
    f = e.func
    env = cx.env
    if isinstance(f, ast.Name):
        if f.id == "len" and len(e.args) == 1 and not e.keywords:
            a, t = ex(e.args[0], cx)
            if not islist(t):
                raise Unsupported("len of a non-list")
            return f"{a}.length", "nat"
        if f.id == "float" and len(e.args) == 1 and not e.keywords:
            a, t = ex(e.args[0], cx)
            if t != "num":
                raise Unsupported(f"float of {t}")
            return a, "num"                                                   # DROPPED: cast
        if f.id == "pearsonr" and len(e.args) == 2 and not e.keywords:
            if f.id in env.module_defs or env.imports.get(f.id) != "scipy.stats.pearsonr" or f.id in cx.vars:
                raise Unsupported("pearsonr is not the function imported from scipy.stats")
            a, at = ex(e.args[0], cx)
            b, bt = ex(e.args[1], cx)
            if at != VEC or bt != VEC:
                raise Unsupported(f"pearsonr of {at}, {bt}")
            cx.used.add("pearsonr")
            return f"(← pearsonr {a} {b})", ("prod", ["num", "num"])
        raise Unsupported(f"function {f.id}")
    if not isinstance(f, ast.Attribute):
        raise Unsupported(f"call {src(e)}")
    if is_np(f):
        if env.imports.get("np") != "numpy":
            raise Unsupported("np is not numpy")
        if f.attr == "mean" and len(e.args) == 1 and not e.keywords:
            a, at = ex(e.args[0], cx)
            if at != VEC:
                raise Unsupported(f"np.mean of {at}")
            cx.used.add("np_mean")
            return f"(np_mean {a})", "num"
        if f.attr == "vstack" and len(e.args) == 1 and not e.keywords:
            a, at = ex(e.args[0], cx)
            if not (islist(at) and islist(at[1]) and at[1][1] is not None):
                raise Unsupported(f"np.vstack of {at}")
            return f"(← {H}npVstack {a})", at
        if f.attr == "zeros" and len(e.args) == 1 and len(e.keywords) == 1 and e.keywords[0].arg == "dtype" \
                and isinstance(e.keywords[0].value, ast.Name) and e.keywords[0].value.id == "int" \
                and isinstance(e.args[0], ast.Tuple) and len(e.args[0].elts) == 1:
            a, at = ex(e.args[0].elts[0], cx)
            return f"(List.replicate {coerce(a, at, 'nat')} 0)", LNAT
        raise Unsupported(f"numpy function {src(e)}")
    # self.module_x.m(...)
    m = module_of(f.value)
    if m is not None:
        s = side_of(m)
        if f.attr not in NESTED_CALL:
            raise Unsupported(f"nested estimator method {f.attr}")
        kind, params, rty = NESTED_CALL[f.attr]
        if kind not in ("pure", "self"):
            raise Unsupported(f"state-changing call {src(e)[:60]} in expression position")
        args = call_args(e, [(p, sided(t, s)) for p, t in params], cx, f"{m}.{f.attr}")
        cx.used.add("ops" + s)
        return f"(ops{s}.{f.attr} {cx.read_self(m)} " + " ".join(args) + ")", sided(rty, s)
    # self.m(...)
    if isinstance(f.value, ast.Name) and f.value.id == "self":
        d, text = own_method(e, cx)
        if d["writes"]:
            raise Unsupported(f"state-writing method {f.attr} in expression position")
        return f"(← {text})", d["rty"]
    raise Unsupported(f"method call {src(e)}")


# ---------------------------------------------------------------- statements


def self_target(t):
    """assignment target -> the self variable it writes, else None"""
    if is_self(t) and t.attr in SELF_ATTR:
        return SELF_ATTR[t.attr]
    if isinstance(t, ast.Attribute) and module_of(t.value):
        return module_of(t.value)
    if isinstance(t, ast.Subscript) and isinstance(t.value, ast.Attribute) and module_of(t.value.value):
        return module_of(t.value.value)
    return None


def stmt_call_writes(v, env):
    """self variables written by evaluating the call `v` as a statement / right-hand side"""
    out = []
    if isinstance(v, ast.Call) and isinstance(v.func, ast.Attribute):
        m = module_of(v.func.value)
        if m is not None and v.func.attr in NESTED_CALL and NESTED_CALL[v.func.attr][0] in ("update", "update_value"):
            out.append(m)
        if isinstance(v.func.value, ast.Name) and v.func.value.id == "self" and v.func.attr in env.done:
            out += env.done[v.func.attr]["writes"]
    return out


def bound_in(stmts, env) -> list[str]:
    """names (re-)bound anywhere in a block, in order of first appearance (self attributes by their variable name)"""
    out = []

    def add(x):
        if x not in out and x != "_":
            out.append(x)

    for s in stmts:
        if isinstance(s, ast.Assign):
            for w in stmt_call_writes(s.value, env):
                add(w)
            for t in s.targets:
                if isinstance(t, ast.Name):
                    add(t.id)
                elif isinstance(t, ast.Tuple):
                    for x in t.elts:
                        if isinstance(x, ast.Name):
                            add(x.id)
                elif self_target(t):
                    add(self_target(t))
        elif isinstance(s, ast.Expr):
            for w in stmt_call_writes(s.value, env):
                add(w)
        elif isinstance(s, ast.If):
            for x in bound_in(s.body, env) + bound_in(s.orelse, env):
                add(x)
        elif isinstance(s, ast.For):
            for x in bound_in(s.body, env):
                add(x)
    return out


def pack(vs):
    return "()" if not vs else nm(vs[0]) if len(vs) == 1 else "(" + ", ".join(nm(v) for v in vs) + ")"


def has_return(stmts):
    return any(isinstance(n, ast.Return) for b in stmts for n in ast.walk(b))


def has_jump(stmts):
    return any(isinstance(n, (ast.Break, ast.Continue, ast.Raise, ast.While, ast.Try, ast.With)) for b in stmts for n in ast.walk(b))


def bind_self(cx, v):
    cx.bound_self.add(v)


def lambda_use(rest, name):
    """the statement after `name = lambda …` must use it once, as match_reset_func= of self.module_x.step_fit -> side"""
    if not rest:
        raise Unsupported(f"lambda {name} is never used")
    uses = [n for s in rest for n in ast.walk(s) if isinstance(n, ast.Name) and n.id == name]
    nxt = rest[0]
    if len(uses) != 1 or not (isinstance(nxt, ast.Assign) and isinstance(nxt.value, ast.Call)):
        raise Unsupported(f"lambda {name} must be used exactly once, in the next statement")
    c = nxt.value
    m = module_of(c.func.value) if isinstance(c.func, ast.Attribute) else None
    kws = [kw for kw in c.keywords if kw.arg == "match_reset_func" and kw.value is uses[0]]
    if m is None or c.func.attr != "step_fit" or len(kws) != 1:
        raise Unsupported(f"lambda {name} must be the match_reset_func= argument of self.module_x.step_fit")
    return side_of(m)


def ret_text(v, vt, cx, mode):
    """`return E` in the three kinds of block"""
    kind, rty = mode
    val = coerce(v, vt, rty)
    if cx.writes:
        if kind == "loop":
            raise Unsupported("return inside a loop of a state-writing method")
        for w in cx.writes:
            if w not in cx.bound_self and w not in IMPLICIT_DECL:
                raise Unsupported(f"{w} is not written on this path")
        val = "(" + ", ".join([cx.read_self(w) for w in cx.writes] + [val]) + ")"
    return f"pure (some {val})" if kind == "loop" else f"pure {val}"


def block(stmts, cx: Ctx, mode, I="  ") -> list:
    """mode: ("fn", rty) — a method body; ("loop", rty) — the body of a `for` that may return (falls through with
    `pure none`); ("plain", None) — no return allowed, the caller appends the `pure (vars)`"""
    out = []
    env = cx.env
    for idx, s in enumerate(stmts):
        rest = stmts[idx + 1:]
        if isinstance(s, ast.Expr) and isinstance(s.value, ast.Constant) and isinstance(s.value.value, str):
            continue                                                           # DROPPED: docstring
        if isinstance(s, ast.Return):
            if rest or mode[0] == "plain":
                raise Unsupported("return in the middle of a block / where none is allowed")
            if mode[1] == "self":
                if not (isinstance(s.value, ast.Name) and s.value.id == "self"):
                    raise Unsupported(f"return {src(s.value)} where `return self` is expected")
                if cx.writes != SELF_ORDER or any(w not in cx.bound_self for w in SELF_ORDER):
                    raise Unsupported(f"`return self` of a method that writes {cx.writes}, not {SELF_ORDER}")
                out.append(I + "pure ⟨" + ", ".join(SELF_ORDER) + "⟩")
                return out
            if s.value is None:
                raise Unsupported("bare return")
            v, vt = ex(s.value, cx)
            out.append(I + ret_text(v, vt, cx, mode))
            return out
        if isinstance(s, ast.Expr) and isinstance(s.value, ast.Call) and isinstance(s.value.func, ast.Attribute):
            c = s.value
            if is_self(c.func, "validate_data"):
                continue                                                       # DROPPED: guard
            m = module_of(c.func.value)
            if m is not None and c.func.attr in NESTED_CALL and NESTED_CALL[c.func.attr][0] == "update":
                sd = side_of(m)
                args = call_args(c, [(p, sided(t, sd)) for p, t in NESTED_CALL[c.func.attr][1]], cx, f"{m}.{c.func.attr}")
                cx.used.add("ops" + sd)
                out.append(I + f"let {m} := (ops{sd}.{c.func.attr} {cx.read_self(m)} " + " ".join(args) + ")")
                bind_self(cx, m)
                continue
            raise Unsupported(f"expression statement {src(s)[:80]}")
        if isinstance(s, ast.Assign) and len(s.targets) == 1:
            out += assign(s, rest, cx, I)
            continue
        if isinstance(s, ast.If) and not s.orelse:
            if len(s.body) == 1 and isinstance(s.body[0], ast.Raise):
                c, ct = ex(s.test, cx)
                if ct != "bool":
                    raise Unsupported("condition is not boolean")
                out.append(I + f"{H}pyRaiseIf {c}")                            # DROPPED: the exception and its message
                continue
            if s.body and isinstance(s.body[-1], ast.Return) and mode[0] != "plain" and not has_jump(s.body):
                c, ct = ex(s.test, cx)
                if ct != "bool":
                    raise Unsupported("condition is not boolean")
                c1, c2 = cx.copy(), cx.copy()
                b1 = block(s.body, c1, mode, I + "  ")
                b2 = block(rest, c2, mode, I + "  ")
                out.append(I + f"if {c} then (do")
                out += b1
                out[-1] += ")"
                out.append(I + "else (do")
                out += b2
                out[-1] += ")"
                return out
            raise Unsupported(f"if statement {src(s.test)}")
        if isinstance(s, ast.For) and not s.orelse:
            if has_jump(s.body):
                raise Unsupported("break / continue / raise / while inside a for loop")
            it, ity = iterable(s.iter, cx)
            x = target_name(s.target)
            vs = [v for v in bound_in(s.body, env) if v in cx.vars or v in cx.bound_self or v in IMPLICIT_DECL]
            inner = cx.copy()
            if x != "_":
                inner.vars[x] = ity[1]
            if has_return(s.body):
                if vs or mode[0] != "fn" or cx.writes:
                    raise Unsupported("a for loop that returns and also carries variables / is nested")
                body = block(s.body, inner, ("loop", mode[1]), I + "    ")
                c2 = cx.copy()
                b2 = block(rest, c2, mode, I + "    ")
                out.append(I + f"match (← {H}forRet {it} (fun {nm(x)} => do")
                out += body
                out[-1] += ")) with"
                out.append(I + "| some v_ => pure v_")
                out.append(I + "| none => (do")
                out += b2
                out[-1] += ")"
                return out
            for v in vs:
                if v in IMPLICIT_DECL or v in SELF_TYPES:
                    cx.read_self(v)
            body = block(s.body, inner, ("plain", None), I + "    ")
            for v in vs:
                if v in cx.vars and inner.vars.get(v) != cx.vars[v]:
                    raise Unsupported(f"{v} changes its type inside the loop")
            out.append(I + f"let {pack(vs)} ← {it}.foldlM (fun {pack(vs)} {nm(x)} => do")
            out += body
            out.append(I + f"    pure {pack(vs)}) {pack(vs)}")
            for v in vs:
                if v in SELF_TYPES:
                    bind_self(cx, v)
            continue
        raise Unsupported(f"statement {type(s).__name__}: {src(s)[:80]}")
    if mode[0] == "plain":
        return out
    if mode[0] == "loop":
        out.append(I + "pure none")
        return out
    raise Unsupported("method falls off its end")


def assign(s: ast.Assign, rest, cx: Ctx, I) -> list:
    t = s.targets[0]
    env = cx.env
    v = s.value
    # name = lambda …
    if isinstance(t, ast.Name) and isinstance(v, ast.Lambda):
        side = lambda_use(rest, t.id)
        a = v.args
        if a.vararg or a.kwarg or a.kwonlyargs or a.posonlyargs or a.defaults or len(a.args) != 5:
            raise Unsupported("lambda that does not take the five reset-function arguments")
        inner = cx.copy()
        decl = []
        for p, pt in zip(a.args, reset_types(side)):
            inner.vars[p.arg] = pt
            decl.append(f"({nm(p.arg)} : {lty(pt)})")
        b, bt = ex(v.body, inner)
        if bt != "bool":
            raise Unsupported("reset function that does not return a boolean")
        cx.vars[t.id] = ("fn", side)
        return [I + f"let {nm(t.id)} := (fun " + " ".join(decl) + f" => do pure {b})"]
    # c = self.module_x.step_fit(…)   /   c = self.m(…) with m writing state
    if isinstance(t, ast.Name) and isinstance(v, ast.Call) and isinstance(v.func, ast.Attribute):
        m = module_of(v.func.value)
        if m is not None and v.func.attr in NESTED_CALL and NESTED_CALL[v.func.attr][0] == "update_value":
            sd = side_of(m)
            kind, params, rty = NESTED_CALL[v.func.attr]
            args = call_args(v, [(p, sided(pt, sd)) for p, pt in params], cx, f"{m}.{v.func.attr}")
            cx.used.add("ops" + sd)
            line = I + f"let ({m}, {nm(t.id)}) := (← ops{sd}.{v.func.attr} {cx.read_self(m)} " + " ".join(args) + ")"
            bind_self(cx, m)
            cx.vars[t.id] = sided(rty, sd)
            return [line]
        if isinstance(v.func.value, ast.Name) and v.func.value.id == "self" and v.func.attr in env.done \
                and env.done[v.func.attr]["writes"]:
            d, text = own_method(v, cx)
            line = I + "let (" + ", ".join(d["writes"] + [nm(t.id)]) + f") := (← {text})"
            for w in d["writes"]:
                bind_self(cx, w)
            cx.vars[t.id] = d["rty"]
            return [line]
    if isinstance(t, ast.Name):
        x, xt = ex(v, cx)
        if xt == "lit":
            xt = "nat"
        if islist(xt) and xt[1] is None:
            raise Unsupported("empty list bound to a name")
        cx.vars[t.id] = xt
        return [I + f"let {nm(t.id)} := {x}"]
    if isinstance(t, ast.Tuple) and all(isinstance(x, ast.Name) for x in t.elts):
        x, xt = ex(v, cx)
        if not (isinstance(xt, tuple) and xt[0] == "prod" and len(xt[1]) == len(t.elts)):
            raise Unsupported(f"unpacking {src(v)} of type {xt} into {len(t.elts)} names")
        for y, yt in zip(t.elts, xt[1]):
            if y.id != "_":
                cx.vars[y.id] = yt
        return [I + "let (" + ", ".join(nm(y.id) for y in t.elts) + f") := {x}"]
    # self.X = E, self.rows_ = E, self.columns_ = E, self.module_x = E
    if is_self(t) and t.attr in SELF_ATTR:
        var = SELF_ATTR[t.attr]
        x, xt = ex(v, cx)
        if xt != SELF_TYPES[var]:
            raise Unsupported(f"self.{t.attr} = a value of type {xt}")
        bind_self(cx, var)
        return [I + f"let {var} := {x}"]
    # self.module_x.attr = E
    if isinstance(t, ast.Attribute) and module_of(t.value):
        m = module_of(t.value)
        sd = side_of(m)
        if t.attr not in NESTED_WRITE:
            raise Unsupported(f"write to attribute {t.attr} of the nested estimator")
        fld, ft = NESTED_WRITE[t.attr]
        x, xt = ex(v, cx)
        cx.used.add("ops" + sd)
        line = I + f"let {m} := (ops{sd}.{fld} {cx.read_self(m)} {coerce(x, xt, sided(ft, sd))})"
        bind_self(cx, m)
        return [line]
    # self.module_x.labels_[k] = E
    if isinstance(t, ast.Subscript) and isinstance(t.value, ast.Attribute) and module_of(t.value.value):
        m = module_of(t.value.value)
        sd = side_of(m)
        if t.value.attr != "labels_":
            raise Unsupported(f"item assignment to {src(t.value)}")
        k, kt = ex(t.slice, cx)
        x, xt = ex(v, cx)
        cx.used.add("ops" + sd)
        line = I + f"let {m} := (← ops{sd}.labels_setitem {cx.read_self(m)} {coerce(k, kt, 'nat')} {coerce(x, xt, 'nat')})"
        bind_self(cx, m)
        return [line]
    raise Unsupported(f"assignment target {src(t)}")


def check_signature(f: ast.FunctionDef, kind, params, what):
    a = f.args
    if a.vararg or a.kwarg or a.kwonlyargs or a.posonlyargs:
        raise Unsupported(f"{what}: *args / **kwargs / keyword-only parameters")
    args = a.args if kind == "static" else a.args[1:]
    if kind != "static" and (not a.args or a.args[0].arg != "self"):
        raise Unsupported(f"{what}: first parameter is not self")
    got = [(x.arg, src(x.annotation) if x.annotation is not None else None) for x in args]
    want = [(p, ann) for p, _, ann in params]
    if got != want:
        raise Unsupported(f"{what} has parameters {got}, the translator knows {want}")
    if [src(d) for d in f.decorator_list] != DECORATORS[kind]:
        raise Unsupported(f"{what} is decorated with {[src(d) for d in f.decorator_list]}, expected {DECORATORS[kind]}")


def translate_method(env: Env, node: ast.ClassDef, name, kind, params, rty) -> str:
    fs = [f for f in node.body if isinstance(f, ast.FunctionDef) and f.name == name]
    if len(fs) != 1:
        raise Unsupported(f"{CLS}.{name} not found (once)")
    f = fs[0]
    check_signature(f, kind, params, f"{CLS}.{name}")
    body_stmts = list(f.body)
    writes = [w for w in SELF_ORDER if w in bound_in(body_stmts, env)]
    cx = Ctx(env, writes)
    cx.class_locals = {p for p, _, _ in params}
    for p, t, _ in params:
        cx.vars[p] = t
    body = block(body_stmts, cx, ("fn", rty), "  ")
    implicit = [p for p in IMPLICIT_ORDER if p in cx.used]
    ln = lname(name)
    if ln in {lname(m) for m in env.done} or ln in IMPLICIT_DECL:
        raise Unsupported(f"name clash: {ln}")
    env.done[name] = {"lname": ln, "kind": kind, "implicit": implicit, "params": params, "rty": rty, "writes": writes}
    if rty == "self":
        rt = "Fitted MA MB α"
    elif writes:
        rt = " × ".join([atom(lty(SELF_TYPES[w])) for w in writes] + [atom(lty(rty))])
    else:
        rt = lty(rty)
    decl = " ".join([IMPLICIT_DECL[p] for p in implicit] + [f"({nm(p)} : {lty(t)})" for p, t, _ in params])
    what = {"property": " (property)", "static": " (staticmethod)", "method": ""}[kind]
    return (f"/-- `{CLS}.{name}`{what} -/\n"
            f"def {ln} {decl} :\n    Option {atom(rt)} := do\n" + "\n".join(body) + "\n")


PRELUDE = '''/-
GENERATED by harness/artv/btrans.py from {file} — do not edit.
Regenerated on every run of the checks that name it; ArtGenProofs/BartmapSpec.lean proves these definitions equal
to the BARTMAP model of ArtModel/Bartmap.lean.
-/
import ArtModel.ImpBartmap

set_option linter.unusedVariables false

namespace Art.Gen.BARTMAP
open Art

/-- a nested ART module (`self.module_a` / `self.module_b`) as BARTMAP's own code uses it: an abstract object `M`
with these attributes and methods.  `S` = a prepared sample (a row of `prepare_data(X)`), `Wt` = a weight, `P` / `C`
= the `params` / `cache` dictionaries handed to a reset function.  A method that changes the estimator returns the
changed object; `none` = the call raises. -/
structure ModOps (M S Wt P C α : Type) where
  /-- `prepare_data(X)` -/
  prepare_data : M → List (List α) → List S
  /-- `fit(X, max_iter=…)`: the fitted estimator (the method returns `self`) -/
  fit : M → List S → Nat → M
  /-- attribute `W` -/
  W : M → List Wt
  /-- attribute `labels_` -/
  labels_ : M → List Nat
  /-- property `n_clusters` -/
  n_clusters : M → Nat
  /-- `W = …` -/
  set_W : M → List Wt → M
  /-- `weight_sample_counter_ = …` -/
  set_weight_sample_counter_ : M → List Nat → M
  /-- `sample_counter_ = …` -/
  set_sample_counter_ : M → Nat → M
  /-- `labels_ = …` -/
  set_labels_ : M → List Nat → M
  /-- `labels_[k] = c` (an index out of range raises) -/
  labels_setitem : M → Nat → Nat → Option M
  pre_step_fit : M → List S → M
  post_step_fit : M → List S → M
  /-- `step_fit(x, match_reset_func=f)`: the changed estimator and the label; `f i w cluster params cache` may raise -/
  step_fit : M → S → (S → Wt → Nat → P → Option C → Option Bool) → Option (M × Nat)

/-- the attributes of `self` that `fit` writes (`return self`) -/
structure Fitted (MA MB α : Type) where
  module_a : MA
  module_b : MB
  /-- `self.X` -/
  X : List (List α)
  rows_ : List (List Bool)
  columns_ : List (List Bool)

section
variable {MA MB SA SB WA WB P C α : Type} [LE α] [DecidableRel (α := α) (· ≤ ·)]

'''


def generate(repo: Path) -> str:
    repo = Path(repo)
    tree = ast.parse((repo / FILE).read_text())
    env = Env(tree)
    node = env.classes.get(CLS)
    if node is None:
        raise Unsupported(f"class {CLS} not found in {FILE}")
    if [src(b) for b in node.bases] != ["BaseEstimator", "BiclusterMixin"]:
        raise Unsupported(f"{CLS} has bases {[src(b) for b in node.bases]}")
    # every method the class defines must be known: translated, or listed as out of the slice
    known = {m for m, _, _, _ in METHODS} | {"__init__", "__getattr__", "__setattr__", "get_params", "set_params",
                                            "validate_params", "validate_data", "visualize"}
    extra = [f.name for f in node.body if isinstance(f, ast.FunctionDef) and f.name not in known]
    if extra:
        raise Unsupported(f"{CLS} defines {extra}: not known to the translator")
    parts = [PRELUDE.replace("{file}", FILE)]
    for name, kind, params, rty in METHODS:
        parts.append(translate_method(env, node, name, kind, params, rty))
    parts.append("end\n\nend Art.Gen.BARTMAP\n")
    return "\n".join(parts)


def write(repo: Path = None) -> tuple[bool, str]:
    repo = Path(repo or os.environ.get("VERIF_REPO", "/repo"))
    out = VERIF / "lean" / "ArtGen" / "Bartmap.lean"
    try:
        text = generate(repo)
    except (Unsupported, SyntaxError, KeyError, AttributeError, TypeError, IndexError, OSError) as e:
        return False, f"{type(e).__name__}: {e}"
    if not out.exists() or out.read_text() != text:
        tmp = out.with_suffix(".lean.tmp")
        tmp.write_text(text)
        os.replace(tmp, out)
    return True, "generated"


if __name__ == "__main__":
    import sys
    ok, msg = write(sys.argv[1] if len(sys.argv) > 1 else None)
    print(msg)
    sys.exit(0 if ok else 1)
