"""Data-preparation translator: the Python AST of artlib's normalisation / complement coding / validation code
->  Lean 4 definitions (`lean/ArtGen/Prep.lean`, namespace `Art.Gen.Prep`).

Sources (parsed with `ast`, never imported):
  artlib/common/utils.py          normalize, de_normalize, compliment_code, de_compliment_code, l1norm, l2norm2, fuzzy_and
  artlib/common/BaseART.py        BaseART.prepare_data, restore_data, validate_data, check_dimensions
  artlib/elementary/FuzzyART.py   FuzzyART.prepare_data, restore_data, validate_data, check_dimensions
  artlib/elementary/ART1.py       ART1.validate_data        (check_dimensions inherited: BaseART's body, re-translated for ART1)
  artlib/elementary/ART2.py       ART2A.check_dimensions    (validate_data inherited: BaseART's body, whose
                                                             `self.check_dimensions` is ART2A's — dynamic dispatch)
`lean/ArtGenProofs/PrepSpec.lean` proves every generated definition equal to the definition of `ArtModel/Prep.lean`
the C18 property theorems are stated about, and transports those theorems to the generated definitions.

Two monads (`lean/ArtModel/ImpPrep.lean`):
  * a module-level function writes nothing: its body is a `do` block in `Except PyErr` (`.error` = the Python code raises);
  * a method reads and writes attributes of `self`: its body is a `do` block in `Py (Self α)`, `Py σ β = σ → Except PyErr β × σ`,
    which returns the attribute record *as it is when the call ends, normally or by raising* — so "an `assert` rejects
    before any attribute is written" is a statement about the generated term, not an assumption.

The translation (one fixed rendering per construct; `⟦e⟧` = the rendering of `e`; `lift a` = `(← a)` in a function,
`(← Py.lift a)` in a method):
  statements
    "docstring"                          ->  dropped (DROPPED)
    assert c, "msg"                      ->  Np.assert ⟦c⟧   /  Py.assert ⟦c⟧             (the message is dropped)
    x = e                                ->  let x := ⟦e⟧
    a, b = e          (e a tuple)        ->  let (a, b) := ⟦e⟧                             ((a, b) as an expression -> (⟦a⟧, ⟦b⟧))
    a, self.p, self.q = e                ->  let (a, t1__, t2__) := ⟦e⟧ ; then the attribute stores, left to right
    self.p = e                           ->  let t__ := ⟦e⟧ ; Py.modify (fun s__ => { s__ with p := some t__ })
    if x is None: x = e   (x Optional)   ->  let x ← match x with | none => (do pure ⟦e⟧) | some v__ => pure v__     (x is an array afterwards)
    if c: A else: B   (no return inside) ->  if ⟦c⟧ then ⟦A⟧ else ⟦B⟧                    (do-blocks; attribute stores only)
    self.m(args)      (statement)        ->  C.m ⟦args⟧         C = the class being translated: `self.m` is resolved along
                                             the MRO of the *concrete* class, an inherited method body is re-translated for it
    return e                             ->  pure ⟦e⟧           (last statement only)
  expressions
    0, 1, 1.0, 2, 0.01                   ->  (0 : α), (1 : α), ((2 : Nat) : α), ((1 : α) / ((100 : Nat) : α))   next to an array / a float
                                             0, 1, 2                                                        next to an int
    X.shape / X.shape[1]                 ->  Np.shape X / (Np.shape X).2
    a % b, a // b     (ints)             ->  a % b, a / b        (Nat)
    a / b             (ints)             ->  ((a : Nat) : α) / ((b : Nat) : α)            (Python's true division)
    a ∘ b   (numbers, ∘ in + - * /)      ->  a ∘ b               (an int operand next to a float is cast)
    A ∘ c, c ∘ A      (array, number)    ->  Np.ew2 / Np.ew1 (fun x__ => x__ ∘ c) A        (0-d operand: never raises)
    A ∘ B             (arrays)           ->  lift (Np.bcast2 (fun a__ b__ => a__ ∘ b__) A B) (rank 2, a rank-1 operand v is passed as [v])
                                             lift (Np.bcast1 …)                              (both rank 1)      — ValueError on a shape mismatch
    A >= c, A <= c, a == b, a <= b       ->  Np.ew2/ew1 (fun x__ => decide (x__ ≥ c)) A, (a == b), decide (a ≤ b)   (only ==, <=, >=)
    not c                                ->  !⟦c⟧
    np.min(A, axis=0) / np.max(A, axis=0)->  lift (Np.reduceAxis0 min A) / … max            (ValueError on zero rows)
    np.sum(A, axis=1) / np.sum(v)        ->  Np.sumAxis1 A / Np.sum1 v
    np.all(B)                            ->  Np.all2 B / Np.all1 B
    abs(e), np.absolute(e)               ->  Np.abs e / Np.ew1 Np.abs e
    np.hstack([A, B])                    ->  lift (Np.hstack [A, B])
    A[:, :m], A[:, m:]                   ->  Np.cols A 0 (some m), Np.cols A m none
    np.minimum(x, y)                     ->  lift (Np.bcast1 min x y)
    np.matmul(x, y)   (rank 1)           ->  lift (Np.matmul1 x y)
    np.array_equal(X, B), X.astype(bool) ->  Np.arrayEqualNB X B, Np.astypeBool X
    np.sqrt(e)                           ->  sqrt ⟦e⟧             (`sqrt` is a parameter of the generated definition: numpy's is not translated)
    float(e), int(e)                     ->  ⟦e⟧                  (a cast of a value that already has that type; an int under float() is cast to α)
    hasattr(self, "dim_")                ->  (← Py.get).dim_.isSome
    self.dim_          (may be absent)   ->  (← Py.attr (·.dim_))                            (AttributeError when never assigned)
    self.d_max_        (None or array)   ->  (← Py.get).d_max_
    self.params["alpha"]                 ->  p_alpha             (a parameter of the generated definition)
    f(args)  (translated function)       ->  lift (f ⟦args⟧)     keyword arguments are matched to the callee's parameters,
                                             an Optional value passed where an array is required: lift (Np.notNone e)  (TypeError),
                                             an array passed where an Optional is expected: some e, a missing default-None argument: none
    super(C, self).m(args) / super().m   ->  (← B.m ⟦args⟧)      B = C's base; only when B.m calls no method of self
Anything else raises `Unsupported`: the translator fails closed.
"""
from __future__ import annotations

import ast
import os
from fractions import Fraction
from pathlib import Path

from .ktrans import Unsupported

VERIF = Path(__file__).resolve().parents[2]

FILES = {
    "utils": "artlib/common/utils.py",
    "BaseART": "artlib/common/BaseART.py",
    "FuzzyART": "artlib/elementary/FuzzyART.py",
    "ART1": "artlib/elementary/ART1.py",
    "ART2A": "artlib/elementary/ART2.py",
}

DROPPED = {
    "docstrings": "a string expression statement has no effect",
    "assert messages": "`assert c, msg`: only `c` decides whether AssertionError is raised; the text is not part of the state",
    "float(e) / int(e) of a value that already has that type": "identity on exact numbers (int(n // 2) of an int, float(x) of a float); "
                                                              "float(n) of an int is NOT dropped, it becomes the cast to α",
    "np.asarray(A, dtype=float)": "conversion of a numeric array to float64: identity on exact numbers (the integer-dtype wrap-around it "
                                  "prevents — finding F39 — is a float/integer matter measured by the check, not by the proof)",
    "type annotations": "used only to check that a parameter is the Optional / array the signature table says",
    "float rounding": "decimal literals are read as the exact decimal (0.01 = 1/100), arithmetic is exact; IEEE rounding is measured by the check, not proved",
}

# ----------------------------------------------------------------------------------------------- types
#  "num" α   "nat" Nat   "bool" Bool   "vec" List α   "mat" List (List α)   "bvec"/"bmat" Boolean arrays
#  ("opt", t)   ("prod", [t…])   "unit"   ("lit", python number): an untyped literal


def lty(t) -> str:
    if isinstance(t, str):
        return {"num": "α", "nat": "Nat", "bool": "Bool", "vec": "List α", "mat": "List (List α)", "bvec": "List Bool",
                "bmat": "List (List Bool)", "unit": "Unit"}[t]
    if t[0] == "opt":
        return f"Option ({lty(t[1])})"
    if t[0] == "prod":
        return " × ".join(lty(x) for x in t[1])
    raise Unsupported(f"type {t}")


OPTVEC = ("opt", "vec")
# module-level functions of utils.py: parameters (name, type, annotation text, default text) and the return type.
# The rank of an `np.ndarray` parameter (matrix / vector) is the translator's reading of the docstrings ("2D array of
# dataset (rows = samples, columns = features)", "Input vector") and of the call sites; it is an input of the translation.
FUNCS = {
    "normalize": ([("data", "mat", "np.ndarray", None), ("d_max", OPTVEC, "Optional[np.ndarray]", "None"),
                   ("d_min", OPTVEC, "Optional[np.ndarray]", "None")], ("prod", ["mat", "vec", "vec"])),
    "de_normalize": ([("data", "mat", "np.ndarray", None), ("d_max", "vec", "np.ndarray", None),
                      ("d_min", "vec", "np.ndarray", None)], "mat"),
    "compliment_code": ([("data", "mat", "np.ndarray", None)], "mat"),
    "de_compliment_code": ([("data", "mat", "np.ndarray", None)], "mat"),
    "l1norm": ([("x", "vec", "np.ndarray", None)], "num"),
    "l2norm2": ([("data", "vec", "np.ndarray", None)], "num"),
    "fuzzy_and": ([("x", "vec", "np.ndarray", None), ("y", "vec", "np.ndarray", None)], "vec"),
}
FUNC_ORDER = ["normalize", "de_normalize", "compliment_code", "de_compliment_code", "l1norm", "l2norm2", "fuzzy_and"]

# methods: parameters after self, return type
METHODS = {
    "prepare_data": ([("X", "mat", "np.ndarray", None)], "mat"),
    "restore_data": ([("X", "mat", "np.ndarray", None)], "mat"),
    "check_dimensions": ([("X", "mat", "np.ndarray", None)], "unit"),
    "validate_data": ([("X", "mat", "np.ndarray", None)], "unit"),
}
# what is emitted, in dependency order: (concrete class, method)
EMIT = [
    ("BaseART", "prepare_data"), ("BaseART", "restore_data"), ("BaseART", "check_dimensions"), ("BaseART", "validate_data"),
    ("FuzzyART", "prepare_data"), ("FuzzyART", "restore_data"), ("FuzzyART", "check_dimensions"), ("FuzzyART", "validate_data"),
    ("ART1", "check_dimensions"), ("ART1", "validate_data"),
    ("ART2A", "check_dimensions"), ("ART2A", "validate_data"),
]
# attributes of self: name -> (type of the value, kind).  "none": always present, `None` until assigned (BaseART.__init__
# sets d_max_ = d_min_ = None); "absent": does not exist until assigned (hasattr is false, reading raises AttributeError)
ATTRS = {"d_max_": ("vec", "none"), "d_min_": ("vec", "none"), "dim_": ("nat", "absent"), "dim_original": ("nat", "absent")}
PARAM_KEYS = {"alpha": "num"}     # self.params["k"] that may be read: binder p_k

ARITH = {ast.Add: "+", ast.Sub: "-", ast.Mult: "*", ast.Div: "/"}


def src(e) -> str:
    return ast.unparse(e)


class Ctx:
    def __init__(self, method: bool, cls: str | None = None, mro: list[str] | None = None, classes=None):
        self.method = method
        self.cls = cls
        self.mro = mro or []
        self.classes = classes or {}
        self.vars: dict[str, object] = {}
        self.binders: list[str] = []      # "p_alpha", "sqrt"
        self.fresh = 0

    def lift(self, act: str) -> str:
        return f"(← Np.Py.lift ({act}))" if self.method else f"(← {act})"

    def tmp(self) -> str:
        self.fresh += 1
        return f"t{self.fresh}__"

    def bind(self, b: str):
        if b not in self.binders:
            self.binders.append(b)


def lit(v, want: str) -> str:
    """an untyped Python number at the type it is used at"""
    if isinstance(v, bool):
        raise Unsupported("Boolean used as a number")
    if want == "nat":
        if isinstance(v, int) and v >= 0:
            return str(v)
        raise Unsupported(f"constant {v!r} where an int is needed")
    if want == "num":
        fr = Fraction(repr(v)) if isinstance(v, float) else Fraction(v)
        if fr < 0 or fr.denominator > 10**6 or fr.numerator > 10**6:
            raise Unsupported(f"constant {v!r}")

        def n(k):
            return f"({k} : α)" if k in (0, 1) else f"(({k} : Nat) : α)"
        return n(fr.numerator) if fr.denominator == 1 else f"({n(fr.numerator)} / {n(fr.denominator)})"
    raise Unsupported(f"constant {v!r} at type {want}")


def as_num(text, t) -> str:
    """a scalar operand next to a float / an array"""
    if isinstance(t, tuple) and t[0] == "lit":
        return lit(t[1], "num")
    if t == "num":
        return text
    if t == "nat":
        return f"(({text} : Nat) : α)"
    raise Unsupported(f"{text} : {t} used as a number")


def is_lit(t):
    return isinstance(t, tuple) and t[0] == "lit"


def self_attr(e):
    if isinstance(e, ast.Attribute) and isinstance(e.value, ast.Name) and e.value.id == "self":
        return e.attr
    return None


def np_call(e):
    """`np.f(...)` -> "f" """
    if isinstance(e, ast.Call) and isinstance(e.func, ast.Attribute) and isinstance(e.func.value, ast.Name) \
            and e.func.value.id == "np":
        return e.func.attr
    return None


def binop(op: str, l, lt, r, rt, cx: Ctx):
    scal = lambda t: t in ("num", "nat") or is_lit(t)
    arr = lambda t: t in ("vec", "mat")
    if scal(lt) and scal(rt):
        if is_lit(lt) and is_lit(rt):
            raise Unsupported("arithmetic on two literals")
        if lt == "num" or rt == "num":
            return f"({as_num(l, lt)} {op} {as_num(r, rt)})", "num"
        # ints
        a = lit(lt[1], "nat") if is_lit(lt) else l
        b = lit(rt[1], "nat") if is_lit(rt) else r
        if op == "/":      # true division of two ints is a float
            return f"((({a} : Nat) : α) / (({b} : Nat) : α))", "num"
        if op in ("+", "*"):
            return f"({a} {op} {b})", "nat"
        raise Unsupported("subtraction of ints (truncated on Nat)")
    if arr(lt) and scal(rt):
        return f"(Np.ew{2 if lt == 'mat' else 1} (fun x__ => x__ {op} {as_num(r, rt)}) {l})", lt
    if scal(lt) and arr(rt):
        return f"(Np.ew{2 if rt == 'mat' else 1} (fun x__ => {as_num(l, lt)} {op} x__) {r})", rt
    if arr(lt) and arr(rt):
        f = f"(fun a__ b__ => a__ {op} b__)"
        if lt == rt == "vec":
            return cx.lift(f"Np.bcast1 {f} {l} {r}"), "vec"
        a = l if lt == "mat" else f"[{l}]"
        b = r if rt == "mat" else f"[{r}]"
        return cx.lift(f"Np.bcast2 {f} {a} {b}"), "mat"
    raise Unsupported(f"operator {op} on {lt}, {rt}")


def compare(op, l, lt, r, rt):
    scal = lambda t: t in ("num", "nat") or is_lit(t)
    if isinstance(op, ast.Eq):
        rel = None
    elif isinstance(op, ast.LtE):
        rel = "≤"
    elif isinstance(op, ast.GtE):
        rel = "≥"
    else:
        raise Unsupported(f"comparison operator {type(op).__name__} (only ==, <=, >= are translated)")
    if scal(lt) and scal(rt):
        if is_lit(lt) and is_lit(rt):
            raise Unsupported("comparison of two literals")
        if lt == "num" or rt == "num":
            a, b = as_num(l, lt), as_num(r, rt)
        else:
            a = lit(lt[1], "nat") if is_lit(lt) else l
            b = lit(rt[1], "nat") if is_lit(rt) else r
        return (f"({a} == {b})" if rel is None else f"(decide ({a} {rel} {b}))"), "bool"
    if lt in ("vec", "mat") and scal(rt):
        if rel is None:
            raise Unsupported("== between an array and a number")
        return f"(Np.ew{2 if lt == 'mat' else 1} (fun x__ => decide (x__ {rel} {as_num(r, rt)})) {l})", "b" + lt
    raise Unsupported(f"comparison on {lt}, {rt}")


def ex(e: ast.AST, cx: Ctx):
    """expression -> (Lean text, type); the text may contain nested actions `(← …)`"""
    if isinstance(e, ast.Name):
        if e.id not in cx.vars:
            raise Unsupported(f"unknown name {e.id}")
        return e.id, cx.vars[e.id]
    if isinstance(e, ast.Constant):
        if isinstance(e.value, bool) or not isinstance(e.value, (int, float)):
            raise Unsupported(f"constant {e.value!r}")
        return repr(e.value), ("lit", e.value)
    a = self_attr(e)
    if a is not None:
        if not cx.method:
            raise Unsupported("self outside a method")
        if a not in ATTRS:
            raise Unsupported(f"self.{a}")
        t, kind = ATTRS[a]
        if kind == "none":
            return f"(← Np.Py.get).{a}", ("opt", t)
        return f"(← Np.Py.attr (·.{a}))", t
    if isinstance(e, ast.Attribute) and e.attr == "shape":
        b, bt = ex(e.value, cx)
        if bt not in ("mat", "bmat"):
            raise Unsupported(f".shape of {bt}")
        return f"(Np.shape {b})", ("prod", ["nat", "nat"])
    if isinstance(e, ast.Subscript):
        # self.params["alpha"]
        if self_attr(e.value) == "params" and isinstance(e.slice, ast.Constant) and e.slice.value in PARAM_KEYS:
            cx.bind("p_" + e.slice.value)
            return "p_" + e.slice.value, PARAM_KEYS[e.slice.value]
        b, bt = ex(e.value, cx)
        if isinstance(bt, tuple) and bt[0] == "prod" and isinstance(e.slice, ast.Constant) and e.slice.value in (0, 1) \
                and len(bt[1]) == 2:
            return f"{b}.{e.slice.value + 1}", bt[1][e.slice.value]
        # A[:, :m]  /  A[:, m:]
        if bt == "mat" and isinstance(e.slice, ast.Tuple) and len(e.slice.elts) == 2:
            rows, colsl = e.slice.elts
            if not (isinstance(rows, ast.Slice) and rows.lower is None and rows.upper is None and rows.step is None):
                raise Unsupported(f"row selection in {src(e)}")
            if not isinstance(colsl, ast.Slice) or colsl.step is not None:
                raise Unsupported(f"column selection in {src(e)}")

            def bound(x):
                t_, ty = ex(x, cx)
                if is_lit(ty):
                    return lit(ty[1], "nat")
                if ty != "nat":
                    raise Unsupported(f"slice bound of type {ty}")
                return t_
            lo = "0" if colsl.lower is None else bound(colsl.lower)
            hi = "none" if colsl.upper is None else f"(some {bound(colsl.upper)})"
            return f"(Np.cols {b} {lo} {hi})", "mat"
        raise Unsupported(f"subscript {src(e)}")
    if isinstance(e, ast.UnaryOp) and isinstance(e.op, ast.Not):
        c, ct = ex(e.operand, cx)
        if ct != "bool":
            raise Unsupported("not of a non-Boolean")
        return f"(!{c})", "bool"
    if isinstance(e, ast.BinOp):
        l, lt = ex(e.left, cx)
        r, rt = ex(e.right, cx)
        if type(e.op) in ARITH:
            return binop(ARITH[type(e.op)], l, lt, r, rt, cx)
        if isinstance(e.op, (ast.Mod, ast.FloorDiv)):
            a = lit(lt[1], "nat") if is_lit(lt) else l
            b = lit(rt[1], "nat") if is_lit(rt) else r
            if not all(t == "nat" or is_lit(t) for t in (lt, rt)) or (is_lit(lt) and is_lit(rt)):
                raise Unsupported(f"{src(e)}: % and // are translated on ints only")
            return f"({a} {'%' if isinstance(e.op, ast.Mod) else '/'} {b})", "nat"
        raise Unsupported(f"operator in {src(e)}")
    if isinstance(e, ast.Compare):
        if len(e.ops) != 1:
            raise Unsupported(f"chained comparison {src(e)}")
        l, lt = ex(e.left, cx)
        r, rt = ex(e.comparators[0], cx)
        return compare(e.ops[0], l, lt, r, rt)
    if isinstance(e, ast.Tuple) and len(e.elts) >= 2:
        parts = [ex(x, cx) for x in e.elts]
        if any(is_lit(t) for _, t in parts):
            raise Unsupported("literal inside a tuple")
        return "(" + ", ".join(p for p, _ in parts) + ")", ("prod", [t for _, t in parts])
    if isinstance(e, ast.Call):
        return call(e, cx)
    raise Unsupported(f"expression {type(e).__name__}: {src(e)}")


def kw(e: ast.Call, name: str):
    for k in e.keywords:
        if k.arg == name:
            return k.value
    return None


def coerce_arg(text, t, want, cx: Ctx):
    if t == want:
        return text
    if isinstance(t, tuple) and t[0] == "opt" and t[1] == want:
        return cx.lift(f"Np.notNone {text}")
    if isinstance(want, tuple) and want[0] == "opt" and want[1] == t:
        return f"(some {text})"
    raise Unsupported(f"argument {text} : {t} where {want} is expected")


def bind_args(e: ast.Call, params, what: str):
    """positional and keyword arguments -> one expression (or None = default) per parameter"""
    if len(e.args) > len(params) or any(isinstance(a, ast.Starred) for a in e.args):
        raise Unsupported(f"arguments of {what}")
    slots = {p[0]: None for p in params}
    for p, a in zip(params, e.args):
        slots[p[0]] = a
    for k in e.keywords:
        if k.arg not in slots or slots[k.arg] is not None:
            raise Unsupported(f"keyword argument {k.arg} of {what}")
        slots[k.arg] = k.value
    return [slots[p[0]] for p in params]


def call(e: ast.Call, cx: Ctx):
    f = e.func
    npf = np_call(e)
    if npf is not None:
        if npf in ("min", "max"):
            ax = kw(e, "axis")
            if len(e.args) != 1 or len(e.keywords) != 1 or not (isinstance(ax, ast.Constant) and ax.value == 0):
                raise Unsupported(f"{src(e)}: only np.{npf}(A, axis=0)")
            a, t = ex(e.args[0], cx)
            if t != "mat":
                raise Unsupported(f"np.{npf}(axis=0) of {t}")
            return cx.lift(f"Np.reduceAxis0 {npf} {a}"), "vec"
        if npf == "sum":
            if len(e.args) != 1:
                raise Unsupported(src(e))
            a, t = ex(e.args[0], cx)
            ax = kw(e, "axis")
            if t == "mat" and len(e.keywords) == 1 and isinstance(ax, ast.Constant) and ax.value == 1:
                return f"(Np.sumAxis1 {a})", "vec"
            if t == "vec" and not e.keywords:
                return f"(Np.sum1 {a})", "num"
            raise Unsupported(f"{src(e)}: only np.sum(A, axis=1) and np.sum(v)")
        if npf == "asarray" and len(e.args) == 1 and len(e.keywords) == 1 and ast.unparse(e.keywords[0]) == "dtype=float":
            a, t = ex(e.args[0], cx)
            if t not in ("mat", "vec"):
                raise Unsupported(f"np.asarray(…, dtype=float) of {t}")
            return a, t                    # DROPPED: conversion of a numeric array to float64 (identity on exact numbers)
        if e.keywords:
            raise Unsupported(f"keyword arguments in {src(e)}")
        if npf == "all" and len(e.args) == 1:
            a, t = ex(e.args[0], cx)
            if t == "bmat":
                return f"(Np.all2 {a})", "bool"
            if t == "bvec":
                return f"(Np.all1 {a})", "bool"
            raise Unsupported(f"np.all of {t}")
        if npf == "absolute" and len(e.args) == 1:
            return absolute(e.args[0], cx)
        if npf == "hstack" and len(e.args) == 1 and isinstance(e.args[0], ast.List) and e.args[0].elts:
            parts = [ex(x, cx) for x in e.args[0].elts]
            if any(t != "mat" for _, t in parts):
                raise Unsupported("np.hstack of something that is not a list of matrices")
            return cx.lift("Np.hstack [" + ", ".join(p for p, _ in parts) + "]"), "mat"
        if npf == "minimum" and len(e.args) == 2:
            (a, at), (b, bt) = ex(e.args[0], cx), ex(e.args[1], cx)
            if at != "vec" or bt != "vec":
                raise Unsupported(f"np.minimum of {at}, {bt}")
            return cx.lift(f"Np.bcast1 min {a} {b}"), "vec"
        if npf == "matmul" and len(e.args) == 2:
            (a, at), (b, bt) = ex(e.args[0], cx), ex(e.args[1], cx)
            if at != "vec" or bt != "vec":
                raise Unsupported(f"np.matmul of {at}, {bt}")
            return cx.lift(f"Np.matmul1 {a} {b}"), "num"
        if npf == "array_equal" and len(e.args) == 2:
            (a, at), (b, bt) = ex(e.args[0], cx), ex(e.args[1], cx)
            if at != "mat" or bt != "bmat":
                raise Unsupported(f"np.array_equal of {at}, {bt}")
            return f"(Np.arrayEqualNB {a} {b})", "bool"
        if npf == "sqrt" and len(e.args) == 1:
            a, t = ex(e.args[0], cx)
            cx.bind("sqrt")
            return f"(sqrt {as_num(a, t)})", "num"
        raise Unsupported(f"np.{npf}")
    if isinstance(f, ast.Name):
        if f.id == "abs" and len(e.args) == 1 and not e.keywords:
            return absolute(e.args[0], cx)
        if f.id == "float" and len(e.args) == 1 and not e.keywords:
            a, t = ex(e.args[0], cx)
            if t == "num":
                return a, "num"            # DROPPED: float() of a float
            if t == "nat":
                return as_num(a, t), "num"
            raise Unsupported(f"float() of {t}")
        if f.id == "int" and len(e.args) == 1 and not e.keywords:
            a, t = ex(e.args[0], cx)
            if t == "nat":
                return a, "nat"            # DROPPED: int() of an int
            raise Unsupported(f"int() of {t}")
        if f.id == "hasattr" and len(e.args) == 2 and not e.keywords:
            if not (cx.method and isinstance(e.args[0], ast.Name) and e.args[0].id == "self"
                    and isinstance(e.args[1], ast.Constant) and e.args[1].value in ATTRS
                    and ATTRS[e.args[1].value][1] == "absent"):
                raise Unsupported(src(e))
            return f"(← Np.Py.get).{e.args[1].value}.isSome", "bool"
        if f.id in FUNCS:
            params, rty = FUNCS[f.id]
            args = []
            for p, a in zip(params, bind_args(e, params, f.id)):
                if a is None:
                    if p[3] != "None":
                        raise Unsupported(f"{f.id}: argument {p[0]} is missing")
                    args.append("none")
                else:
                    args.append(coerce_arg(*ex(a, cx), p[1], cx))
            return cx.lift(f"{f.id} " + " ".join(args)), rty
        raise Unsupported(f"function {f.id}")
    if isinstance(f, ast.Attribute):
        # X.astype(bool)
        if f.attr == "astype" and len(e.args) == 1 and isinstance(e.args[0], ast.Name) and e.args[0].id == "bool" \
                and not e.keywords:
            a, t = ex(f.value, cx)
            if t != "mat":
                raise Unsupported(f"astype(bool) of {t}")
            return f"(Np.astypeBool {a})", "bmat"
        target = method_target(f, cx)
        if target is not None:
            tcls, m = target
            params, rty = METHODS[m]
            args = [coerce_arg(*ex(a, cx), p[1], cx) for p, a in zip(params, bind_args(e, params, m))]
            return f"(← {tcls}.{m} " + " ".join(cx.call_binders(tcls, m) + args) + ")", rty
    raise Unsupported(f"call {src(e)}")


def absolute(arg, cx):
    a, t = ex(arg, cx)
    if t == "num":
        return f"(Np.abs {a})", "num"
    if t == "vec":
        return f"(Np.ew1 Np.abs {a})", "vec"
    raise Unsupported(f"abs of {t}")


def method_target(f: ast.Attribute, cx: Ctx):
    """`self.m` -> (concrete class, m);  `super(C, self).m` / `super().m` -> (base of the defining class, m)"""
    if not cx.method or f.attr not in METHODS:
        return None
    if isinstance(f.value, ast.Name) and f.value.id == "self":
        return cx.cls, f.attr
    v = f.value
    if isinstance(v, ast.Call) and isinstance(v.func, ast.Name) and v.func.id == "super" and not v.keywords:
        if v.args and not (len(v.args) == 2 and isinstance(v.args[0], ast.Name) and v.args[0].id == cx.defining
                           and isinstance(v.args[1], ast.Name) and v.args[1].id == "self"):
            raise Unsupported(f"{src(v)}")
        i = cx.mro.index(cx.defining)
        for b in cx.mro[i + 1:]:
            fn = cx.classes[b].get(f.attr)
            if fn is not None:
                if any(isinstance(n, ast.Attribute) and isinstance(n.value, ast.Name) and n.value.id == "self"
                       and n.attr in METHODS for n in ast.walk(fn)):
                    raise Unsupported(f"super().{f.attr} calls a method of self: would need re-translation for {cx.cls}")
                return b, f.attr
        raise Unsupported(f"super().{f.attr} not found")
    return None


# ------------------------------------------------------------------------------------------- statements


def is_doc(s):
    return isinstance(s, ast.Expr) and isinstance(s.value, ast.Constant) and isinstance(s.value.value, str)


def block(stmts, cx: Ctx, ret_ty, I: str, top: bool) -> list[str]:
    out = []
    M = "Np.Py" if cx.method else "Np"
    stmts = [s for s in stmts if not is_doc(s)]          # DROPPED: docstrings
    for idx, s in enumerate(stmts):
        if isinstance(s, ast.Return):
            if not top or idx != len(stmts) - 1 or s.value is None:
                raise Unsupported("return that is not the last statement of the function")
            v, vt = ex(s.value, cx)
            if vt != ret_ty:
                raise Unsupported(f"returns {vt}, the signature table says {ret_ty}")
            out.append(I + f"pure {v}")
            return out
        if isinstance(s, ast.Assert):
            c, ct = ex(s.test, cx)
            if ct != "bool":
                raise Unsupported(f"assert of {ct}")
            out.append(I + f"{M}.assert {c}")            # DROPPED: the message
            continue
        if isinstance(s, ast.Assign) and len(s.targets) == 1:
            t = s.targets[0]
            v, vt = ex(s.value, cx)
            if is_lit(vt):
                raise Unsupported("assignment of a bare literal")
            if isinstance(t, ast.Name):
                out.append(I + f"let {t.id} := {v}")
                cx.vars[t.id] = vt
                continue
            if self_attr(t) is not None:
                out += store(self_attr(t), v, vt, cx, I)
                continue
            if isinstance(t, ast.Tuple):
                if not (isinstance(vt, tuple) and vt[0] == "prod" and len(vt[1]) == len(t.elts)):
                    raise Unsupported(f"unpacking of {vt} into {len(t.elts)} targets")
                pats, stores = [], []
                for x, xt in zip(t.elts, vt[1]):
                    if isinstance(x, ast.Name):
                        pats.append(x.id)
                        cx.vars[x.id] = xt
                    elif self_attr(x) is not None:
                        tmp = cx.tmp()
                        pats.append(tmp)
                        stores.append((self_attr(x), tmp, xt))
                    else:
                        raise Unsupported(f"assignment target {src(x)}")
                out.append(I + f"let ({', '.join(pats)}) := {v}")
                for a, tmp, xt in stores:                # stores happen after the right-hand side, left to right
                    out += store(a, tmp, xt, cx, I, named=True)
                continue
            raise Unsupported(f"assignment target {src(t)}")
        if isinstance(s, ast.If):
            # if x is None: x = e
            if (isinstance(s.test, ast.Compare) and len(s.test.ops) == 1 and isinstance(s.test.ops[0], ast.Is)
                    and isinstance(s.test.left, ast.Name) and isinstance(s.test.comparators[0], ast.Constant)
                    and s.test.comparators[0].value is None):
                x = s.test.left.id
                xt = cx.vars.get(x)
                body = [b for b in s.body if not is_doc(b)]
                if not (isinstance(xt, tuple) and xt[0] == "opt") or s.orelse or len(body) != 1 \
                        or not (isinstance(body[0], ast.Assign) and len(body[0].targets) == 1
                                and isinstance(body[0].targets[0], ast.Name) and body[0].targets[0].id == x):
                    raise Unsupported(f"`if {x} is None` that is not `{x} = default` on an Optional")
                v, vt = ex(body[0].value, cx)
                if vt != xt[1]:
                    raise Unsupported(f"default of {x} has type {vt}")
                out.append(I + f"let {x} ← match {x} with")
                out.append(I + f"  | none => (do pure {v})")
                out.append(I + "  | some v__ => pure v__")
                cx.vars[x] = xt[1]
                continue
            if any(isinstance(n, ast.Return) for b in s.body + s.orelse for n in ast.walk(b)):
                raise Unsupported("return inside if")
            if not s.orelse:
                raise Unsupported("if without else")
            c, ct = ex(s.test, cx)
            if ct != "bool":
                raise Unsupported("condition is not Boolean")
            before = dict(cx.vars)
            b1 = block(s.body, cx, None, I + "  ", False)
            v1 = dict(cx.vars)
            cx.vars = dict(before)
            b2 = block(s.orelse, cx, None, I + "  ", False)
            if v1 != before or cx.vars != before:
                raise Unsupported("a local variable is assigned inside an if branch")
            out.append(I + f"if {c} then")
            out += b1
            out.append(I + "else")
            out += b2
            continue
        if isinstance(s, ast.Expr) and isinstance(s.value, ast.Call) and isinstance(s.value.func, ast.Attribute):
            target = method_target(s.value.func, cx)
            if target is None or METHODS[target[1]][1] != "unit":
                raise Unsupported(f"statement {src(s)}")
            v, _ = ex(s.value, cx)
            out.append(I + v[3:-1])                       # strip "(← " … ")": a Unit action is a statement
            continue
        raise Unsupported(f"statement {type(s).__name__}: {src(s)[:80]}")
    if ret_ty not in (None, "unit"):
        raise Unsupported("function falls off its end")
    if not out:
        raise Unsupported("empty block")
    return out


def store(attr: str, v: str, vt, cx: Ctx, I: str, named=False) -> list[str]:
    if not cx.method or attr not in ATTRS:
        raise Unsupported(f"store to self.{attr}")
    if vt != ATTRS[attr][0]:
        raise Unsupported(f"self.{attr} = value of type {vt}")
    out = []
    if not named:
        tmp = cx.tmp()
        out.append(I + f"let {tmp} := {v}")
        v = tmp
    out.append(I + f"Np.Py.modify (fun s__ => {{ s__ with {attr} := some {v} }})")
    return out


# ------------------------------------------------------------------------------------------ definitions


def check_signature(f: ast.FunctionDef, params, what: str, method: bool):
    a = f.args
    if a.vararg or a.kwarg or a.kwonlyargs or a.posonlyargs:
        raise Unsupported(f"{what}: unusual parameters")
    if f.decorator_list:
        raise Unsupported(f"{what}: decorated")
    args = a.args[1:] if method else a.args
    if method and (not a.args or a.args[0].arg != "self"):
        raise Unsupported(f"{what}: no self")
    defaults = [None] * (len(args) - len(a.defaults)) + [src(d) for d in a.defaults]
    got = [(x.arg, src(x.annotation) if x.annotation else None, d) for x, d in zip(args, defaults)]
    want = [(p[0], p[2], p[3]) for p in params]
    if got != want:
        raise Unsupported(f"{what} has parameters {got}, the translator knows {want}")


def translate_function(tree: ast.Module, name: str) -> str:
    fs = [n for n in tree.body if isinstance(n, ast.FunctionDef) and n.name == name]
    if len(fs) != 1:
        raise Unsupported(f"utils.{name} not found")
    params, rty = FUNCS[name]
    check_signature(fs[0], params, f"utils.{name}", False)
    cx = Ctx(False)
    for p in params:
        cx.vars[p[0]] = p[1]
    body = block(fs[0].body, cx, rty, "  ", True)
    if cx.binders:
        raise Unsupported(f"utils.{name} needs {cx.binders}")
    decl = " ".join(f"({p[0]} : {lty(p[1])})" for p in params)
    return (f"/-- `utils.{name}` -/\n"
            f"def {name} {decl} :\n    Except Np.PyErr ({lty(rty)}) := do\n" + "\n".join(body) + "\n")


class MCtx(Ctx):
    """context of one method translated for one concrete class; remembers the binders of already emitted methods"""
    emitted: dict = {}

    def call_binders(self, tcls, m):
        bs = MCtx.emitted.get((tcls, m))
        if bs is None:
            raise Unsupported(f"{tcls}.{m} is called before it is emitted")
        for b in bs:
            self.bind(b)
        return list(bs)


BINDER_TYPES = {"p_alpha": "α", "sqrt": "α → α"}


def translate_method(classes, mros, cls: str, name: str) -> str:
    mro = mros[cls]
    defining = next((c for c in mro if name in classes[c]), None)
    if defining is None:
        raise Unsupported(f"{cls}.{name} not found along {mro}")
    f = classes[defining][name]
    params, rty = METHODS[name]
    check_signature(f, params, f"{defining}.{name}", True)
    cx = MCtx(True, cls, mro, classes)
    cx.defining = defining
    for p in params:
        cx.vars[p[0]] = p[1]
    body = block(f.body, cx, rty, "  ", True)
    MCtx.emitted[(cls, name)] = list(cx.binders)
    bdecl = "".join(f"({b} : {BINDER_TYPES[b]}) " for b in cx.binders)
    decl = " ".join(f"({p[0]} : {lty(p[1])})" for p in params)
    origin = f"`{cls}.{name}`" if defining == cls else f"`{cls}.{name}` (inherited: the body of `{defining}.{name}`, `self` is a {cls})"
    return (f"/-- {origin} -/\n"
            f"def {cls}.{name} {bdecl}{decl} :\n    Np.Py (Self α) ({lty(rty)}) := do\n" + "\n".join(body) + "\n")


PRELUDE = '''/-
GENERATED by harness/artv/ptrans.py from {files} — do not edit.
Regenerated on every run of the checks that name it; ArtGenProofs/PrepSpec.lean proves these definitions equal to the
data-preparation model of ArtModel/Prep.lean (C18).
-/
import ArtModel.ImpPrep

set_option linter.unusedVariables false

namespace Art.Gen.Prep
open Art

/-- the attributes of an estimator that the translated methods read or write.  `d_max_` / `d_min_` always exist
(`BaseART.__init__` sets them to `None`); `dim_` / `dim_original` do not exist until assigned (`none` = absent). -/
structure Self (α : Type) where
  d_max_ : Option (List α) := none
  d_min_ : Option (List α) := none
  dim_ : Option Nat := none
  dim_original : Option Nat := none
  deriving Repr, DecidableEq

section
variable {α : Type} [Add α] [Sub α] [Mul α] [Div α] [Min α] [Max α] [Zero α] [One α] [NatCast α]
  [LE α] [DecidableRel (α := α) (· ≤ ·)] [DecidableEq α]

'''


def class_table(repo: Path):
    """class name -> {method name -> FunctionDef}, and the MRO (single inheritance from BaseART) read from the source"""
    classes, mros = {}, {}
    for cls in ("BaseART", "FuzzyART", "ART1", "ART2A"):
        tree = ast.parse((Path(repo) / FILES[cls]).read_text())
        cd = [n for n in tree.body if isinstance(n, ast.ClassDef) and n.name == cls]
        if len(cd) != 1:
            raise Unsupported(f"class {cls} not found in {FILES[cls]}")
        fns = {}
        for n in cd[0].body:
            if isinstance(n, ast.FunctionDef) and n.name in METHODS:
                if n.name in fns:
                    raise Unsupported(f"{cls}.{n.name} defined twice")
                fns[n.name] = n
        classes[cls] = fns
        bases = [src(b) for b in cd[0].bases]
        if cls == "BaseART":
            if bases != ["BaseEstimator", "ClusterMixin"]:       # sklearn's: they define none of the four methods
                raise Unsupported(f"BaseART bases {bases}")
            mros[cls] = ["BaseART"]
        else:
            if bases != ["BaseART"]:
                raise Unsupported(f"{cls} bases {bases}")
            mros[cls] = [cls, "BaseART"]
    return classes, mros


def generate(repo: Path) -> str:
    repo = Path(repo)
    utils = ast.parse((repo / FILES["utils"]).read_text())
    parts = [PRELUDE.replace("{files}", ", ".join(FILES.values()))]
    for name in FUNC_ORDER:
        parts.append(translate_function(utils, name))
    classes, mros = class_table(repo)
    MCtx.emitted = {}
    for cls, name in EMIT:
        parts.append(translate_method(classes, mros, cls, name))
    parts.append("end\n\nend Art.Gen.Prep\n")
    return "\n".join(parts)


def write(repo: Path = None) -> tuple[bool, str]:
    repo = Path(repo or os.environ.get("VERIF_REPO", "/repo"))
    out = VERIF / "lean" / "ArtGen" / "Prep.lean"
    try:
        text = generate(repo)
    except (Unsupported, SyntaxError, KeyError, AttributeError, TypeError, IndexError, ValueError, OSError) as e:
        return False, f"{type(e).__name__}: {e}"
    if not out.exists() or out.read_text() != text:
        tmp = out.with_suffix(".lean.tmp")
        tmp.write_text(text)
        os.replace(tmp, out)
    return True, "generated"


# proof obligations of lean/ArtGenProofs/PrepSpec.lean, relative to namespace Art.GenSpec
THEOREMS: list[str] = ["Prep." + t for t in [
    # utils.py: generated = model
    "normalize_spec", "normalize_empty_raises", "de_normalize_spec", "compliment_code_spec", "de_compliment_code_spec",
    "l1norm_spec", "l2norm2_spec", "fuzzy_and_spec",
    # prepare_data / restore_data
    "prepare_base_spec", "restore_base_spec", "prepare_fuzzy_spec", "restore_fuzzy_spec", "restore_fuzzy_value",
    # validate_data / check_dimensions
    "check_dimensions_base_spec", "validate_base_spec", "validate_fuzzy_spec", "validate_art1_spec", "validate_art2a_spec",
    # C18 transported to the generated definitions
    "gen_restore_prepare_base", "gen_bounds_reused", "gen_restore_prepare_fuzzy", "gen_prepare_passes_validate_base",
    "gen_validate_base_atomic", "gen_validate_fuzzy_atomic", "gen_validate_art1_atomic", "gen_validate_art2a_atomic",
    "gen_entry_rejects_base", "gen_entry_rejects_fuzzy",
]]
COVERS = ("utils.normalize / de_normalize / compliment_code / de_compliment_code / l1norm / l2norm2 / fuzzy_and and "
          "prepare_data, restore_data, validate_data, check_dimensions of BaseART, FuzzyART, ART1 (validate_data) and ART2A "
          "(check_dimensions under BaseART.validate_data) are translated through generic numpy helpers (ArtModel/ImpPrep.lean) "
          "and proved equal to normalize, deNormalize, complementCode, deComplementCode, vsum∘|·|, l2sq, vmin, prepareBase, "
          "restoreBase, prepareFuzzy, restoreFuzzy, runValidate validBase / validFuzzy / validART1 and runValidateART2A of "
          "ArtModel/Prep.lean on rectangular non-empty matrices with bounds of the data width; numpy's `sqrt` (ART2A) is a "
          "parameter, the numpy primitives themselves (broadcasting, min/max/sum reductions, hstack, slicing) are modelled by "
          "the helpers, not translated.")

if __name__ == "__main__":
    import sys
    ok, msg = write(sys.argv[1] if len(sys.argv) > 1 else None)
    print(msg)
    sys.exit(0 if ok else 1)
