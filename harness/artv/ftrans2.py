"""Second FusionART translator: the Python AST of the *rest* of `artlib/fusion/FusionART.py` (everything that
`ftrans.py` does not cover and that C10 / C11 talk about)  ->  Lean 4 definitions in `lean/ArtGen/FusionPredict.lean`.

Translated methods: the `n_clusters` property, `step_pred`, `predict`, `get_cluster_centers`, `get_channel_centers`,
`predict_regression`, `join_channel_data`, `split_channel_data`, `prepare_data`, `restore_data`.
`self.category_choice(...)` and the `self.W` property are *calls of the definitions ftrans generated*
(`Art.Gen.FusionART.category_choice`, `Art.Gen.FusionART.W_get`): their implicit arguments are read off the signature
ftrans produces for the same source, nothing is re-translated.  The nested estimators stay abstract: `ModOps` (ftrans)
for the kernel methods, `ModOps2` (here) for `get_cluster_centers` / `prepare_data` / `restore_data`.
`lean/ArtGenProofs/FusionPredictSpec.lean` proves each generated definition equal to the definition of
`ArtModel/Fusion.lean` the C10 / C11 theorems are stated about.

Arrays: 1-d = `List α`, 2-d = `List (List α)` (rows), list of 2-d arrays = `List (List (List α))`; a list of channel
numbers given by the caller is a `List Int` (negative = from the end).  Everything runs in the `Option` monad
(`none` = the Python code raises).  H = `Art.ImpFusion2.` (lean/ArtModel/ImpFusion2.lean).

The translation (one fixed rendering per construct; the rendering of an operator is chosen by the operand types):
  x = E  /  a, b = E  (E a pair)      ->  let x := E  /  let (a, b) := E                      (re-binding shadows)
  x += E   (naturals)                 ->  let x := (x + E)
  xs = [] … xs.append(v)              ->  let xs := ([] : List T) … let xs := xs ++ [v]
  y[i] = v                            ->  let y := (← H.pySetItem y i v)                      out of range raises
  a, b = zip(*[E for …])              ->  let zipped__ ← …mapM…; let a := zipped__.map (·.1); … (`_` binds nothing)
  return E                            ->  pure E                   (last statement; or last statement of both branches of a
                                          final if/else: then a `Union[T1, T2]` result is `Sum.inl E` / `Sum.inr E`)
  assert c, "msg"                     ->  H.pyAssert c             (none when c is false)
  for t in it: body   (no return)     ->  let (vars) ← it.foldlM (fun (vars) t => do body; pure (vars)) (vars)
  for i, t in enumerate(it): body     ->  … (it).zipIdx.foldlM (fun (vars) (t, i) => …
  if c: A else: B     (no return)     ->  let (vars) ← if c then (do A; pure (vars)) else (do B; pure (vars))
  [E for t in it] / … in enumerate(it)->  (← (it).mapM (fun t => do pure E))  /  (it).zipIdx … (fun (t, i) => …
  [E for t in it if c]                ->  (← ((it).filter (fun t => c)).mapM (fun t => do pure E))     (c must not raise)
  A if c else B                       ->  (← if c then (do pure A) else (do pure B))               (lazy, like Python)
  xs[i]   (i a natural)               ->  (← xs[i]?)               an index out of range raises
  xs[k]   (k a Python int)            ->  (← H.pyIndex xs k)       negative = from the end
  t[0], t[1]   (t a pair)             ->  t.1, t.2
  A[:, a:b]                           ->  (H.npCols A a b)
  A.shape[0]                          ->  A.length
  len(xs) / range(n)                  ->  xs.length / (List.range n)
  a + b (naturals) / n + k (k an int) ->  (a + b)  /  ((Int.ofNat n) + k)
  a - b (naturals)                    ->  (← H.natSub a b)         a negative width raises (see ImpFusion2.natSub)
  k < 0 (int) / a == b, a >= b (nat)  ->  (decide (k < 0)) / (decide (a = b)), (decide (a ≥ b))
  k not in ks  (k natural, ks ints)   ->  (!(ks.contains (Int.ofNat k)))
  0.5 (a dyadic float p/q)            ->  (p / q) written with (1 : α) and +
  s * A   (scalar, 2-d)               ->  (H.npSMul s A)
  np.ones((r, c))                     ->  (H.npOnes r c)
  np.zeros((r,), dtype=int)           ->  (List.replicate r (0 : Nat))
  np.hstack(xs)                       ->  (← H.npHstack xs)        different row counts / an empty list raise
  np.concatenate(xs)                  ->  xs.flatten
  np.argmax(T)   (T activations)      ->  (← Art.argmaxNp T)       first NaN, else first maximum; empty raises
  int(E) / np.array(E)                ->  E                        (casts, see DROPPED)
  self.n / self.modules / self._channel_indices      ->  parameters n / modules / chIdx
  self.W  /  self.n_clusters          ->  (← Art.Gen.FusionART.W_get ops modules n)  /  (← n_clusters ops modules)
  self.category_choice(x, w, params=…, skip_channels=s)
                                      ->  (← Art.Gen.FusionART.category_choice <ftrans' implicit arguments> x w (H.natsOf s))
  self.m(args, kw=…)  (m translated here) ->  (← m <implicit arguments> args…)   defaults of omitted arguments made explicit
  self.modules[k].m(args) / module.m() ->  (ops2.m (← modules[k]?) args)  m ∈ get_cluster_centers, prepare_data, restore_data
  self.modules[k].n_clusters          ->  (ops.n_clusters (← modules[k]?))
Anything else raises `Unsupported`: the translator fails closed.
"""
from __future__ import annotations

import ast
import os
import re
from fractions import Fraction
from pathlib import Path

from .ktrans import Unsupported
from . import ftrans
from .ftrans import nm, src, self_attr, find_method, FILE

VERIF = Path(__file__).resolve().parents[2]
H = "Art.ImpFusion2."

DROPPED = {
    "docstrings": "string-expression statements have no effect",
    "type annotations": "checked against the table METHODS (a changed annotation fails closed), otherwise no run-time effect",
    "check_is_fitted(self), self.validate_data(X), self.check_dimensions(X)":
        "validation guard calls at the top of predict: they only raise on unfitted estimators / malformed data and "
        "write nothing",
    "int(E) on an index, np.array(E) on a list of rows": "casts: the translation's naturals / lists of rows already are "
        "the values",
    "the message of an assert": "only the condition is kept",
    "params=self.params in the call of category_choice": "FusionART.category_choice never reads its params argument "
        "(ftrans drops the parameter for the same reason)",
    "parameter defaults": "every generated definition takes all its arguments explicitly; a call that omits an argument "
        "passes the default written in the signature",
    "partial_fit, W setter, __init__, get_params, validate_*, _set_params, _deep_copy_params": "not translated by this "
        "module (partial_fit drives BaseART.step_fit — translated by ctrans — through the plumbing ftrans translates, "
        "and writes numpy label arrays and the W setter; the others are constructor / sklearn glue)",
}

COVERS = ("FusionART.step_pred / predict (skip_channels), predict_regression, join_channel_data / split_channel_data, "
          "prepare_data / restore_data, get_cluster_centers / get_channel_centers, n_clusters "
          "(artlib/fusion/FusionART.py) are translated and proved equal to ArtModel/Fusion's stepPredSkip / predictSkip "
          "(skipSet, choiceSkip), predictRegression (channelCentres), joinRow / splitRow, prepareRow / restoreRow row by row "
          "(the model is per row, the code per 2-d array), with C11's skip_independent, skip_is_argmax_of_rest, "
          "skip_index_normalised, split_join, regression_multi_is_target_centres, restore_prepare transported to the "
          "generated definitions; self.category_choice and self.W are calls of the definitions ftrans generates; the nested "
          "estimators (category_choice, W, n_clusters of ModOps; get_cluster_centers, prepare_data, restore_data of ModOps2) "
          "are abstract and tied to the model's channels by hypotheses of each theorem; np.argmax is ArtModel.Basic.argmaxNp; "
          "FusionART.partial_fit is not translated here.")

THEOREMS = [
    "FusionPredict.step_pred_spec", "FusionPredict.predict_spec",
    "FusionPredict.gen_skip_independent", "FusionPredict.gen_skip_is_argmax_of_rest",
    "FusionPredict.gen_skip_index_normalised",
    "FusionPredict.join_channel_data_spec", "FusionPredict.join_channel_data_rows",
    "FusionPredict.split_channel_data_spec", "FusionPredict.split_channel_data_rows",
    "FusionPredict.gen_split_join",
    "FusionPredict.get_channel_centers_spec", "FusionPredict.predict_regression_spec",
    "FusionPredict.gen_regression_target_centres",
    "FusionPredict.prepare_data_spec", "FusionPredict.restore_data_spec", "FusionPredict.gen_restore_prepare",
    "FusionPredict.n_clusters_spec", "FusionPredict.get_cluster_centers_spec",
]

# --- types: "nat" "int" "num" "onum" "bool" "M" "C" ("list", t) ("prod", [t…]) ("sum", [t1, t2])
VEC = ("list", "num")
MAT = ("list", VEC)
CUBE = ("list", MAT)
LINT = ("list", "int")
LNAT = ("list", "nat")
PAIR = ("prod", ["nat", "nat"])

LI, ND = "List[int]", "np.ndarray"
# what is translated: name -> ([(parameter, type, annotation)], return type, return annotation, is a property)
METHODS = {
    "n_clusters": ([], "nat", "int", True),
    "step_pred": ([("x", VEC, None), ("skip_channels", LINT, LI)], "nat", "int", False),
    "predict": ([("X", MAT, ND), ("skip_channels", LINT, LI)], LNAT, ND, False),
    "get_cluster_centers": ([], MAT, "List[np.ndarray]", False),
    "get_channel_centers": ([("channel", "int", "int")], MAT, "List[np.ndarray]", False),
    "predict_regression": ([("X", MAT, ND), ("target_channels", LINT, LI)], ("sum", [MAT, CUBE]),
                           "Union[np.ndarray, List[np.ndarray]]", False),
    "join_channel_data": ([("channel_data", CUBE, "List[np.ndarray]"), ("skip_channels", LINT, LI)], MAT, ND, False),
    "split_channel_data": ([("joined_data", MAT, ND), ("skip_channels", LINT, LI)], CUBE, "List[np.ndarray]", False),
    "prepare_data": ([("channel_data", CUBE, "List[np.ndarray]"), ("skip_channels", LINT, LI)], MAT, ND, False),
    "restore_data": ([("X", MAT, ND), ("skip_channels", LINT, LI)], CUBE, "List[np.ndarray]", False),
}
ORDER = ["n_clusters", "step_pred", "predict", "get_cluster_centers", "get_channel_centers", "predict_regression",
         "join_channel_data", "split_channel_data", "prepare_data", "restore_data"]

# methods of a nested module that are fields of ModOps2: name -> (argument types, return type)
MOD2_METHODS = {"get_cluster_centers": ([], MAT), "prepare_data": ([MAT], MAT), "restore_data": ([MAT], MAT)}
# attributes of a nested module that are fields of ftrans' ModOps
MOD_ATTRS = {"n_clusters": ("n_clusters", "nat")}
SELF_ATTRS = {"modules": ("modules", ("list", "M")), "n": ("n", "nat"), "_channel_indices": ("chIdx", ("list", PAIR))}
GUARDS = {"check_is_fitted(self)", "self.validate_data(X)", "self.check_dimensions(X)"}

PARAM_TYPES = {"ops": "ModOps M α P C Op", "ops2": "ModOps2 M α", "modules": "List M", "n": "Nat",
               "chIdx": "List (Nat × Nat)", "wIdx": "List (Nat × Nat)", "gamma_values": "List α", "dictEmpty": "C",
               "dictSkip": "C"}
PARAM_ORDER = ["ops", "ops2", "modules", "n", "chIdx", "wIdx", "gamma_values", "dictEmpty", "dictSkip"]


def atom(s: str) -> str:
    return f"({s})" if " " in s else s


def lty(t) -> str:
    if isinstance(t, str):
        return {"nat": "Nat", "int": "Int", "num": "α", "onum": "Option α", "bool": "Bool", "M": "M", "C": "C"}[t]
    if t[0] == "list":
        return f"List {atom(lty(t[1]))}"
    if t[0] == "prod":
        return " × ".join(atom(lty(x)) for x in t[1])
    if t[0] == "sum":
        return " ⊕ ".join(atom(lty(x)) for x in t[1])
    raise Unsupported(f"type {t}")


def islist(t):
    return isinstance(t, tuple) and t[0] == "list" and t[1] is not None


class Ctx:
    def __init__(self, env):
        self.vars: dict[str, object] = {}
        self.used: set[str] = set()        # implicit parameters of the generated definition
        self.env = env                     # name -> implicit parameter list of the definitions generated so far

    def copy(self):
        c = Ctx(self.env)
        c.vars, c.used = dict(self.vars), self.used
        return c


def natlit(n: int) -> str:
    if n == 0:
        return "(0 : α)"
    if n == 1:
        return "(1 : α)"
    if 2 <= n <= 16:
        return "(" + " + ".join(["(1 : α)"] * n) + ")"
    raise Unsupported(f"numeric constant {n} (only 0 … 16 have a rendering over the abstract number type)")


def coerce(text, t, want):
    if t == want:
        return text
    if t == "nat" and want == "int":
        return f"(Int.ofNat {text})"
    if isinstance(t, tuple) and t == ("list", None) and islist(want):
        return f"([] : {lty(want)})"
    if t == LNAT and want == LINT and re.fullmatch(r"\[[0-9, ]*\]", text):
        return f"({text} : List Int)"
    raise Unsupported(f"type mismatch: {t} where {want} is needed ({text})")


def is_np(f, name):
    return isinstance(f, ast.Attribute) and isinstance(f.value, ast.Name) and f.value.id == "np" and f.attr == name


def ex(e: ast.AST, cx: Ctx):
    """expression -> (Lean text, type); the text is atomic and may contain nested actions `(← …)`"""
    if isinstance(e, ast.Name):
        if e.id not in cx.vars:
            raise Unsupported(f"unknown name {e.id}")
        return nm(e.id), cx.vars[e.id]
    if isinstance(e, ast.Constant):
        v = e.value
        if isinstance(v, bool):
            return ("true" if v else "false"), "bool"
        if isinstance(v, int) and v >= 0:
            return str(v), "nat"
        if isinstance(v, float) and v >= 0:
            fr = Fraction(v)
            if fr.denominator == 1:
                return natlit(fr.numerator), "num"
            if fr.denominator & (fr.denominator - 1) == 0 and fr.denominator <= 16:
                return f"({natlit(fr.numerator)} / {natlit(fr.denominator)})", "num"
        raise Unsupported(f"constant {v!r}")
    if isinstance(e, ast.UnaryOp) and isinstance(e.op, ast.USub) and isinstance(e.operand, ast.Constant) \
            and isinstance(e.operand.value, int) and not isinstance(e.operand.value, bool):
        return f"(-{e.operand.value} : Int)", "int"
    a = self_attr(e)
    if a is not None:
        if a in SELF_ATTRS:
            v, t = SELF_ATTRS[a]
            cx.used.add(v)
            return v, t
        if a == "W":
            return call_generated("W_get", [], cx), ("list", VEC)
        if a in METHODS and METHODS[a][3]:
            return call_generated(a, [], cx), METHODS[a][1]
        raise Unsupported(f"self.{a}")
    if isinstance(e, ast.Attribute):
        bt, bty = ex(e.value, cx)
        if bty == "M" and e.attr in MOD_ATTRS:
            f, t = MOD_ATTRS[e.attr]
            cx.used.add("ops")
            return f"(ops.{f} {bt})", t
        raise Unsupported(f"attribute .{e.attr} of {bty}")
    if isinstance(e, ast.List):
        parts = [ex(x, cx) for x in e.elts]
        if not parts:
            return "[]", ("list", None)
        if len({repr(p[1]) for p in parts}) != 1:
            raise Unsupported(f"list display of mixed types {src(e)}")
        return "[" + ", ".join(p[0] for p in parts) + "]", ("list", parts[0][1])
    if isinstance(e, ast.Tuple):
        parts = [ex(x, cx) for x in e.elts]
        return "(" + ", ".join(p[0] for p in parts) + ")", ("prod", [p[1] for p in parts])
    if isinstance(e, ast.Subscript):
        return subscript(e, cx)
    if isinstance(e, ast.IfExp):
        c, ct = ex(e.test, cx)
        if ct != "bool":
            raise Unsupported("condition is not boolean")
        a_, at = ex(e.body, cx)
        b_, bt = ex(e.orelse, cx)
        if at != bt:
            raise Unsupported(f"conditional expression of types {at} / {bt}")
        return f"(← if {c} then (do pure {a_}) else (do pure {b_}))", at
    if isinstance(e, ast.Compare) and len(e.ops) == 1:
        l, lt = ex(e.left, cx)
        r, rt = ex(e.comparators[0], cx)
        op = type(e.ops[0])
        if op in (ast.NotIn, ast.In) and islist(rt):
            lc = coerce(l, lt, rt[1])
            t = f"({r}.contains {lc})"
            return (f"(!{t})" if op is ast.NotIn else t), "bool"
        cmp = {ast.Lt: "<", ast.Gt: ">", ast.LtE: "≤", ast.GtE: "≥", ast.Eq: "=", ast.NotEq: "≠"}.get(op)
        if cmp and lt in ("nat", "int") and rt in ("nat", "int"):
            if lt != rt:
                l, r = coerce(l, lt, "int"), coerce(r, rt, "int")
            return f"(decide ({l} {cmp} {r}))", "bool"
        raise Unsupported(f"comparison {src(e)} on {lt}, {rt}")
    if isinstance(e, ast.BinOp):
        l, lt = ex(e.left, cx)
        r, rt = ex(e.right, cx)
        if isinstance(e.op, ast.Add) and lt == rt == "nat":
            return f"({l} + {r})", "nat"
        if isinstance(e.op, ast.Add) and {lt, rt} == {"nat", "int"} or (isinstance(e.op, ast.Add) and lt == rt == "int"):
            return f"({coerce(l, lt, 'int')} + {coerce(r, rt, 'int')})", "int"
        if isinstance(e.op, ast.Sub) and lt == rt == "nat":
            return f"(← {H}natSub {l} {r})", "nat"
        if isinstance(e.op, ast.Mult) and lt == "num" and rt == MAT:
            return f"({H}npSMul {l} {r})", MAT
        raise Unsupported(f"operator in {src(e)} on {lt}, {rt}")
    if isinstance(e, ast.ListComp):
        return listcomp(e, cx)
    if isinstance(e, ast.Call):
        return call(e, cx)
    raise Unsupported(f"expression {type(e).__name__}: {src(e)}")


def subscript(e: ast.Subscript, cx: Ctx):
    # A.shape[0]
    if isinstance(e.value, ast.Attribute) and e.value.attr == "shape" and self_attr(e.value) is None:
        b, bt = ex(e.value.value, cx)
        if bt == MAT and isinstance(e.slice, ast.Constant) and e.slice.value == 0:
            return f"{b}.length", "nat"
        raise Unsupported(f"{src(e)} (only .shape[0] of a 2-d array)")
    bt, bty = ex(e.value, cx)
    # A[:, a:b]
    if isinstance(e.slice, ast.Tuple):
        s = e.slice.elts
        if (bty == MAT and len(s) == 2 and isinstance(s[0], ast.Slice) and s[0].lower is None and s[0].upper is None
                and s[0].step is None and isinstance(s[1], ast.Slice) and s[1].step is None
                and s[1].lower is not None and s[1].upper is not None):
            lo, lot = ex(s[1].lower, cx)
            hi, hit = ex(s[1].upper, cx)
            if lot == hit == "nat":
                return f"({H}npCols {bt} {lo} {hi})", MAT
        raise Unsupported(f"subscript {src(e)}")
    if isinstance(e.slice, ast.Slice):
        raise Unsupported(f"slice {src(e)}")
    if isinstance(bty, tuple) and bty[0] == "prod":
        if isinstance(e.slice, ast.Constant) and e.slice.value in (0, 1) and len(bty[1]) == 2:
            return f"{bt}.{e.slice.value + 1}", bty[1][e.slice.value]
        raise Unsupported("tuple index")
    if islist(bty):
        it, ity = ex(e.slice, cx)
        if ity == "nat":
            return f"(← {bt}[{it}]?)", bty[1]
        if ity == "int":
            return f"(← {H}pyIndex {bt} {it})", bty[1]
        raise Unsupported(f"list index of type {ity}")
    raise Unsupported(f"subscript of {bty}: {src(e)}")


def comp_binder(g: ast.comprehension, cx: Ctx):
    """the iterable and the binder of a comprehension / for loop: -> (iterable text, pattern, inner context)"""
    inner = cx.copy()
    it_node = g.iter if isinstance(g, ast.comprehension) else g.iter
    if isinstance(it_node, ast.Call) and isinstance(it_node.func, ast.Name) and it_node.func.id == "enumerate":
        if len(it_node.args) != 1 or it_node.keywords:
            raise Unsupported("enumerate with a start")
        it, ity = ex(it_node.args[0], cx)
        if not islist(ity) or not (isinstance(g.target, ast.Tuple) and len(g.target.elts) == 2
                                   and all(isinstance(x, ast.Name) for x in g.target.elts)):
            raise Unsupported("enumerate target")
        k, a = g.target.elts
        inner.vars[k.id], inner.vars[a.id] = "nat", ity[1]
        return f"({it}).zipIdx", f"({nm(a.id)}, {nm(k.id)})", inner
    it, ity = ex(it_node, cx)
    if not islist(ity) or not isinstance(g.target, ast.Name):
        raise Unsupported("iteration over a non-list / with a pattern target")
    inner.vars[g.target.id] = ity[1]
    return f"({it})", nm(g.target.id), inner


def listcomp(e: ast.ListComp, cx: Ctx):
    if len(e.generators) != 1 or e.generators[0].is_async or len(e.generators[0].ifs) > 1:
        raise Unsupported("comprehension with several generators or filters")
    g = e.generators[0]
    it, pat, inner = comp_binder(g, cx)
    if g.ifs:
        c, ct = ex(g.ifs[0], inner)
        if ct != "bool" or "←" in c:
            raise Unsupported("comprehension filter that is not a pure boolean")
        it = f"({it}.filter (fun {pat} => {c}))"
    b, bt = ex(e.elt, inner)
    return f"(← {it}.mapM (fun {pat} => do pure {b}))", ("list", bt)


def call_generated(name: str, args: list[str], cx: Ctx) -> str:
    if name not in cx.env:
        raise Unsupported(f"{name} is used before it is translated")
    prefix, implicit = cx.env[name]
    cx.used.update(implicit)
    return "(← " + " ".join([prefix + name] + implicit + args) + ")"


def bind_args(e: ast.Call, params, defaults, cx: Ctx, what: str):
    """positional / keyword arguments of a call -> Lean texts in parameter order (None-typed parameters are dropped)"""
    given = {}
    if len(e.args) > len(params):
        raise Unsupported(f"too many arguments for {what}")
    for (p, _t), a in zip(params, e.args):
        given[p] = a
    for kw in e.keywords:
        if kw.arg is None or kw.arg in given or kw.arg not in [p for p, _ in params]:
            raise Unsupported(f"keyword argument {kw.arg} of {what}")
        given[kw.arg] = kw.value
    out = []
    for p, t in params:
        if t is None:          # a parameter the generated definition does not take (see DROPPED)
            if p in given and src(given[p]) != "self.params":
                raise Unsupported(f"argument {p}={src(given[p])} of {what}")
            continue
        if p in given:
            out.append((p, t, coerce(*ex(given[p], cx), t)))
        elif p in defaults:
            out.append((p, t, coerce(*ex(defaults[p], cx.copy()), t)))
        else:
            raise Unsupported(f"argument {p} of {what} is missing")
    return out


def call(e: ast.Call, cx: Ctx):
    f = e.func
    if isinstance(f, ast.Name):
        if e.keywords:
            raise Unsupported(f"keyword arguments in {src(e)}")
        if f.id == "range" and len(e.args) == 1:
            a, t = ex(e.args[0], cx)
            if t != "nat":
                raise Unsupported("range of a non-natural")
            return f"(List.range {a})", LNAT
        if f.id == "len" and len(e.args) == 1:
            a, t = ex(e.args[0], cx)
            if not islist(t):
                raise Unsupported("len of a non-list")
            return f"{a}.length", "nat"
        if f.id == "int" and len(e.args) == 1:
            a, t = ex(e.args[0], cx)
            if t != "nat":
                raise Unsupported(f"int() of {t}")
            return a, "nat"
        raise Unsupported(f"function {f.id}")
    if isinstance(f, ast.Attribute):
        if is_np(f, "argmax") and len(e.args) == 1 and not e.keywords:
            a, t = ex(e.args[0], cx)
            if t != ("list", "onum"):
                raise Unsupported(f"np.argmax of {t}")
            return f"(← Art.argmaxNp {a})", "nat"
        if is_np(f, "concatenate") and len(e.args) == 1 and not e.keywords:
            a, t = ex(e.args[0], cx)
            if t != ("list", VEC):
                raise Unsupported(f"np.concatenate of {t}")
            return f"{a}.flatten", VEC
        if is_np(f, "hstack") and len(e.args) == 1 and not e.keywords:
            a, t = ex(e.args[0], cx)
            if t != CUBE:
                raise Unsupported(f"np.hstack of {t}")
            return f"(← {H}npHstack {a})", MAT
        if is_np(f, "array") and len(e.args) == 1 and not e.keywords:
            a, t = ex(e.args[0], cx)
            if t not in (MAT, VEC):
                raise Unsupported(f"np.array of {t}")
            return a, t
        if is_np(f, "ones") and len(e.args) == 1 and not e.keywords and isinstance(e.args[0], ast.Tuple) \
                and len(e.args[0].elts) == 2:
            (r, rt), (c, ct) = ex(e.args[0].elts[0], cx), ex(e.args[0].elts[1], cx)
            if rt != "nat" or ct != "nat":
                raise Unsupported("np.ones shape")
            return f"({H}npOnes {r} {c})", MAT
        if is_np(f, "zeros") and len(e.args) == 1 and isinstance(e.args[0], ast.Tuple) and len(e.args[0].elts) == 1 \
                and [(k.arg, src(k.value)) for k in e.keywords] == [("dtype", "int")]:
            r, rt = ex(e.args[0].elts[0], cx)
            if rt != "nat":
                raise Unsupported("np.zeros shape")
            return f"(List.replicate {r} (0 : Nat))", LNAT
        if isinstance(f.value, ast.Name) and f.value.id == "self":
            if f.attr == "category_choice":
                params = [(p, t) for p, t in ftrans.METHODS["category_choice"][0]]
                # ftrans' types: skip_channels is a list of naturals there
                args = bind_args(e, [(p, (LINT if p == "skip_channels" else t)) for p, t in params], {}, cx, "category_choice")
                texts = [f"({H}natsOf {a})" if p == "skip_channels" else a for p, _t, a in args]
                return call_generated("category_choice", texts, cx), ("prod", ["onum", ("list", "C")])
            if f.attr in METHODS and not METHODS[f.attr][3]:
                params, rty = METHODS[f.attr][0], METHODS[f.attr][1]
                args = bind_args(e, [(p, t) for p, t, _a in params], cx.env["__defaults__"].get(f.attr, {}), cx, f.attr)
                return call_generated(f.attr, [a for _p, _t, a in args], cx), rty
            raise Unsupported(f"method call {src(e)}")
        bt, bty = ex(f.value, cx)
        if bty == "M" and f.attr in MOD2_METHODS and not e.keywords:
            atys, rty = MOD2_METHODS[f.attr]
            if len(e.args) != len(atys):
                raise Unsupported(f"{f.attr} called with {len(e.args)} arguments")
            args = [coerce(*ex(a, cx), t) for a, t in zip(e.args, atys)]
            cx.used.add("ops2")
            return "(" + " ".join([f"ops2.{f.attr}", bt] + args) + ")", rty
        raise Unsupported(f"method call {src(e)}")
    raise Unsupported(f"call {src(e)}")


# ---------------------------------------------------------------- statements


def assigned(stmts) -> list[str]:
    out = []

    def add(x):
        if x not in out:
            out.append(x)
    for s in stmts:
        for n in ast.walk(s):
            if isinstance(n, ast.Assign):
                for t in n.targets:
                    if isinstance(t, ast.Name):
                        add(t.id)
                    elif isinstance(t, ast.Tuple):
                        for x in t.elts:
                            if isinstance(x, ast.Name):
                                add(x.id)
                    elif isinstance(t, ast.Subscript) and isinstance(t.value, ast.Name):
                        add(t.value.id)
            if isinstance(n, ast.AugAssign) and isinstance(n.target, ast.Name):
                add(n.target.id)
            if isinstance(n, ast.Expr) and isinstance(n.value, ast.Call) and isinstance(n.value.func, ast.Attribute):
                f = n.value.func
                if f.attr == "append" and isinstance(f.value, ast.Name):
                    add(f.value.id)
    return out


def carried(body, cx: Ctx) -> list[str]:
    return [v for v in assigned(body) if v in cx.vars]


def pack(vs):
    return "()" if not vs else nm(vs[0]) if len(vs) == 1 else "(" + ", ".join(nm(v) for v in vs) + ")"


def has_return(stmts):
    return any(isinstance(n, ast.Return) for s in stmts for n in ast.walk(s))


def ret_text(e, cx: Ctx, ret_ty):
    v, vt = ex(e, cx)
    if isinstance(ret_ty, tuple) and ret_ty[0] == "sum":
        if vt == ret_ty[1][0]:
            return f"(Sum.inl {v})"
        if vt == ret_ty[1][1]:
            return f"(Sum.inr {v})"
        raise Unsupported(f"return of {vt} where {ret_ty} is declared")
    return coerce(v, vt, ret_ty)


def block(stmts, cx: Ctx, ret_ty, I="  ") -> list:
    out = []
    for idx, s in enumerate(stmts):
        last = idx == len(stmts) - 1
        if isinstance(s, ast.Expr) and isinstance(s.value, ast.Constant) and isinstance(s.value.value, str):
            continue
        if isinstance(s, ast.Expr) and src(s.value) in GUARDS:
            continue
        if isinstance(s, ast.Return):
            if not last or ret_ty is None or s.value is None:
                raise Unsupported("code after return / return in a loop body")
            out.append(I + "pure " + ret_text(s.value, cx, ret_ty))
            return out
        if isinstance(s, ast.Assert):
            c, ct = ex(s.test, cx)
            if ct != "bool":
                raise Unsupported("assert of a non-boolean")
            out.append(I + f"{H}pyAssert {c}")
            continue
        if isinstance(s, ast.AugAssign):
            if not (isinstance(s.target, ast.Name) and isinstance(s.op, ast.Add) and cx.vars.get(s.target.id) == "nat"):
                raise Unsupported(f"augmented assignment {src(s)}")
            v, vt = ex(s.value, cx)
            if vt != "nat":
                raise Unsupported(f"augmented assignment {src(s)}")
            out.append(I + f"let {nm(s.target.id)} := ({nm(s.target.id)} + {v})")
            continue
        if isinstance(s, ast.Assign) and len(s.targets) == 1:
            t = s.targets[0]
            # a, b = zip(*[ ... ])
            if (isinstance(t, ast.Tuple) and isinstance(s.value, ast.Call) and isinstance(s.value.func, ast.Name)
                    and s.value.func.id == "zip" and len(s.value.args) == 1 and isinstance(s.value.args[0], ast.Starred)
                    and not s.value.keywords and all(isinstance(x, ast.Name) for x in t.elts)):
                r, rt = ex(s.value.args[0].value, cx)
                if not (islist(rt) and isinstance(rt[1], tuple) and rt[1][0] == "prod" and len(rt[1][1]) == len(t.elts)):
                    raise Unsupported("zip(*…) of a list that does not hold tuples of the unpacked arity")
                if not (r.startswith("(← ") and r.endswith(")")) or not isinstance(s.value.args[0].value, ast.ListComp):
                    raise Unsupported("zip(*…) of something that is not a comprehension")
                out.append(I + f"let zipped__ ← {r[3:-1]}")
                for j, x in enumerate(t.elts):
                    if x.id == "_":
                        continue
                    out.append(I + f"let {nm(x.id)} := zipped__.map (·.{j + 1})")
                    cx.vars[x.id] = ("list", rt[1][1][j])
                continue
            if isinstance(t, ast.Tuple) and all(isinstance(x, ast.Name) for x in t.elts):
                v, vt = ex(s.value, cx)
                if not (isinstance(vt, tuple) and vt[0] == "prod" and len(vt[1]) == len(t.elts)):
                    raise Unsupported(f"unpacking of {vt}")
                out.append(I + f"let ({', '.join(nm(x.id) for x in t.elts)}) := {v}")
                for x, xt in zip(t.elts, vt[1]):
                    cx.vars[x.id] = xt
                continue
            if isinstance(t, ast.Name):
                if isinstance(s.value, ast.List) and not s.value.elts:
                    cx.vars[t.id] = ("list", None)
                    out.append((I + f"let {nm(t.id)} := []", t.id))
                    continue
                v, vt = ex(s.value, cx)
                out.append(I + f"let {nm(t.id)} := {v}")
                cx.vars[t.id] = vt
                continue
            if isinstance(t, ast.Subscript) and isinstance(t.value, ast.Name):
                y = t.value.id
                yt = cx.vars.get(y)
                i, it = ex(t.slice, cx)
                v, vt = ex(s.value, cx)
                if not islist(yt) or it != "nat" or vt != yt[1]:
                    raise Unsupported(f"item assignment {src(s)}")
                out.append(I + f"let {nm(y)} := (← {H}pySetItem {nm(y)} {i} {v})")
                continue
            raise Unsupported(f"assignment target {src(t)}")
        if isinstance(s, ast.Expr) and isinstance(s.value, ast.Call) and isinstance(s.value.func, ast.Attribute):
            f = s.value.func
            if f.attr == "append" and isinstance(f.value, ast.Name) and len(s.value.args) == 1 and not s.value.keywords:
                x = f.value.id
                lt = cx.vars.get(x)
                if not (isinstance(lt, tuple) and lt[0] == "list"):
                    raise Unsupported(f"append to {x}")
                v, vt = ex(s.value.args[0], cx)
                if lt[1] is None:
                    cx.vars[x] = ("list", vt)
                elif vt != lt[1]:
                    raise Unsupported(f"append of {vt} to a list of {lt[1]}")
                out.append(I + f"let {nm(x)} := {nm(x)} ++ [{v}]")
                continue
            raise Unsupported(f"statement {src(s)}")
        if isinstance(s, ast.For) and not s.orelse:
            if any(isinstance(n, (ast.Return, ast.Break, ast.Continue)) for b in s.body for n in ast.walk(b)):
                raise Unsupported("return / break / continue inside a for loop")
            it, pat, inner = comp_binder(s, cx)
            vs = carried(s.body, cx)
            body = block(s.body, inner, None, I + "    ")
            for v in vs:                      # element types discovered inside the loop (first append)
                cx.vars[v] = inner.vars[v]
            out.append(I + f"let {pack(vs)} ← {it}.foldlM (fun {pack(vs)} {pat} => do")
            out += body
            out.append(I + f"    pure {pack(vs)}) {pack(vs)}")
            continue
        if isinstance(s, ast.If):
            c, ct = ex(s.test, cx)
            if ct != "bool":
                raise Unsupported("condition is not boolean")
            if has_return(s.body) or has_return(s.orelse):
                if not last or not s.orelse or ret_ty is None:
                    raise Unsupported("return inside an if that is not the last statement")
                b1 = block(s.body, cx.copy(), ret_ty, I + "    ")
                b2 = block(s.orelse, cx.copy(), ret_ty, I + "    ")
                out.append(I + f"if {c} then (do")
                out += b1
                out[-1] += ")"
                out.append(I + "  else (do")
                out += b2
                out[-1] += ")"
                return out
            vs = list(dict.fromkeys(carried(s.body, cx) + carried(s.orelse, cx)))
            c1, c2 = cx.copy(), cx.copy()
            b1 = block(s.body, c1, None, I + "    ")
            b2 = block(s.orelse, c2, None, I + "    ")
            for v in vs:
                t1, t2 = c1.vars.get(v), c2.vars.get(v)
                if t1 == ("list", None) and islist(t2):      # an empty list that only the other branch appends to
                    t1 = t2
                if t2 == ("list", None) and islist(t1):
                    t2 = t1
                if t1 != t2:
                    raise Unsupported(f"{v} has type {t1} in one branch and {t2} in the other")
                cx.vars[v] = t1
            out.append(I + f"let {pack(vs)} ← if {c} then (do")
            out += b1
            out.append(I + f"    pure {pack(vs)})")
            out.append(I + "  else (do")
            out += b2
            out.append(I + f"    pure {pack(vs)})")
            continue
        raise Unsupported(f"statement {type(s).__name__}: {src(s)[:80]}")
    if ret_ty is None:
        return out
    raise Unsupported("method falls off its end")


def finish_empty_lists(lines, cx: Ctx):
    """`xs = []` was emitted before the element type was known: add the ascription"""
    out = []
    for ln in lines:
        if isinstance(ln, tuple):
            text, x = ln
            t = cx.vars.get(x)
            if not islist(t):
                raise Unsupported(f"element type of the empty list {x} is never determined")
            out.append(text.replace(":= []", f":= ([] : {lty(t)})"))
        else:
            out.append(ln)
    return out


def check_signature(f: ast.FunctionDef, name: str):
    params, _rty, rann, _prop = METHODS[name]
    got = [a.arg for a in f.args.args[1:]]
    if got != [p for p, _t, _a in params] or f.args.vararg or f.args.kwarg or f.args.kwonlyargs:
        raise Unsupported(f"FusionART.{name} has parameters {got}, the translator knows {[p for p, _t, _a in params]}")
    for a, (p, _t, ann) in zip(f.args.args[1:], params):
        have = src(a.annotation) if a.annotation is not None else None
        if have != ann:
            raise Unsupported(f"FusionART.{name}: parameter {p} is annotated {have}, the translator knows {ann}")
    have = src(f.returns) if f.returns is not None else None
    if have != rann:
        raise Unsupported(f"FusionART.{name} returns {have}, the translator knows {rann}")
    # defaults (of the trailing parameters)
    ds = f.args.defaults
    return {a.arg: d for a, d in zip(f.args.args[len(f.args.args) - len(ds):], ds)}


def translate_method(tree, name: str, env) -> str:
    params, rty, _rann, prop = METHODS[name]
    f = find_method(tree, "FusionART", name, prop_getter=prop)
    env["__defaults__"][name] = check_signature(f, name)
    cx = Ctx(env)
    for p, t, _a in params:
        cx.vars[p] = t
    body = finish_empty_lists(block(list(f.body), cx, rty, "  "), cx)
    used = [p for p in PARAM_ORDER if p in cx.used]
    env[name] = ("", used)
    decl = " ".join(f"({p} : {PARAM_TYPES[p]})" for p in used)
    pdecl = " ".join(f"({nm(p)} : {lty(t)})" for p, t, _a in params)
    return (f"/-- `FusionART.{name}`" + (" (property)" if prop else "") + " -/\n"
            f"def {name} " + " ".join(x for x in [decl, pdecl] if x) +
            f" :\n    Option {atom(lty(rty))} := do\n" + "\n".join(body) + "\n")


def ftrans_signature(tree, name: str):
    """the implicit parameters ftrans gives the definition it generates for `name` (read off the generated text)"""
    text = ftrans.translate_method(tree, name)
    m = re.search(r"^def (\w+) (.*?) :\n", text, re.M | re.S)
    if not m:
        raise Unsupported(f"ftrans' rendering of {name} has no recognisable signature")
    names = re.findall(r"\((\w+) : ", m.group(2))
    explicit = [nm(p) for p, t in ftrans.METHODS[name][0] if t is not None]
    implicit = names[:len(names) - len(explicit)] if explicit else names
    if names[len(implicit):] != explicit or any(p not in PARAM_TYPES for p in implicit):
        raise Unsupported(f"ftrans' signature of {name} is {names}, expected … {explicit}")
    return m.group(1), implicit


PRELUDE = '''/-
GENERATED by harness/artv/ftrans2.py from {file} — do not edit.
Regenerated on every run of the checks that name it; ArtGenProofs/FusionPredictSpec.lean proves these definitions equal
to the FusionART model of ArtModel/Fusion.lean (prediction with skipped channels, regression, join / split,
prepare / restore).  `self.category_choice` and `self.W` are the definitions of ArtGen/Fusion.lean.
-/
import ArtGen.Fusion
import ArtModel.ImpFusion2

set_option linter.unusedVariables false

namespace Art.Gen.FusionARTPredict
open Art Art.Gen.FusionART

/-- the methods of a nested estimator `self.modules[k]` that only this part of FusionART uses (the others are the
fields of `Art.Gen.FusionART.ModOps`) -/
structure ModOps2 (M α : Type) where
  get_cluster_centers : M → List (List α)
  prepare_data : M → List (List α) → List (List α)
  restore_data : M → List (List α) → List (List α)

section
variable {M P C Op α : Type} [Add α] [Mul α] [Div α] [Zero α] [One α] [LT α] [DecidableRel (α := α) (· < ·)]

'''


def generate(repo: Path) -> str:
    tree = ast.parse((Path(repo) / FILE).read_text())
    env = {"__defaults__": {}}
    for m, lname in [("category_choice", "category_choice"), ("W", "W_get")]:
        got, implicit = ftrans_signature(tree, m)
        if got != lname:
            raise Unsupported(f"ftrans names {m} {got}")
        env[lname] = ("Art.Gen.FusionART.", implicit)
    parts = [PRELUDE.replace("{file}", FILE)]
    for m in ORDER:
        parts.append(translate_method(tree, m, env))
    parts.append("end\n\nend Art.Gen.FusionARTPredict\n")
    return "\n".join(parts)


def write(repo: Path = None) -> tuple[bool, str]:
    repo = Path(repo or os.environ.get("VERIF_REPO", "/repo"))
    out = VERIF / "lean" / "ArtGen" / "FusionPredict.lean"
    try:
        text = generate(repo)
    except (Unsupported, SyntaxError, KeyError, AttributeError, TypeError, IndexError) as e:
        return False, f"{type(e).__name__}: {e}"
    if not out.exists() or out.read_text() != text:
        tmp = out.with_suffix(".lean.tmp%d" % os.getpid())
        tmp.write_text(text)
        os.replace(tmp, out)
    return True, "generated"


if __name__ == "__main__":
    import sys
    ok, msg = write(sys.argv[1] if len(sys.argv) > 1 else None)
    print(msg)
    sys.exit(0 if ok else 1)
