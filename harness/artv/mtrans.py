"""mtrans — the last public functions of artlib that no translator covered: Python AST -> Lean 4 definitions.

  FusionART.match_criterion          artlib/fusion/FusionART.py       (the non-binary variant: np.nanmax of the channels'
                                                                       own match values; NaN for a skipped channel)
  FALCON.get_probabilistic_action    artlib/reinforcement/FALCON.py   (np.random.choice is the explicit parameter
                                                                       `np_random_choice : List α → Nat`)
  CVIART._set_params / _deep_copy_params   artlib/cvi/CVIART.py       (delegations to base_module.params)
  BaseART.shrink_clusters            artlib/common/BaseART.py         (returns self)

The result is `lean/ArtGen/Misc.lean` (namespaces `Art.Gen.Misc.<Class>`); `lean/ArtGenProofs/MiscSpec.lean` proves each
generated definition equal to its reference definition (`lean/ArtModel/Misc.lean`, on top of `ArtModel/Fusion.lean` and
`ArtModel/Falcon.lean`) and the properties asked of it.  Nested estimators stay abstract: `self.modules[k]` of a
FusionART is an object of type `TM` with the operations of the structure `ModOps`; FALCON's `self.fusion_art` is the
`FusionOps` object of `ArtGen/Falcon.lean`, and `self.get_actions_and_rewards` is the definition generated there by
`rtrans`.

Arrays: 1-d = `List α`, 2-d = `List (List α)`; a float that may be NaN = `Option α` (type "onum").  Methods of the
*monadic* profile (FusionART, FALCON) run in the `Option` monad: `none` = the Python code raises, or an array leaves
the finite numbers (division by a zero scalar: numpy gives nan / inf with a warning).  Methods of the *pure* profile
(CVIART, BaseART) are plain terms over the records `Art.ImpMisc.Wrapper` / `Held`.

The translation (one fixed rendering per construct; the rendering of an operator is chosen by the operand types):
  x = E                               ->  let x := E                                   (re-binding shadows)
  a, b = E            (E a pair)      ->  let (a, b) := E
  a, b = zip(*L)                      ->  let (a, b) := (← ImpMisc.pyUnzip2 L)          an empty L cannot be unpacked: none
  x /= E   (x 1-d / 2-d array, E num) ->  let x := (← ImpMisc.npDivS1 x E) / npDivS2    none when E = 0;
                                          in place: every *other* name bound to the same array (x = y, x = y.reshape(…))
                                          becomes unreadable — a later read is Unsupported; so is an in-place write
                                          to an array that came in as a parameter
  return E                            ->  pure E   /  E (pure profile)                  only as the last statement
  if x is None: raise …               ->  let x ← x                                     (x an optional parameter)
  if c: A [else: B]   (no return)     ->  let (vars) ← if c then (do A; pure (vars)) else (do B; pure (vars))
                                          vars = the names bound before and re-bound in a branch
  [E for t in it]                     ->  (← (it).mapM (fun t => do pure E))
  A if c else B                       ->  (← if c then (do pure A) else (do pure B))     lazy, like Python
  {k: v for k, v in enumerate(xs)}    ->  xs                                            a dict keyed by position = the list
  (a, b)                              ->  (a, b)
  xs[i]   (xs a list, i : Nat)        ->  (← xs[i]?)                                    out of range raises
  t[0], t[1]   (t a pair)             ->  t.1, t.2
  v[a:b]                              ->  Imp.pySlice v a b                             Python's clipping slice
  k not in xs / k in xs               ->  !(xs.contains k) / xs.contains k
  range(n) / len(xs)                  ->  List.range n / xs.length
  np.array(range(n))                  ->  List.range n                                  (np.array of a list: a cast)
  a + b, a % b   (Nat)                ->  (a + b), (a % b)
  x > y, x < y, …   (num)             ->  decide (x > y) …
  s == "lit"                          ->  (s == "lit")
  0.0, 1.0 / 0.0001 (decimal floats)  ->  (0 : α), (1 : α) / ImpMisc.decLit 1 4        (the exact decimal m·10^-e)
  np.nan                              ->  none          (type onum; a num where an onum is needed is wrapped in `some`)
  {"match_criterion": np.inf}         ->  the opaque constant dictSkip : TC
  np.nanmax(M)                        ->  (← ImpMisc.npNanmax M)                        M : list of onum; empty raises
  np.sum(A)                           ->  ImpMisc.npSum A / npSum2 A                    1-d / 2-d
  A.reshape((-1,))  (A 2-d)           ->  A.flatten
  s - v   (s num, v 1-d)              ->  ImpMisc.npSSub1 s v
  np.minimum(v, s) / np.maximum(v, s) ->  ImpMisc.npMinimumS1 v s / npMaximumS1 v s
  np.clip(v, lo, hi)                  ->  ImpMisc.npClip1 v lo hi                       = minimum(maximum(v, lo), hi)
  np.random.choice(a, size=1, p=p)    ->  (← ImpMisc.npRandomChoice1 np_random_choice a p)   validates a, p like numpy
  self.modules[k].match_criterion(…)  ->  ops.match_criterion (← modules[k]?) …         (ModOps; result (onum, TC))
  self.modules[k].params              ->  (ops.params (← modules[k]?))
  self.modules / self.n / self._channel_indices / self._weight_indices  ->  parameters modules / n / chIdx / wIdx
  self.get_actions_and_rewards(s, a)  ->  (← Art.Gen.FALCON.get_actions_and_rewards ops fusion_art s a)   (rtrans' output)
  self.base_module.params             ->  self.base_module.params                       (pure profile; type TP)
  self.base_module.params = E         ->  let self := { self with base_module := { self.base_module with params := E } }
                                          and a method without `return` returns self
  deepcopy(E)                         ->  (ImpMisc.deepcopy E)        a bare mutable attribute of self as a result
                                                                       (an alias of the estimator's dict) is Unsupported
  return self                         ->  self
Anything else raises `Unsupported`: the translator fails closed.
"""
from __future__ import annotations

import ast
import json
import os
from decimal import Decimal
from pathlib import Path

from .ktrans import Unsupported

VERIF = Path(__file__).resolve().parents[2]
FUSION = "artlib/fusion/FusionART.py"
FALCON = "artlib/reinforcement/FALCON.py"
CVIART = "artlib/cvi/CVIART.py"
BASEART = "artlib/common/BaseART.py"
H = "Art.ImpMisc."

DROPPED = {
    "docstrings": "string-expression statements have no effect",
    "type annotations": "compared with the table METHODS (a changed parameter list or annotation fails closed), otherwise "
                        "no run-time effect",
    "parameter defaults": "every generated definition takes all its arguments explicitly (cache=None, skip_channels=[], "
                          "action_space=None, offset=0.1, optimality='max', shrink_ratio=0.1 are the callers' business)",
    "np.array(E) of a list": "a cast: lists already are the arrays of the translation",
    "the unused parameter `params` of FusionART.match_criterion": "not bound: a use of it is Unsupported (the source reads "
                          "self.modules[k].params)",
    "the message of `raise ValueError(...)`": "a raise is `none`, whatever the exception",
    "np.random": "the generator is the explicit parameter np_random_choice (a function from the probability vector to the "
                 "drawn position); its argument validation is kept (ImpMisc.npRandomChoice1)",
    "float rounding": "decimal literals are read as exact decimals, np.sum as the exact sum",
    "EllipsoidART.get_2d_ellipsoids": "not translated (plotting helper: arctan2 / rad2deg)",
}

COVERS = ("FusionART.match_criterion (artlib/fusion/FusionART.py) is translated and proved equal to np.nanmax over the "
          "non-skipped channels of module k's own match_criterion on slice k of sample and weight with modules[k].params and "
          "cache[k] (ArtModel/Misc.fusionMatch over Fusion.matchVec), caches collected per channel, NaN / dictSkip for a "
          "skipped channel; FALCON.get_probabilistic_action (artlib/reinforcement/FALCON.py) is translated on top of rtrans' "
          "get_actions_and_rewards and proved equal to ArtModel/Misc.probAction / probVector (normalise when the total is "
          "positive, 1 - p for 'min', max(min(p, offset), 1e-4), normalise) with every probability > 0 and sum 1 for every "
          "offset >= 0 and every reward vector; CVIART._set_params / _deep_copy_params (base_module.params) and "
          "BaseART.shrink_clusters (identity) are translated and proved to be the get/set pair of base_module.params. "
          "Abstract (parameters / structure fields): the nested modules' match_criterion and params (ModOps), FALCON's "
          "FusionOps, np.random.choice (np_random_choice), the dict constant {'match_criterion': np.inf}.")

THEOREMS = [
    "Misc.npNanmax_eq", "Misc.fusion_match_criterion_none", "Misc.fusion_match_criterion_empty",
    "Misc.fusion_match_criterion_spec", "Misc.fusion_match_criterion_model", "Misc.fusion_match_criterion_caches",
    "Misc.fusionMatch_is_max", "Misc.fusionMatch_none_iff", "Misc.fusion_match_skip_independent",
    "Misc.gen_fusion_resonance_bound", "Misc.fusion_match_not_bin",
    "Misc.probVector_pos_sum", "Misc.prob_pipeline_spec", "Misc.get_probabilistic_action_spec",
    "Misc.get_probabilistic_action_total", "Misc.get_probabilistic_action_model", "Misc.prob_min_inverts",
    "Misc.clip_nesting_matters",
    "Misc.cvi_set_params_spec", "Misc.cvi_deep_copy_params_spec", "Misc.cvi_get_set", "Misc.cvi_set_get",
    "Misc.cvi_set_set", "Misc.cvi_set_frame", "Misc.shrink_clusters_spec",
]

# ---------------------------------------------------------------- types
# "nat" "lit" "num" "onum" "bool" "str" "M" "C" "P" "F" "S" "H"  ("list", t) ("opt", t) ("prod", [t…])
VEC = ("list", "num")
MAT = ("list", VEC)
LNAT = ("list", "nat")
PAIR = ("prod", ["nat", "nat"])
TYVARS = {"TM", "TP", "TC", "TR", "TS", "F", "α"}
KEYWORDS = {"end": "«end»", "from": "«from»", "at": "«at»", "open": "«open»", "in": "«in»", "then": "«then»",
            "fun": "«fun»", "show": "«show»", "have": "«have»", "match": "«match»", "do": "«do»"}


def nm(s: str) -> str:
    if s in TYVARS or s in ("ops", "modules", "n", "chIdx", "wIdx", "dictSkip", "fusion_art", "np_random_choice"):
        raise Unsupported(f"the local name {s} collides with a name of the generated definitions")
    return KEYWORDS.get(s, s)


def atom(s: str) -> str:
    return f"({s})" if " " in s else s


def lty(t) -> str:
    if isinstance(t, str):
        return {"nat": "Nat", "num": "α", "onum": "Option α", "bool": "Bool", "str": "String", "M": "TM", "C": "TC",
                "P": "TP", "F": "F", "S": "Art.ImpMisc.Wrapper TP TR TS", "B": "TS"}[t]
    if t[0] == "list":
        return f"List {atom(lty(t[1]))}"
    if t[0] == "opt":
        return f"Option {atom(lty(t[1]))}"
    if t[0] == "prod":
        return " × ".join(atom(lty(x)) for x in t[1])
    raise Unsupported(f"type {t}")


def islist(t):
    return isinstance(t, tuple) and t[0] == "list"


def src(e) -> str:
    return ast.unparse(e)


# ---------------------------------------------------------------- what is translated
ND, OND = "np.ndarray", "Optional[np.ndarray]"
# class -> profile
CLASSES = {
    "FusionART": dict(
        file=FUSION, monadic=True,
        self_attrs={"modules": ("modules", ("list", "M")), "n": ("n", "nat"), "_channel_indices": ("chIdx", ("list", PAIR)),
                    "_weight_indices": ("wIdx", ("list", PAIR))},
        implicit_order=["ops", "modules", "n", "chIdx", "wIdx", "dictSkip"],
        implicit_decl={"ops": "(ops : ModOps TM α TP TC)", "modules": "(modules : List TM)", "n": "(n : Nat)",
                       "chIdx": "(chIdx : List (Nat × Nat))", "wIdx": "(wIdx : List (Nat × Nat))", "dictSkip": "(dictSkip : TC)"},
        methods=[("match_criterion",
                  [("i", VEC, ND), ("w", VEC, ND), ("params", None, "Dict"), ("cache", ("opt", ("list", "C")), "Optional[Dict]"),
                   ("skip_channels", LNAT, "List[int]")], ("prod", ["onum", ("list", "C")]))],
    ),
    "FALCON": dict(
        file=FALCON, monadic=True, self_attrs={},
        implicit_order=["ops", "np_random_choice", "fusion_art"],
        implicit_decl={"ops": "(ops : Art.Gen.FALCON.FusionOps F α)", "np_random_choice": "(np_random_choice : List α → Nat)",
                       "fusion_art": "(fusion_art : F)"},
        methods=[("get_probabilistic_action",
                  [("state", VEC, ND), ("action_space", ("opt", MAT), OND), ("offset", "num", "float"),
                   ("optimality", "str", "Literal['min', 'max']")], "num")],
    ),
    "CVIART": dict(
        file=CVIART, monadic=False, self_attrs={}, implicit_order=["self"],
        implicit_decl={"self": "(self : Art.ImpMisc.Wrapper TP TR TS)"},
        methods=[("_set_params", [("new_params", "P", None)], "self"), ("_deep_copy_params", [], "P")],
    ),
    "BaseART": dict(
        file=BASEART, monadic=False, self_attrs={}, implicit_order=["self"],
        implicit_decl={"self": "(self : TS)"},
        methods=[("shrink_clusters", [("shrink_ratio", "num", "float")], "selfB")],
    ),
}
# methods of `self.modules[k]` of a FusionART (fields of ModOps)
MOD_METHODS = {"match_criterion": ("match_criterion", [VEC, VEC, "P", "C"], ("prod", ["onum", "C"]))}
MOD_ATTRS = {"params": ("params", "P")}
DICT_CONSTS = {"{'match_criterion': np.inf}": "dictSkip"}
# methods of FALCON translated by rtrans, callable through self (name -> generated name, parameter types, result)
FALCON_SELF = {"get_actions_and_rewards": ("Art.Gen.FALCON.get_actions_and_rewards", [VEC, ("opt", MAT)], ("prod", [MAT, MAT]),
                                           [("state", ND), ("action_space", OND)])}
CMPOPS = {ast.Gt: ">", ast.Lt: "<", ast.GtE: "≥", ast.LtE: "≤"}


class Ctx:
    def __init__(self, cls, params):
        self.cls = cls
        self.prof = CLASSES[cls]
        self.vars: dict[str, object] = {}
        self.used: set[str] = set()
        self.caller: set[int] = set()      # ids of the arrays that came in as arguments (they belong to the caller)
        self.group: dict[str, int] = {}    # name -> id of the array it is bound to
        self.dead: set[str] = set()        # names whose array was overwritten in place through another name
        self.next_group = [0]
        self.self_written = [False]

    def copy(self):
        c = Ctx.__new__(Ctx)
        c.cls, c.prof, c.used, c.caller, c.next_group, c.self_written = (self.cls, self.prof, self.used, self.caller,
                                                                       self.next_group, self.self_written)
        c.vars, c.group, c.dead = dict(self.vars), dict(self.group), set(self.dead)
        return c

    def fresh(self, x):
        self.next_group[0] += 1
        self.group[x] = self.next_group[0]
        self.dead.discard(x)

    def share(self, x, y):
        if y not in self.group:
            self.fresh(y)
        self.group[x] = self.group[y]
        self.dead.discard(x)


def numlit(v) -> str:
    """a non-negative Python number as an exact decimal over the abstract number type"""
    d = Decimal(repr(v))
    if d < 0 or not d.is_finite():
        raise Unsupported(f"numeric constant {v!r}")
    if d == d.to_integral_value():
        n = int(d)
        if n == 0:
            return "(0 : α)"
        if n == 1:
            return "(1 : α)"
        raise Unsupported(f"numeric constant {v!r} (only 0, 1 and proper decimals have a rendering)")
    sign, digits, exp = d.as_tuple()
    m = int("".join(map(str, digits)))
    return f"({H}decLit {m} {-exp} : α)"


def coerce(text, t, want):
    if t == want:
        return text
    if t == "lit" and want == "nat":
        return text
    if t == "lit" and want == "num":
        return numlit(int(text))
    if t == "lit" and want == "onum":
        return f"(some {numlit(int(text))})"
    if t == "num" and want == "onum":
        return f"(some {text})"
    raise Unsupported(f"type mismatch: {t} where {want} is needed ({text})")


def unify(e: ast.AST, cx: Ctx, want):
    """translate `e` at the wanted type, coercing inside literal tuples"""
    if isinstance(e, ast.Tuple) and isinstance(want, tuple) and want[0] == "prod" and len(e.elts) == len(want[1]):
        return "(" + ", ".join(unify(x, cx, w) for x, w in zip(e.elts, want[1])) + ")"
    t_, ty = ex(e, cx)
    return coerce(t_, ty, want)


def is_self(e, attr=None):
    return (isinstance(e, ast.Attribute) and isinstance(e.value, ast.Name) and e.value.id == "self"
            and (attr is None or e.attr == attr))


def is_np(f, name=None):
    return (isinstance(f, ast.Attribute) and isinstance(f.value, ast.Name) and f.value.id == "np"
            and (name is None or f.attr == name))


def is_base_params(e):
    """`self.base_module.params`"""
    return isinstance(e, ast.Attribute) and e.attr == "params" and is_self(e.value, "base_module")


def ex(e: ast.AST, cx: Ctx):
    """expression -> (Lean text, type); the text is atomic and may contain nested actions `(← …)`"""
    if isinstance(e, ast.Name):
        if e.id == "self":
            raise Unsupported("`self` as a value (only `return self` is known)")
        if e.id not in cx.vars:
            raise Unsupported(f"unknown name {e.id}")
        if e.id in cx.dead:
            raise Unsupported(f"{e.id} is read after the array it is bound to was overwritten in place through another name")
        return nm(e.id), cx.vars[e.id]
    if isinstance(e, ast.Constant):
        v = e.value
        if isinstance(v, bool):
            return ("true" if v else "false"), "bool"
        if isinstance(v, int) and v >= 0:
            return str(v), "lit"
        if isinstance(v, float):
            return numlit(v), "num"
        if isinstance(v, str):
            return json.dumps(v), "str"
        raise Unsupported(f"constant {v!r}")
    if isinstance(e, ast.Attribute):
        if is_np(e, "nan"):
            return "none", "onum"
        if is_self(e):
            if e.attr not in cx.prof["self_attrs"]:
                raise Unsupported(f"self.{e.attr}")
            v, t = cx.prof["self_attrs"][e.attr]
            cx.used.add(v)
            return v, t
        if is_base_params(e) and cx.cls == "CVIART":
            cx.used.add("self")
            return "self.base_module.params", "P"
        b, bt = ex(e.value, cx)
        if bt == "M" and e.attr in MOD_ATTRS:
            f, t = MOD_ATTRS[e.attr]
            cx.used.add("ops")
            return f"(ops.{f} {b})", t
        raise Unsupported(f"attribute .{e.attr} of {bt}")
    if isinstance(e, ast.Tuple):
        parts = [ex(x, cx) for x in e.elts]
        return "(" + ", ".join(p[0] for p in parts) + ")", ("prod", [p[1] for p in parts])
    if isinstance(e, ast.Dict):
        key = src(e)
        if key not in DICT_CONSTS or cx.cls != "FusionART":
            raise Unsupported(f"dict literal {key}")
        cx.used.add(DICT_CONSTS[key])
        return DICT_CONSTS[key], "C"
    if isinstance(e, ast.Subscript):
        return subscript(e, cx)
    if isinstance(e, ast.IfExp):
        c, ct = ex(e.test, cx)
        if ct != "bool":
            raise Unsupported("condition is not boolean")
        a_, want = ex(e.body, cx)
        try:
            b_ = unify(e.orelse, cx, want)
        except Unsupported:
            b_, want = ex(e.orelse, cx)
            a_ = unify(e.body, cx, want)
        return f"(← if {c} then (do pure {a_}) else (do pure {b_}))", want
    if isinstance(e, ast.Compare) and len(e.ops) == 1:
        l, lt = ex(e.left, cx)
        r, rt = ex(e.comparators[0], cx)
        op = type(e.ops[0])
        if op is ast.NotIn and rt == ("list", lt):
            return f"(!({r}.contains {l}))", "bool"
        if op is ast.In and rt == ("list", lt):
            return f"({r}.contains {l})", "bool"
        if lt == rt == "str" and op is ast.Eq:
            return f"({l} == {r})", "bool"
        if op in CMPOPS and "num" in (lt, rt) and lt in ("num", "lit") and rt in ("num", "lit"):
            return f"(decide ({coerce(l, lt, 'num')} {CMPOPS[op]} {coerce(r, rt, 'num')}))", "bool"
        raise Unsupported(f"comparison {src(e)} on {lt}, {rt}")
    if isinstance(e, ast.BinOp):
        l, lt = ex(e.left, cx)
        r, rt = ex(e.right, cx)
        op = type(e.op)
        if lt in ("nat", "lit") and rt in ("nat", "lit") and (lt, rt) != ("lit", "lit") and op in (ast.Add, ast.Mod):
            return f"({l} {'+' if op is ast.Add else '%'} {r})", "nat"
        if lt in ("num", "lit") and rt == VEC and op is ast.Sub:
            return f"({H}npSSub1 {coerce(l, lt, 'num')} {r})", VEC
        raise Unsupported(f"operator in {src(e)} on {lt}, {rt}")
    if isinstance(e, ast.ListComp):
        if len(e.generators) != 1 or e.generators[0].ifs or e.generators[0].is_async \
                or not isinstance(e.generators[0].target, ast.Name):
            raise Unsupported("comprehension with several generators, a filter or a pattern target")
        g = e.generators[0]
        it, ity = ex(g.iter, cx)
        if not islist(ity):
            raise Unsupported("comprehension over a non-list")
        inner = cx.copy()
        inner.vars[g.target.id] = ity[1]
        inner.fresh(g.target.id)
        b, bt = ex(e.elt, inner)
        return f"(← ({it}).mapM (fun {nm(g.target.id)} => do pure {b}))", ("list", bt)
    if isinstance(e, ast.DictComp):
        g = e.generators[0]
        if (len(e.generators) == 1 and not g.ifs and isinstance(g.iter, ast.Call) and isinstance(g.iter.func, ast.Name)
                and g.iter.func.id == "enumerate" and len(g.iter.args) == 1 and not g.iter.keywords
                and isinstance(g.target, ast.Tuple) and len(g.target.elts) == 2
                and all(isinstance(x, ast.Name) for x in g.target.elts) and isinstance(e.key, ast.Name)
                and isinstance(e.value, ast.Name) and e.key.id == g.target.elts[0].id
                and e.value.id == g.target.elts[1].id and e.key.id != e.value.id):
            a, at = ex(g.iter.args[0], cx)
            if not islist(at):
                raise Unsupported("dict comprehension over a non-list")
            return a, at
        raise Unsupported(f"dict comprehension {src(e)}")
    if isinstance(e, ast.Call):
        return call(e, cx)
    raise Unsupported(f"expression {type(e).__name__}: {src(e)}")


def subscript(e: ast.Subscript, cx: Ctx):
    b, bty = ex(e.value, cx)
    s = e.slice
    if isinstance(s, ast.Slice):
        if s.step is not None or s.lower is None or s.upper is None:
            raise Unsupported("slice without both bounds / with a step")
        lo, lot = ex(s.lower, cx)
        hi, hit = ex(s.upper, cx)
        if not islist(bty):
            raise Unsupported(f"slice of {bty}")
        return f"(Art.Imp.pySlice {b} {coerce(lo, lot, 'nat')} {coerce(hi, hit, 'nat')})", bty
    if isinstance(bty, tuple) and bty[0] == "prod":
        if isinstance(s, ast.Constant) and isinstance(s.value, int) and not isinstance(s.value, bool) \
                and len(bty[1]) == 2 and s.value in (0, 1):
            return f"{b}.{s.value + 1}", bty[1][s.value]
        raise Unsupported("tuple index")
    if islist(bty):
        i, it = ex(s, cx)
        return f"(← {b}[{coerce(i, it, 'nat')}]?)", bty[1]
    raise Unsupported(f"subscript of {bty}: {src(e)}")


def kwargs(e: ast.Call, names):
    out = {}
    for kw in e.keywords:
        if kw.arg is None or kw.arg not in names or kw.arg in out:
            raise Unsupported(f"keyword {kw.arg} in {src(e)}")
        out[kw.arg] = kw.value
    return out


def call(e: ast.Call, cx: Ctx):
    f = e.func
    if isinstance(f, ast.Name):
        if e.keywords:
            raise Unsupported(f"keyword arguments in {src(e)}")
        if f.id == "range" and len(e.args) == 1:
            a, t = ex(e.args[0], cx)
            return f"(List.range {coerce(a, t, 'nat')})", LNAT
        if f.id == "len" and len(e.args) == 1:
            a, t = ex(e.args[0], cx)
            if not islist(t):
                raise Unsupported("len of a non-list")
            return f"{a}.length", "nat"
        if f.id == "deepcopy" and len(e.args) == 1:
            if not is_base_params(e.args[0]):
                raise Unsupported(f"deepcopy of {src(e.args[0])}")
            a, t = ex(e.args[0], cx)
            return f"({H}deepcopy {a})", "Pcopy"
        raise Unsupported(f"function {f.id}")
    if not isinstance(f, ast.Attribute):
        raise Unsupported(f"call {src(e)}")
    if is_np(f):
        if f.attr == "array" and len(e.args) == 1 and not e.keywords:
            a, t = ex(e.args[0], cx)
            if not islist(t):
                raise Unsupported(f"np.array of {t}")
            return a, t
        if f.attr == "nanmax" and len(e.args) == 1 and not e.keywords:
            a, t = ex(e.args[0], cx)
            if t != ("list", "onum"):
                raise Unsupported(f"np.nanmax of {t}")
            return f"(← {H}npNanmax {a})", "onum"
        if f.attr == "sum" and len(e.args) == 1 and not e.keywords:
            a, t = ex(e.args[0], cx)
            if t == VEC:
                return f"({H}npSum {a})", "num"
            if t == MAT:
                return f"({H}npSum2 {a})", "num"
            raise Unsupported(f"np.sum of {t}")
        if f.attr in ("minimum", "maximum") and len(e.args) == 2 and not e.keywords:
            a, at = ex(e.args[0], cx)
            s, st = ex(e.args[1], cx)
            if at != VEC:
                raise Unsupported(f"np.{f.attr} of {at}")
            hn = "npMinimumS1" if f.attr == "minimum" else "npMaximumS1"
            return f"({H}{hn} {a} {coerce(s, st, 'num')})", VEC
        if f.attr == "clip" and len(e.args) == 3 and not e.keywords:
            a, at = ex(e.args[0], cx)
            lo, lot = ex(e.args[1], cx)
            hi, hit = ex(e.args[2], cx)
            if at != VEC:
                raise Unsupported(f"np.clip of {at}")
            return f"({H}npClip1 {a} {coerce(lo, lot, 'num')} {coerce(hi, hit, 'num')})", VEC
        raise Unsupported(f"numpy function {src(f)}")
    # np.random.choice(a, size=1, p=p)
    if f.attr == "choice" and is_np(f.value, "random"):
        kw = kwargs(e, ["size", "p"])
        if len(e.args) != 1 or set(kw) != {"size", "p"} or not (isinstance(kw["size"], ast.Constant) and kw["size"].value == 1
                                                              and not isinstance(kw["size"].value, bool)):
            raise Unsupported(f"np.random.choice: only choice(a, size=1, p=p) is known ({src(e)})")
        a, at = ex(e.args[0], cx)
        p, pt = ex(kw["p"], cx)
        if at != LNAT or pt != VEC or cx.cls != "FALCON":
            raise Unsupported(f"np.random.choice over {at} with p {pt}")
        cx.used.add("np_random_choice")
        return f"(← {H}npRandomChoice1 np_random_choice {a} {p})", LNAT
    # self.m(...)
    if isinstance(f.value, ast.Name) and f.value.id == "self":
        if cx.cls != "FALCON" or f.attr not in FALCON_SELF or e.keywords:
            raise Unsupported(f"method call {src(e)}")
        lname, atys, rty, _ = FALCON_SELF[f.attr]
        if len(e.args) != len(atys):
            raise Unsupported(f"self.{f.attr} called with {len(e.args)} arguments")
        args = [coerce(*ex(a, cx), t) for a, t in zip(e.args, atys)]
        cx.used.update(["ops", "fusion_art"])
        return f"(← {lname} ops fusion_art " + " ".join(args) + ")", rty
    # v.reshape((-1,))
    if f.attr == "reshape" and len(e.args) == 1 and not e.keywords:
        a, at = ex(f.value, cx)
        sh = e.args[0]
        if at == MAT and isinstance(sh, ast.Tuple) and len(sh.elts) == 1 and isinstance(sh.elts[0], ast.UnaryOp) \
                and isinstance(sh.elts[0].op, ast.USub) and isinstance(sh.elts[0].operand, ast.Constant) \
                and sh.elts[0].operand.value == 1:
            return f"{a}.flatten", VEC
        raise Unsupported(f"reshape: {src(e)}")
    # self.modules[k].m(...)
    b, bty = ex(f.value, cx)
    if bty == "M" and f.attr in MOD_METHODS and not e.keywords:
        fld, atys, rty = MOD_METHODS[f.attr]
        if len(e.args) != len(atys):
            raise Unsupported(f"{f.attr} called with {len(e.args)} arguments, {len(atys)} expected")
        args = [coerce(*ex(a, cx), t) for a, t in zip(e.args, atys)]
        cx.used.add("ops")
        return f"(ops.{fld} {b} " + " ".join(args) + ")", rty
    raise Unsupported(f"method call {src(e)}")


# ---------------------------------------------------------------- statements


def bound_in(stmts) -> list[str]:
    out = []
    for s in stmts:
        for n in ast.walk(s):
            tg = []
            if isinstance(n, ast.Assign):
                tg = n.targets
            elif isinstance(n, ast.AugAssign):
                tg = [n.target]
            for t in tg:
                for x in ([t] if isinstance(t, ast.Name) else t.elts if isinstance(t, ast.Tuple) else []):
                    if isinstance(x, ast.Name) and x.id not in out:
                        out.append(x.id)
    return out


def pack(vs):
    return "()" if not vs else nm(vs[0]) if len(vs) == 1 else "(" + ", ".join(nm(v) for v in vs) + ")"


def has_jump(stmts):
    return any(isinstance(n, (ast.Return, ast.Break, ast.Continue, ast.Raise)) for b in stmts for n in ast.walk(b))


def is_none_raise(s):
    return (isinstance(s, ast.If) and isinstance(s.test, ast.Compare) and len(s.test.ops) == 1
            and isinstance(s.test.ops[0], ast.Is) and isinstance(s.test.left, ast.Name)
            and isinstance(s.test.comparators[0], ast.Constant) and s.test.comparators[0].value is None
            and len(s.body) == 1 and isinstance(s.body[0], ast.Raise) and not s.orelse)


def block(stmts, cx: Ctx, ret_ty, I="  ") -> list[str]:
    """the monadic profile"""
    out = []
    for idx, s in enumerate(stmts):
        if isinstance(s, ast.Expr) and isinstance(s.value, ast.Constant) and isinstance(s.value.value, str):
            continue                                                           # DROPPED: docstring
        if isinstance(s, ast.Return):
            if idx != len(stmts) - 1 or ret_ty is None or s.value is None:
                raise Unsupported("return that is not the last statement of the method / bare return")
            out.append(I + "pure " + unify(s.value, cx, ret_ty))
            return out
        if is_none_raise(s):
            x = s.test.left.id
            xt = cx.vars.get(x)
            if not (isinstance(xt, tuple) and xt[0] == "opt"):
                raise Unsupported(f"`{x} is None` on a value that is not optional")
            out.append(I + f"let {nm(x)} ← {nm(x)}")
            cx.vars[x] = xt[1]
            continue
        if isinstance(s, ast.Assign) and len(s.targets) == 1:
            t = s.targets[0]
            if (isinstance(t, ast.Tuple) and all(isinstance(x, ast.Name) for x in t.elts) and isinstance(s.value, ast.Call)
                    and isinstance(s.value.func, ast.Name) and s.value.func.id == "zip"):
                if len(s.value.args) != 1 or not isinstance(s.value.args[0], ast.Starred) or s.value.keywords or len(t.elts) != 2:
                    raise Unsupported(f"zip: only `a, b = zip(*L)` is known ({src(s)})")
                r, rt = ex(s.value.args[0].value, cx)
                if not (islist(rt) and isinstance(rt[1], tuple) and rt[1][0] == "prod" and len(rt[1][1]) == 2):
                    raise Unsupported("zip(*…) of a list that does not hold pairs")
                out.append(I + "let (" + ", ".join(nm(x.id) for x in t.elts) + f") := (← {H}pyUnzip2 {r})")
                for j, x in enumerate(t.elts):
                    cx.vars[x.id] = ("list", rt[1][1][j])
                    cx.fresh(x.id)
                continue
            if isinstance(t, ast.Tuple) and all(isinstance(x, ast.Name) for x in t.elts):
                v, vt = ex(s.value, cx)
                if not (isinstance(vt, tuple) and vt[0] == "prod" and len(vt[1]) == len(t.elts)):
                    raise Unsupported(f"unpacking {src(s.value)} of type {vt} into {len(t.elts)} names")
                out.append(I + "let (" + ", ".join(nm(x.id) for x in t.elts) + f") := {v}")
                for x, xt in zip(t.elts, vt[1]):
                    cx.vars[x.id] = xt
                    cx.fresh(x.id)
                continue
            if isinstance(t, ast.Name):
                v, vt = ex(s.value, cx)
                if vt == "lit":
                    vt = "nat"
                out.append(I + f"let {nm(t.id)} := {v}")
                cx.vars[t.id] = vt
                # which array is the name bound to now?
                val = s.value
                if isinstance(val, ast.Name):
                    cx.share(t.id, val.id)
                elif (isinstance(val, ast.Call) and isinstance(val.func, ast.Attribute) and val.func.attr == "reshape"
                      and isinstance(val.func.value, ast.Name)):
                    cx.share(t.id, val.func.value.id)                      # a view
                else:
                    cx.fresh(t.id)
                continue
            raise Unsupported(f"assignment target {src(t)}")
        if isinstance(s, ast.AugAssign) and isinstance(s.target, ast.Name) and isinstance(s.op, ast.Div):
            x = s.target.id
            xv, xt = ex(ast.Name(id=x, ctx=ast.Load()), cx)
            v, vt = ex(s.value, cx)
            g = cx.group.get(x)
            if g in cx.caller:
                raise Unsupported(f"in-place `{x} /= …` writes into an array of the caller")
            hn = {json.dumps(VEC): "npDivS1", json.dumps(MAT): "npDivS2"}.get(json.dumps(xt))
            if hn is None:
                raise Unsupported(f"`/=` on {xt}")
            out.append(I + f"let {xv} := (← {H}{hn} {xv} {coerce(v, vt, 'num')})")
            for y, gy in cx.group.items():
                if gy == g and y != x:
                    cx.dead.add(y)
            continue
        if isinstance(s, ast.If):
            if has_jump(s.body) or has_jump(s.orelse):
                raise Unsupported("return / raise inside if")
            c, ct = ex(s.test, cx)
            if ct != "bool":
                raise Unsupported("condition is not boolean")
            names = bound_in(s.body) + bound_in(s.orelse)
            new = [v for v in names if v not in cx.vars]
            if new:
                raise Unsupported(f"{new} first bound inside an if")
            vs = list(dict.fromkeys(names))
            c1, c2 = cx.copy(), cx.copy()
            b1 = block(s.body, c1, None, I + "    ")
            b2 = block(s.orelse, c2, None, I + "    ")
            for v in vs:
                if c1.vars[v] != c2.vars[v]:
                    raise Unsupported(f"{v} has type {c1.vars[v]} in one branch and {c2.vars[v]} in the other")
                cx.vars[v] = c1.vars[v]
                if c1.group.get(v) != cx.group.get(v) or c2.group.get(v) != cx.group.get(v):
                    cx.fresh(v)
            cx.dead |= c1.dead | c2.dead
            out.append(I + f"let {pack(vs)} ← if {c} then (do")
            out += b1
            out.append(I + f"    pure {pack(vs)})")
            out.append(I + "  else (do")
            out += b2
            out.append(I + f"    pure {pack(vs)})")
            continue
        raise Unsupported(f"statement {type(s).__name__}: {src(s)[:80]}")
    if ret_ty is None:
        return out
    raise Unsupported("method falls off its end")


def pure_block(stmts, cx: Ctx, ret_ty, I="  ") -> list[str]:
    """the pure profile: stores into `self.base_module.params`, `return`"""
    out = []
    for idx, s in enumerate(stmts):
        if isinstance(s, ast.Expr) and isinstance(s.value, ast.Constant) and isinstance(s.value.value, str):
            continue
        if isinstance(s, ast.Return):
            if idx != len(stmts) - 1 or s.value is None:
                raise Unsupported("return that is not the last statement of the method / bare return")
            if ret_ty in ("self", "selfB"):
                if ret_ty == "self" or not (isinstance(s.value, ast.Name) and s.value.id == "self"):
                    raise Unsupported(f"return {src(s.value)}")
                cx.used.add("self")
                out.append(I + "self")
                return out
            v, vt = ex(s.value, cx)
            if vt == "P":
                raise Unsupported(f"{src(s.value)} (a mutable attribute of the estimator) is returned without deepcopy")
            if vt == "Pcopy":
                vt = "P"
            out.append(I + coerce(v, vt, ret_ty))
            return out
        if isinstance(s, ast.Assign) and len(s.targets) == 1 and is_base_params(s.targets[0]) and cx.cls == "CVIART":
            v, vt = ex(s.value, cx)
            if vt != "P":
                raise Unsupported(f"self.base_module.params = a value of type {vt}")
            cx.used.add("self")
            cx.self_written[0] = True
            out.append(I + f"let self := {{ self with base_module := {{ self.base_module with params := {v} }} }}")
            continue
        raise Unsupported(f"statement {type(s).__name__}: {src(s)[:80]}")
    if ret_ty == "self":
        if not cx.self_written[0]:
            raise Unsupported("a procedure that writes nothing")
        out.append(I + "self")
        return out
    raise Unsupported("method falls off its end")


def check_signature(f: ast.FunctionDef, params, what):
    a = f.args
    if a.vararg or a.kwarg or a.kwonlyargs or a.posonlyargs:
        raise Unsupported(f"{what}: *args / **kwargs / keyword-only parameters")
    got = [(x.arg, src(x.annotation) if x.annotation is not None else None) for x in a.args[1:]]
    want = [(p, ann) for p, _, ann in params]
    if got != want:
        raise Unsupported(f"{what} has parameters {got}, the translator knows {want}")
    if f.decorator_list:
        raise Unsupported(f"{what} is decorated")


def find_class(tree, cls):
    cs = [n for n in tree.body if isinstance(n, ast.ClassDef) and n.name == cls]
    if len(cs) != 1:
        raise Unsupported(f"class {cls} not found (once)")
    return cs[0]


def find_method(node, cls, name):
    fs = [f for f in node.body if isinstance(f, ast.FunctionDef) and f.name == name]
    if len(fs) != 1:
        raise Unsupported(f"{cls}.{name} not found (once)")
    return fs[0]


def translate_method(node, cls, name, params, rty) -> str:
    prof = CLASSES[cls]
    f = find_method(node, cls, name)
    check_signature(f, params, f"{cls}.{name}")
    cx = Ctx(cls, params)
    for p, t, _ in params:
        if t is not None:
            cx.vars[p] = t
            cx.fresh(p)
            cx.caller.add(cx.group[p])
    lname = name
    if prof["monadic"]:
        body = block(list(f.body), cx, rty, "  ")
        rt = f"Option {atom(lty(rty))}"
        head = " := do"
    else:
        body = pure_block(list(f.body), cx, rty, "  ")
        rt = {"self": lty("S"), "selfB": "TS"}.get(rty) or lty(rty)
        head = " :="
    text = "\n".join(body)
    implicit = [p for p in prof["implicit_order"] if p in cx.used or (p == "self")]
    decl = " ".join(prof["implicit_decl"][p] for p in implicit)
    pdecl = " ".join(f"({nm(p)} : {lty(t)})" for p, t, _ in params if t is not None)
    return (f"/-- `{cls}.{name}` -/\n"
            f"def {lname} {decl}{' ' if decl and pdecl else ''}{pdecl} :\n    {rt}{head}\n" + text + "\n")


PRELUDE = '''/-
GENERATED by harness/artv/mtrans.py from {files} — do not edit.
Regenerated on every run of the checks that name it; ArtGenProofs/MiscSpec.lean proves these definitions equal to the
reference definitions of ArtModel/Misc.lean (on top of ArtModel/Fusion.lean and ArtModel/Falcon.lean).
-/
import ArtModel.Imp
import ArtModel.ImpMisc
import ArtGen.Falcon

set_option linter.unusedVariables false

'''

FUSION_HEAD = '''namespace Art.Gen.Misc.FusionART
open Art

/-- a nested estimator `self.modules[k]` as `FusionART.match_criterion` uses it: an abstract object `TM` -/
structure ModOps (TM α TP TC : Type) where
  /-- `match_criterion(i, w, params, cache) -> (M, cache)`; `none` = NaN -/
  match_criterion : TM → List α → List α → TP → TC → Option α × TC
  params : TM → TP

section
variable {TM TP TC α : Type} [Max α] [Zero α] [One α]

'''
FALCON_HEAD = '''namespace Art.Gen.Misc.FALCON
open Art

section
variable {F α : Type} [Add α] [Sub α] [Mul α] [Div α] [Min α] [Max α] [Zero α] [One α] [NatCast α]
  [LT α] [DecidableRel (α := α) (· < ·)] [LE α] [DecidableRel (α := α) (· ≤ ·)] [DecidableEq α]

'''
CVI_HEAD = '''namespace Art.Gen.Misc.CVIART
open Art

section
variable {TP TR TS : Type}

'''
BASE_HEAD = '''namespace Art.Gen.Misc.BaseART
open Art

section
variable {TS α : Type}

'''
HEADS = {"FusionART": FUSION_HEAD, "FALCON": FALCON_HEAD, "CVIART": CVI_HEAD, "BaseART": BASE_HEAD}


def check_falcon_context(tree):
    """`self.get_actions_and_rewards` must be the method rtrans translates, for a FALCON and for a TD_FALCON receiver"""
    fal = find_class(tree, "FALCON")
    for name, (_, _, _, sig) in FALCON_SELF.items():
        f = find_method(fal, "FALCON", name)
        got = [(x.arg, src(x.annotation) if x.annotation is not None else None) for x in f.args.args[1:]]
        if got != sig:
            raise Unsupported(f"FALCON.{name} has parameters {got}, rtrans' definition takes {sig}")
    for n in tree.body:
        if isinstance(n, ast.ClassDef) and n.name != "FALCON":
            if [src(b) for b in n.bases] not in ([], ["FALCON"]):
                raise Unsupported(f"class {n.name}{[src(b) for b in n.bases]}")
            over = [f.name for f in n.body if isinstance(f, ast.FunctionDef)
                    and f.name in list(FALCON_SELF) + ["get_probabilistic_action"]]
            if over:
                raise Unsupported(f"{n.name} overrides {over}")


def generate(repo: Path) -> str:
    repo = Path(repo)
    files = []
    parts = []
    for cls, prof in CLASSES.items():
        tree = ast.parse((repo / prof["file"]).read_text())
        files.append(prof["file"])
        if cls == "FALCON":
            check_falcon_context(tree)
        if cls == "CVIART":
            imp = [a.name for n in tree.body if isinstance(n, ast.ImportFrom) and n.module == "copy" for a in n.names]
            defs = [n.name for n in ast.walk(tree) if isinstance(n, (ast.FunctionDef, ast.ClassDef))]
            if "deepcopy" not in imp or "deepcopy" in defs:
                raise Unsupported("deepcopy is not copy.deepcopy in artlib/cvi/CVIART.py")
        node = find_class(tree, cls)
        parts.append(HEADS[cls])
        for name, params, rty in prof["methods"]:
            parts.append(translate_method(node, cls, name, params, rty))
        parts.append(f"end\n\nend Art.Gen.Misc.{cls}\n")
    return PRELUDE.replace("{files}", ", ".join(files)) + "\n".join(parts)


def write(repo: Path = None) -> tuple[bool, str]:
    repo = Path(repo or os.environ.get("VERIF_REPO", "/repo"))
    out = VERIF / "lean" / "ArtGen" / "Misc.lean"
    try:
        text = generate(repo)
    except (Unsupported, SyntaxError, KeyError, AttributeError, TypeError, IndexError, OSError, ValueError) as e:
        return False, f"{type(e).__name__}: {e}"
    if not out.exists() or out.read_text() != text:
        tmp = out.with_suffix(".lean.tmp")
        tmp.write_text(text)
        os.replace(tmp, out)
    return True, "generated"


if __name__ == "__main__":
    import sys
    ok, msg = write(sys.argv[1] if len(sys.argv) > 1 else None)
    print(msg)
    sys.exit(0 if ok else 1)
