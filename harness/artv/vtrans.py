"""VAT translator: the Python AST of `artlib/common/VAT.py` (function `VAT`)  ->  Lean 4 definitions.

`ktrans.py` translates numeric kernels, `ctrans.py` training loops, `ftrans.py` FusionART's channel plumbing.  `VAT` is
of a fourth kind: index bookkeeping on plain Python lists (`append`, `pop`, truthiness of a list as loop condition)
around a handful of numpy primitives on a 2-d array (`argmax` / `argmin` of the flattened array, `np.unravel_index`,
`.shape`, `np.ix_` fancy indexing).  This module translates exactly that sub-language, syntax-directed, into
`lean/ArtGen/VAT.lean`; `lean/ArtGenProofs/VATSpec.lean` proves the generated `VAT` equal to `Art.VAT.vat`
(`ArtModel/VAT.lean`), the definition the C20 theorems are stated about.  The numpy primitives are rendered through the
generic helpers of `lean/ArtModel/ImpVAT.lean` (numpy semantics: first occurrence wins, row-major flattening), never
through functions of the model.

The translation (everything runs in the `Option` monad: `none` = the Python code raises):

  statements
  x = e                             ->  let x := E
  a, b = e      (e a pair; `_` allowed as a target)
                                    ->  let (a, b) := E
  xs = []                           ->  let xs := ([] : List T)      T = type of the first `xs.append`
  xs.append(v)                      ->  let xs := xs ++ [V]
  xs.pop(k)     (statement)         ->  let xs ← Art.ImpVAT.pyPop xs K            out of range raises
  if c: A else: B   (no return)     ->  let (vars) ← if C then (do A; pure (vars)) else (do B; pure (vars))
                                        vars = names bound in both branches or re-bound in one
  while c: B    (no return / break / continue / else)
                                    ->  let (vars) ← Art.ImpVAT.whileOpt (VAT_whileK_cond free…) (VAT_whileK_body free…) fuel (vars)
                                        vars = names re-bound in B that exist before the loop; cond and body are
                                        emitted as named definitions over the free variables they read;
                                        `fuel` = an explicit parameter bounding the number of iterations
                                        (running out of fuel is `none`, never a wrong result)
  return e                          ->  pure E          (last statement only)

  expressions
  name / 0, 1, 2 …                  ->  the variable / the numeral
  (a, b)                            ->  (A, B)
  a + b         (naturals)          ->  (A + B)
  t[0], t[1]    (t a pair)          ->  T.1, T.2
  xs[k]         (xs a list)         ->  (← XS[K]?)                                out of range raises
  M.shape       (M a 2-d array)     ->  (Art.ImpVAT.npShape M)
  M.argmax() / M.argmin()           ->  (← Art.ImpVAT.npArgmax (Art.ImpVAT.npRavel M))   / npArgmin    empty raises
  np.unravel_index(p, s)            ->  (← Art.ImpVAT.npUnravel P S)
  np.ix_(a, b)                      ->  (Art.ImpVAT.npIx A B)
  M[ix]         (ix from np.ix_)    ->  (← Art.ImpVAT.npFancy2 M IX)              out of range raises
  range(n) / list(xs) / len(xs)     ->  (List.range N) / XS / XS.length
  np.array(xs)                      ->  XS               (dropped cast)
  x is None     (x optional)        ->  X.isNone
  xs            (a list, as a condition)
                                    ->  (!XS.isEmpty)
  f(a)          (f an optional callable parameter)
                                    ->  ((← F) A)         calling None raises
  squareform(a)                     ->  (squareform A)    external: a function parameter of the generated definition
Anything else raises `Unsupported`: the translator fails closed.
"""
from __future__ import annotations

import ast
import os
from pathlib import Path

from .ktrans import Unsupported

VERIF = Path(__file__).resolve().parents[2]
FILE = "artlib/common/VAT.py"
OUT = VERIF / "lean" / "ArtGen" / "VAT.lean"
IMP = "Art.ImpVAT"

THEOREMS = [
    "VAT.npArgmin_eq_argminFirst",
    "VAT.npArgmax_eq_argmaxFirst",
    "VAT.npFancy2_eq_some",
    "VAT.npFancy2_eq_ixSub",
    "VAT.body_spec",
    "VAT.while_spec",
    "VAT.VAT_spec",
    "VAT.VAT_empty",
    "VAT.VAT_metric",
    "VAT.VAT_fuel_irrelevant",
    "VAT.VAT_perm",
    "VAT.VAT_seed_is_max_endpoint",
    "VAT.VAT_prim_step",
    "VAT.VAT_prim_step_first_min",
    "VAT.VAT_matrix_reordered",
]

COVERS = ("artlib/common/VAT.py `VAT(data, distance_metric)` — the whole body: the `distance_metric is None` switch, the "
          "argmax / unravel_index seed, the `while remaining:` loop (np.ix_ sub-matrix, argmin, unravel_index, append, pop) "
          "and the final `pairwise_dist[np.ix_(indicies, indicies)]` — is translated (vtrans -> ArtGen/VAT.lean, numpy "
          "primitives through the generic helpers of ArtModel/ImpVAT.lean) and proved equal, for every n >= 1, every n x n "
          "matrix over a linear order and every fuel >= n - 1, to `Art.VAT.vat` = (`vatOrder`, `ixSub D idx idx`) of "
          "ArtModel/VAT.lean (`VAT_spec`); n = 0 raises (`VAT_empty`); the call with a metric equals the call on "
          "`squareform(distance_metric(data))` when that has `data.shape[0]` rows (`VAT_metric`); `squareform` and the "
          "callable `distance_metric` (scipy `pdist`) stay function parameters; NaN-free entries are assumed (the order is "
          "used through `<` only).")

# Everything the translator drops, each by an explicit rule, with the reason.
DROPPED = {
    "docstring": "the leading string-literal statement of the function: no effect",
    "annotations": "parameter and return annotations (`np.ndarray`, `Optional[Callable]`, `Tuple[...]`): no run-time effect; "
                   "the types of the generated parameters are fixed by the table PARAMS below",
    "default of distance_metric": "`lambda X: pdist(X, 'euclidean')` is the value used when the caller omits the argument; "
                                  "the generated definition always takes `distance_metric` explicitly (scipy's `pdist` is external)",
    "np.array(indicies)": "type cast list -> ndarray of the same integers: rendered as the list itself",
    "list(range(n))": "`list(...)` of a list-valued expression is a copy: rendered as the expression itself",
    "imports": "module-level `import` statements and the module docstring: only the function `VAT` is read",
}

# --- types: "nat" "num" ("list", t) ("prod", [t, t]) ("opt", t) ("fun", [t…], t)
NATS = ("list", "nat")
VEC = ("list", "num")
MAT = ("list", VEC)
SHAPE = ("prod", ["nat", "nat"])
IXT = ("prod", [NATS, NATS])

# the function that is translated: parameter names and types (fail closed when the signature differs)
PARAMS = [("data", MAT), ("distance_metric", ("opt", ("fun", [MAT], VEC)))]
RET = ("prod", [MAT, NATS])
# external functions: name -> (argument types, result type); they become function parameters
EXTERNALS = {"squareform": ([VEC], MAT)}
KEYWORDS = {"end": "«end»", "from": "«from»", "at": "«at»", "open": "«open»", "in": "«in»", "fun": "«fun»", "do": "«do»"}


def nm(s: str) -> str:
    return KEYWORDS.get(s, s)


def is_list(t) -> bool:
    return isinstance(t, tuple) and t[0] == "list"


def lty(t, top=True) -> str:
    """Lean text of a type; `top=False` parenthesises compound types"""
    if t == "nat":
        return "Nat"
    if t == "num":
        return "α"
    if not isinstance(t, tuple):
        raise Unsupported(f"type {t}")
    if t[0] == "list":
        if t[1] is None:
            raise Unsupported("element type of a list is never determined")
        s = f"List {lty(t[1], False)}"
    elif t[0] == "opt":
        s = f"Option {lty(t[1], False)}"
    elif t[0] == "prod":
        s = " × ".join(lty(x, False) for x in t[1])
    elif t[0] == "fun":
        s = " → ".join([lty(x, False) for x in t[1]] + [lty(t[2], False)])
    else:
        raise Unsupported(f"type {t}")
    return s if top else f"({s})"


class Ctx:
    def __init__(self):
        self.vars: dict[str, object] = {}       # python local -> type
        self.used: list[str] = []               # externals used (function parameters of the generated definitions)
        self.defs: list[str] = []               # named definitions emitted for loops
        self.fuels: list[str] = []              # fuel parameters of the main definition
        self.pending: dict[str, int] = {}       # `xs = []` lines whose element type is not known yet: var -> line index

    def copy(self):
        c = Ctx()
        c.vars = dict(self.vars)
        c.used, c.defs, c.fuels = self.used, self.defs, self.fuels
        c.pending = self.pending
        return c


def src(e) -> str:
    return ast.unparse(e)


def use_external(name, cx: Ctx):
    if name not in cx.used:
        cx.used.append(name)


def ex(e: ast.AST, cx: Ctx):
    """expression -> (Lean text, type); the text may contain nested actions `(← …)`"""
    if isinstance(e, ast.Name):
        if e.id not in cx.vars:
            raise Unsupported(f"unknown name {e.id}")
        return nm(e.id), cx.vars[e.id]
    if isinstance(e, ast.Constant):
        if isinstance(e.value, bool) or not isinstance(e.value, int) or e.value < 0:
            raise Unsupported(f"constant {e.value!r}")
        return str(e.value), "nat"
    if isinstance(e, ast.Tuple):
        parts = [ex(x, cx) for x in e.elts]
        if len(parts) != 2:
            raise Unsupported("tuple that is not a pair")
        return "(" + ", ".join(p[0] for p in parts) + ")", ("prod", [p[1] for p in parts])
    if isinstance(e, ast.BinOp):
        l, lt = ex(e.left, cx)
        r, rt = ex(e.right, cx)
        if isinstance(e.op, ast.Add) and lt == rt == "nat":
            return f"({l} + {r})", "nat"
        raise Unsupported(f"operator in {src(e)} on {lt}, {rt}")
    if isinstance(e, ast.Attribute):
        bt, bty = ex(e.value, cx)
        if e.attr == "shape" and bty == MAT:
            return f"({IMP}.npShape {bt})", SHAPE
        raise Unsupported(f"attribute .{e.attr} of {bty}")
    if isinstance(e, ast.Subscript):
        if isinstance(e.slice, ast.Slice):
            raise Unsupported(f"slice {src(e)}")
        bt, bty = ex(e.value, cx)
        if isinstance(bty, tuple) and bty[0] == "prod":
            if isinstance(e.slice, ast.Constant) and e.slice.value in (0, 1) and not isinstance(e.slice.value, bool):
                return f"{bt}.{e.slice.value + 1}", bty[1][e.slice.value]
            raise Unsupported(f"tuple index {src(e)}")
        it, ity = ex(e.slice, cx)
        if bty == MAT and ity == IXT:
            return f"(← {IMP}.npFancy2 {bt} {it})", MAT
        if is_list(bty) and ity == "nat":
            return f"(← {bt}[{it}]?)", bty[1]
        raise Unsupported(f"subscript of {bty} by {ity}: {src(e)}")
    if isinstance(e, ast.Compare) and len(e.ops) == 1:
        c = e.comparators[0]
        if isinstance(e.ops[0], ast.Is) and isinstance(c, ast.Constant) and c.value is None:
            l, lt = ex(e.left, cx)
            if not (isinstance(lt, tuple) and lt[0] == "opt"):
                raise Unsupported(f"`is None` on a value that is not optional: {src(e)}")
            return f"{l}.isNone", "bool"
        raise Unsupported(f"comparison {src(e)}")
    if isinstance(e, ast.Call):
        return call(e, cx)
    raise Unsupported(f"expression {type(e).__name__}: {src(e)}")


def call(e: ast.Call, cx: Ctx):
    f = e.func
    if e.keywords or any(isinstance(a, ast.Starred) for a in e.args):
        raise Unsupported(f"keyword / starred arguments in {src(e)}")
    if isinstance(f, ast.Name):
        if f.id == "range" and len(e.args) == 1:
            a, t = ex(e.args[0], cx)
            if t != "nat":
                raise Unsupported("range of a non-integer")
            return f"(List.range {a})", NATS
        if f.id == "list" and len(e.args) == 1:
            a, t = ex(e.args[0], cx)
            if not is_list(t):
                raise Unsupported("list(...) of a non-list")
            return a, t                                  # DROPPED["list(range(n))"]
        if f.id == "len" and len(e.args) == 1:
            a, t = ex(e.args[0], cx)
            if not is_list(t):
                raise Unsupported("len of a non-list")
            return f"{a}.length", "nat"
        if f.id in EXTERNALS:
            atys, rty = EXTERNALS[f.id]
            if len(e.args) != len(atys):
                raise Unsupported(f"{f.id} called with {len(e.args)} arguments")
            args = []
            for a, want in zip(e.args, atys):
                t_, ty = ex(a, cx)
                if ty != want:
                    raise Unsupported(f"{f.id}: argument of type {ty}, {want} expected")
                args.append(t_)
            use_external(f.id, cx)
            return f"({f.id} " + " ".join(args) + ")", rty
        if f.id in cx.vars:
            ft = cx.vars[f.id]
            if isinstance(ft, tuple) and ft[0] == "opt" and isinstance(ft[1], tuple) and ft[1][0] == "fun":
                atys, rty = ft[1][1], ft[1][2]
                if len(e.args) != len(atys):
                    raise Unsupported(f"{f.id} called with {len(e.args)} arguments")
                args = []
                for a, want in zip(e.args, atys):
                    t_, ty = ex(a, cx)
                    if ty != want:
                        raise Unsupported(f"{f.id}: argument of type {ty}, {want} expected")
                    args.append(t_)
                return f"((← {nm(f.id)}) " + " ".join(args) + ")", rty
            raise Unsupported(f"call of {f.id} : {ft}")
        raise Unsupported(f"function {f.id}")
    if isinstance(f, ast.Attribute):
        if isinstance(f.value, ast.Name) and f.value.id == "np" and "np" not in cx.vars:
            if f.attr == "unravel_index" and len(e.args) == 2:
                p, pt = ex(e.args[0], cx)
                s, st = ex(e.args[1], cx)
                if pt != "nat" or st != SHAPE:
                    raise Unsupported(f"np.unravel_index of {pt}, {st}")
                return f"(← {IMP}.npUnravel {p} {s})", SHAPE
            if f.attr == "ix_" and len(e.args) == 2:
                a, at = ex(e.args[0], cx)
                b, bt = ex(e.args[1], cx)
                if at != NATS or bt != NATS:
                    raise Unsupported(f"np.ix_ of {at}, {bt}")
                return f"({IMP}.npIx {a} {b})", IXT
            if f.attr == "array" and len(e.args) == 1:
                a, t = ex(e.args[0], cx)
                if t != NATS:
                    raise Unsupported(f"np.array of {t}")
                return a, t                              # DROPPED["np.array(indicies)"]
            raise Unsupported(f"numpy function np.{f.attr}")
        if f.attr in ("argmax", "argmin") and not e.args:
            bt, bty = ex(f.value, cx)
            fn = "npArgmax" if f.attr == "argmax" else "npArgmin"
            if bty == MAT:
                return f"(← {IMP}.{fn} ({IMP}.npRavel {bt}))", "nat"
            if bty == VEC:
                return f"(← {IMP}.{fn} {bt})", "nat"
            raise Unsupported(f".{f.attr}() of {bty}")
        raise Unsupported(f"method call {src(e)}")
    raise Unsupported(f"call {src(e)}")


def cond(e: ast.AST, cx: Ctx) -> str:
    """an expression in condition position"""
    t_, ty = ex(e, cx)
    if ty == "bool":
        return t_
    if is_list(ty):
        if "←" in t_:
            raise Unsupported("a list-valued condition that may raise")
        return f"(!{t_}.isEmpty)"
    raise Unsupported(f"condition of type {ty}: {src(e)}")


# ---------------------------------------------------------------- statements


def bound_names(stmts) -> list[str]:
    """names (re-)bound by the statements, in order of first binding: assignment targets, `xs.append`, `xs.pop`"""
    out = []

    def add(x):
        if x != "_" and x not in out:
            out.append(x)

    class V(ast.NodeVisitor):
        def visit_Assign(self, n):
            for t in n.targets:
                for x in ([t] if isinstance(t, ast.Name) else t.elts if isinstance(t, ast.Tuple) else []):
                    if isinstance(x, ast.Name):
                        add(x.id)
            self.generic_visit(n)

        def visit_Expr(self, n):
            v = n.value
            if isinstance(v, ast.Call) and isinstance(v.func, ast.Attribute) and v.func.attr in ("append", "pop") \
                    and isinstance(v.func.value, ast.Name):
                add(v.func.value.id)
            self.generic_visit(n)

    for s in stmts:
        V().visit(s)
    return out


def read_names(nodes) -> list[str]:
    out = []
    for s in nodes:
        for n in ast.walk(s):
            if isinstance(n, ast.Name) and n.id not in out:
                out.append(n.id)
    return out


def pack(vs) -> str:
    return "()" if not vs else nm(vs[0]) if len(vs) == 1 else "(" + ", ".join(nm(v) for v in vs) + ")"


def pack_ty(ts) -> str:
    return "Unit" if not ts else lty(ts[0]) if len(ts) == 1 else " × ".join(lty(t, False) for t in ts)


def block(stmts, cx: Ctx, fname: str, out: list, ret_ty, I="  "):
    """translate a statement list, appending Lean `do` lines to `out`"""
    for idx, s in enumerate(stmts):
        if isinstance(s, ast.Expr) and isinstance(s.value, ast.Constant) and isinstance(s.value.value, str):
            continue                                     # DROPPED["docstring"]
        if isinstance(s, ast.Return):
            if idx != len(stmts) - 1 or ret_ty is None:
                raise Unsupported("return that is not the last statement of the function")
            if s.value is None:
                raise Unsupported("bare return")
            v, vt = ex(s.value, cx)
            if vt != ret_ty:
                raise Unsupported(f"return value of type {vt}, {ret_ty} expected")
            out.append(I + f"pure {v}")
            return True
        if isinstance(s, ast.Assign):
            if len(s.targets) != 1:
                raise Unsupported("chained assignment")
            t = s.targets[0]
            if isinstance(t, ast.Name):
                if t.id == "_":
                    raise Unsupported("assignment to _")
                if isinstance(s.value, ast.List):
                    if s.value.elts:
                        raise Unsupported("non-empty list literal")
                    cx.vars[t.id] = ("list", None)       # the element type comes from the first append
                    cx.pending[t.id] = len(out)
                    out.append(I + f"let {nm(t.id)} := ([] : List ?)")
                    continue
                v, vt = ex(s.value, cx)
                out.append(I + f"let {nm(t.id)} := {v}")
                cx.vars[t.id] = vt
                continue
            if isinstance(t, ast.Tuple) and len(t.elts) == 2 and all(isinstance(x, ast.Name) for x in t.elts):
                v, vt = ex(s.value, cx)
                if not (isinstance(vt, tuple) and vt[0] == "prod" and len(vt[1]) == 2):
                    raise Unsupported(f"unpacking of a value of type {vt}")
                names = [x.id for x in t.elts]
                if names[0] == names[1] and names[0] != "_":
                    raise Unsupported("the same name twice in an unpacking")
                out.append(I + f"let ({nm(names[0])}, {nm(names[1])}) := {v}")
                for x, ty in zip(names, vt[1]):
                    if x != "_":
                        cx.vars[x] = ty
                continue
            raise Unsupported(f"assignment target {src(t)}")
        if isinstance(s, ast.Expr) and isinstance(s.value, ast.Call) and isinstance(s.value.func, ast.Attribute) \
                and isinstance(s.value.func.value, ast.Name) and s.value.func.attr in ("append", "pop"):
            c = s.value
            x = c.func.value.id
            lt = cx.vars.get(x)
            if not is_list(lt) or len(c.args) != 1 or c.keywords:
                raise Unsupported(f"statement {src(s)}")
            if c.func.attr == "append":
                v, vt = ex(c.args[0], cx)
                if lt[1] is None:
                    cx.vars[x] = ("list", vt)
                    k = cx.pending.pop(x)
                    out[k] = out[k].replace("List ?", lty(("list", vt)))
                elif lt[1] != vt:
                    raise Unsupported(f"append of a {vt} to a list of {lt[1]}")
                out.append(I + f"let {nm(x)} := {nm(x)} ++ [{v}]")
            else:
                k, kt = ex(c.args[0], cx)
                if kt != "nat":
                    raise Unsupported(f"pop at an index of type {kt}")
                out.append(I + f"let {nm(x)} ← {IMP}.pyPop {nm(x)} {k}")
            continue
        if isinstance(s, ast.If):
            if any(isinstance(n, (ast.Return, ast.Break, ast.Continue)) for b in s.body + s.orelse for n in ast.walk(b)):
                raise Unsupported("return / break / continue inside if")
            c = cond(s.test, cx)
            b1, b2 = bound_names(s.body), bound_names(s.orelse)
            vs = [v for v in dict.fromkeys(b1 + b2) if v in cx.vars or (v in b1 and v in b2)]
            for v in dict.fromkeys(b1 + b2):
                if v not in vs and v in read_names(stmts[idx + 1:]):
                    raise Unsupported(f"{v} is bound in one branch of an if only and read afterwards")
            c1, c2 = cx.copy(), cx.copy()
            o1, o2 = [], []
            block(s.body, c1, fname, o1, None, I + "    ")
            block(s.orelse, c2, fname, o2, None, I + "    ")
            for v in vs:
                t1, t2 = c1.vars.get(v), c2.vars.get(v)
                if t1 != t2 or t1 is None:
                    raise Unsupported(f"{v} has type {t1} in one branch and {t2} in the other")
                cx.vars[v] = t1
            out.append(I + f"let {pack(vs)} ← if {c} then (do")
            out += o1
            out.append(I + f"    pure {pack(vs)})")
            out.append(I + "  else (do")
            out += o2
            out.append(I + f"    pure {pack(vs)})")
            continue
        if isinstance(s, ast.While):
            if s.orelse or any(isinstance(n, (ast.Return, ast.Break, ast.Continue)) for b in s.body for n in ast.walk(b)):
                raise Unsupported("while with else / return / break / continue")
            k = len(cx.fuels)
            fuel = "fuel" if k == 0 else f"fuel{k}"
            cx.fuels.append(fuel)
            vs = [v for v in bound_names(s.body) if v in cx.vars]
            tys = [cx.vars[v] for v in vs]
            for v, t in zip(vs, tys):
                if is_list(t) and t[1] is None:
                    raise Unsupported(f"element type of {v} is not known at the loop")
            free = [v for v in read_names([s.test] + s.body) if v in cx.vars and v not in vs]
            inner = cx.copy()
            inner.used = []
            cnd = cond(s.test, inner)
            ob = []
            block(s.body, inner, fname, ob, None, "    ")
            for v, t in zip(vs, tys):
                if inner.vars[v] != t:
                    raise Unsupported(f"{v} changes its type in the loop: {t} -> {inner.vars[v]}")
            for x in inner.used:
                use_external(x, cx)
            ext = list(inner.used)
            binders = "".join(f" ({x} : {lty(('fun', EXTERNALS[x][0], EXTERNALS[x][1]))})" for x in ext) + \
                "".join(f" ({nm(v)} : {lty(cx.vars[v])})" for v in free)
            args = "".join(f" {x}" for x in ext) + "".join(f" {nm(v)}" for v in free)
            st = pack_ty(tys)
            cname, bname = f"{fname}_while{k}_cond", f"{fname}_while{k}_body"
            cx.defs.append(
                f"/-- the condition `{src(s.test)}` of loop {k} of `{fname}`, on the loop-carried variables -/\n"
                f"def {cname}{binders} : {st} → Bool :=\n  fun {pack(vs)} => {cnd}\n")
            cx.defs.append(
                f"/-- the body of loop {k} of `{fname}` (`while {src(s.test)}:`) -/\n"
                f"def {bname}{binders} : {st} → Option ({st}) :=\n  fun {pack(vs)} => do\n" + "\n".join(ob) +
                f"\n    pure {pack(vs)}\n")
            out.append(I + f"let {pack(vs)} ← {IMP}.whileOpt ({cname}{args}) ({bname}{args}) {fuel} {pack(vs)}")
            continue
        raise Unsupported(f"statement {type(s).__name__}: {src(s)[:80]}")
    if ret_ty is not None:
        raise Unsupported("function falls off its end")
    return False


PRELUDE = '''/-
GENERATED by harness/artv/vtrans.py from {file} — do not edit.
Regenerated on every run of the checks that name it; ArtGenProofs/VATSpec.lean proves `VAT` equal to `Art.VAT.vat`
(ArtModel/VAT.lean).  `none` = the Python code raises (or the explicit loop fuel ran out).
-/
import ArtModel.ImpVAT

set_option linter.unusedVariables false

namespace Art.Gen.VAT
open Art

section
variable {α : Type} [LT α] [DecidableRel (α := α) (· < ·)]

'''


def find_function(tree: ast.Module, name: str) -> ast.FunctionDef:
    fs = [n for n in tree.body if isinstance(n, ast.FunctionDef) and n.name == name]
    if len(fs) != 1:
        raise Unsupported(f"function {name} not found exactly once")
    return fs[0]


def translate_vat(tree: ast.Module) -> str:
    f = find_function(tree, "VAT")
    a = f.args
    if a.vararg or a.kwarg or a.kwonlyargs or a.posonlyargs or f.decorator_list:
        raise Unsupported("VAT: signature with *args / **kwargs / keyword-only parameters / decorators")
    got = [x.arg for x in a.args]
    if got != [p for p, _ in PARAMS]:
        raise Unsupported(f"VAT has parameters {got}, the translator knows {[p for p, _ in PARAMS]}")
    cx = Ctx()
    for p, t in PARAMS:
        cx.vars[p] = t
    out = []
    block(list(f.body), cx, "VAT", out, RET, "  ")
    if cx.pending:
        raise Unsupported(f"element type of the empty list(s) {sorted(cx.pending)} is never determined")
    ext = "".join(f" ({x} : {lty(('fun', EXTERNALS[x][0], EXTERNALS[x][1]))})" for x in cx.used)
    fuels = "".join(f" ({x} : Nat)" for x in cx.fuels)
    params = "".join(f" ({nm(p)} : {lty(t)})" for p, t in PARAMS)
    text = "".join(d + "\n" for d in cx.defs)
    text += ("/-- `VAT(data, distance_metric)`; externals first, then the loop fuel, then the Python parameters -/\n"
             f"def VAT{ext}{fuels}{params} :\n    Option ({lty(RET)}) := do\n" + "\n".join(out) + "\n")
    return text


def generate(repo: Path) -> str:
    tree = ast.parse((Path(repo) / FILE).read_text())
    return PRELUDE.replace("{file}", FILE) + translate_vat(tree) + "\nend\n\nend Art.Gen.VAT\n"


def write(repo: Path = None) -> tuple[bool, str]:
    repo = Path(repo or os.environ.get("VERIF_REPO", "/repo"))
    try:
        text = generate(repo)
    except (Unsupported, SyntaxError, OSError, KeyError, AttributeError, TypeError, IndexError) as e:
        return False, f"VAT translator failed closed: {type(e).__name__}: {e}"
    if not OUT.exists() or OUT.read_text() != text:
        tmp = OUT.with_suffix(".lean.tmp%d" % os.getpid())
        tmp.write_text(text)
        os.replace(tmp, OUT)
    return True, "generated"


if __name__ == "__main__":
    import sys
    ok, msg = write(sys.argv[1] if len(sys.argv) > 1 else None)
    print(msg)
    sys.exit(0 if ok else 1)
