"""DualVigilanceART translator: the Python AST of `artlib/topological/DualVigilanceART.py`  ->  Lean 4 definitions.

`ctrans.py` translates the imperative training code of BaseART / SimpleARTMAP.  `DualVigilanceART.step_fit` is a loop
of its own (`while any(T > 0)`, a three-way decision, a category -> cluster dict) that drives a *nested* base module.
This module is a further *profile* of the control-flow translator: it re-uses ctrans' statement and expression
translation (`tr_block`, `ext`, `Env`, the join / continuation rules for `if`, the zip / comprehension rules …)
unchanged, and adds the rules below for what only this file contains.  ctrans.py itself is not edited: while
`generate` runs, the profile tables of ctrans and its two dispatchers `ext` / `tr_block` are swapped for wrappers that
try the rules of this module first and otherwise call the original (so sub-expressions of old constructs may use new
constructs and vice versa); everything is restored in a `finally`.

It writes `lean/ArtGen/Dual.lean`; `lean/ArtGenProofs/DualSpec.lean` proves the generated `step_fit`, `step_pred`
and `n_clusters` equal to the model's `dualStepFit`, `dualStepPred`, `nClusters` (ArtModel/DualVig.lean) for all
arguments, under a kernel contract on the base module's methods.

The translation is syntax-directed.  Rules inherited from ctrans (see its docstring):
  x = e ; self.a = e ; self.a += e ; v[i] = e ; v[:] = e ; d[k] = e (dict)  ->  let …  (shadowing = re-binding)
  self.<nested>.<field>  /  self.<nested>.<field> = e     ->  self_base.field  /  let self_base := { self_base with field := e }
  if / else with and without return ; return e ; a, b = zip(*[…]) ; [e for v in xs] ; len ; int(np.nanargmax(T)) ;
  int(np.argmax(T)) ; np.array(e) ; deepcopy(e) ; np.nan ; f is None (callback) ; callback calls ; and / or / not ; + ;
  self.m(args) with m in INLINE (`_set_params`, `_deep_copy_params`): the translated body of DualVigilanceART.m
Rules of this module:
  self.base_module.m(args), m a kernel method   ->  (E.m args)         `category_choice` also receives `self_base.W`
        (category_choice / match_criterion_bin / update / new_weight; argument order and names are read from
         BaseART's own signature, keywords are resolved against it)
  self.base_module.add_weight(v)                 ->  let self_base := E.add_weight self_base v
  self.base_module.set_weight(i, v)              ->  let self_base := E.set_weight self_base i v
  self._match_tracking_operator(m)  (inherited)  ->  (E.operator m)
  b = self._match_tracking(c, eps, p, m)         ->  let (b, mt_params_) := E.match_tracking c eps self_base.params m
                                                     let self_base := { self_base with params := mt_params_ }
        (the callee's source is inspected: it must write exactly `self.base_module.params`, and its `params`
         parameter must be unread — then the argument `p` is dropped, see DROPPED)
  while c: B ; rest                              ->  match whileFuel (fun vars => c) (fun vars => B) fuel vars with …
        (ctrans' rule, re-emitted here only because the helper definitions are typed over `DualExt`)
  v > 0            (v a vector with NaNs)        ->  (Art.Imp.vecGtZero v)           : List Bool
  any(bs)          (bs a list of Bool)           ->  ((bs).any id)
  max(ns)          (ns a list of Nat)            ->  (Art.mapMax ns)                 (0 where Python raises on [])
  d.values()       (d a dict)                    ->  (Art.Imp.dictValues d)
  set(ns)          (ns a list of Nat)            ->  ((ns).eraseDups)                (a set as its list of distinct members)
  (e for v in xs)                                ->  as the list comprehension [e for v in xs]
  {k1: v1, …}      (Nat keys and values)         ->  (Art.mapPut (… (Art.mapPut [] k1 v1) …) kn vn)
  dict(p, **{"key": v})  (p a params dict)       ->  (E.dict_with p "key" v)
Anything else raises `Unsupported`: the translator fails closed.
"""
from __future__ import annotations

import ast
import os
import sys
from contextlib import contextmanager
from pathlib import Path

from . import ctrans as C
from .ktrans import Unsupported, find_function

VERIF = Path(__file__).resolve().parents[2]
FILE = "artlib/topological/DualVigilanceART.py"
BASE_FILE = C.BASE
CLS = "DualVigilanceART"
NAMESPACE = "Art.Gen.DualVigilanceART"
EXT_TY = "Art.Imp.DualExt Xt Wt P C α"
HEADER_CLASSES = "{Xt Wt P C α : Type} [LT α] [DecidableRel (α := α) (· < ·)] [Zero α] [Inhabited Wt] [Inhabited C]"

COVERS = ("DualVigilanceART.step_fit (with the inlined _set_params / _deep_copy_params), step_pred and the n_clusters "
          "property are translated from artlib/topological/DualVigilanceART.py and proved equal to the model's "
          "dualStepFit (= dualApply ∘ dualDecide ∘ dualStepSearch ∘ dualSearch), dualStepPred and nClusters / mapMax of "
          "ArtModel/DualVig.lean, with the base module's params restored; the base module's category_choice, "
          "match_criterion_bin, update, new_weight, add_weight, set_weight, the inherited _match_tracking_operator, the "
          "wrapper's _match_tracking (translated by ktrans) and dict(params, rho=…) are fields of the structure "
          "Art.Imp.DualExt constrained by the contract Art.GenSpec.Dual.Contract.")

THEOREMS = [
    "Dual.loop_follows_dualSearch",
    "Dual.body_spec",
    "Dual.step_fit_spec",
    "Dual.step_fit_restores_params",
    "Dual.step_fit_first_sample",
    "Dual.step_pred_spec",
    "Dual.step_pred_spec_inv",
    "Dual.n_clusters_spec",
    "Dual.scalar_contract",
    "Dual.scalar_step_fit",
    "Dual.gen_step_fit_inv",
    "Dual.gen_upper_bound",
]

# what is dropped, by which explicit rule, and why
DROPPED = {
    "docstrings": "ctrans.strip_doc: no effect",
    "assert statements": "ctrans.tr_block drops ast.Assert (`assert len(self.base_module.W) >= 0` in step_pred; the "
                         "isinstance asserts of _match_tracking): the theorems are about calls on valid data",
    "type annotations and parameter defaults": "defaults are never substituted: every call site of a translated method "
                                               "must supply every argument, otherwise Unsupported",
    "np.array(e), int(e) of an index, deepcopy(e)": "ctrans.ext renders these casts / copies as the identity: Lean "
                                                    "values are immutable and the index is already a Nat",
    "the `params` argument of self._match_tracking(cache, epsilon, self.params, method)":
        "rule `match_tracking_stmt`: dropped only after checking in the callee's source that its parameter `params` "
        "is not read outside assert statements (the wrapper's own params dict plays no role in the rule)",
    "exceptions": "a KeyError of `self.map[c]` reads as 0 (`getD 0`), an IndexError of `W[c]` / `T_cache[c]` as the "
                  "default element (`[c]!`), `max([])` as 0; the spec theorems show these defaults are never reached "
                  "from a consistent state (they are stated under `map.length = W.length`)",
}

# the profile: same keys as ctrans.PROFILES[...]
PROFILE = dict(
    SELF_FIELDS={"base_module": ("self_base", "base"), "map": ("self_map", "map"), "sample_counter_": ("self_n", "n"),
                 "rho_lower_bound": ("self_rho_lb", "rho_lower_bound")},
    SELF_TYPES={"base_module": "Art.Imp.Self Wt P", "map": "dict", "sample_counter_": "Nat", "rho_lower_bound": "α"},
    SELF_TY="Art.Imp.DualSelf Wt P α",
    METHOD_RET={"step_fit": "Nat", "step_pred": "Nat", "n_clusters": "Nat"},
    TRANSLATED=["step_fit", "step_pred", "n_clusters"],
    INLINE={"_set_params", "_deep_copy_params"}, PURE_INLINE=set(),
    NESTED={"base_module": "BaseART"}, NAMESPACE=NAMESPACE, FILE=FILE,
    PARAM_TYPES=dict(C.PROFILES["BaseART"]["PARAM_TYPES"]), IGNORED_PARAMS=set(), WRITE_ONLY=set(), HAS_FLAGS={},
    # not profile keys of ctrans, but module globals its functions read:
    EXTERNAL={},                      # self-calls are handled by the rules below (or fail closed)
    GUARDS=set(), GUARD_FUNCS=set(),
    HEADER_CLASSES=HEADER_CLASSES,
)

A = ("opt", "α")
# kernel methods of the base module: name -> (field of E, parameter names after self in BaseART, attributes of the base
# module the method reads and therefore receives, return type)
NESTED_EXTERNAL = {
    "category_choice": ("category_choice", ["i", "w", "params"], ["W"], ("prod", [A, "C"])),
    "match_criterion_bin": ("match_criterion_bin", ["i", "w", "params", "cache", "op"], [], ("prod", ["Bool", "C"])),
    "update": ("update", ["i", "w", "params", "cache"], [], "Wt"),
    "new_weight": ("new_weight", ["i", "params"], [], "Wt"),
}
# state-writing methods of the base module: name -> (field of E, parameter names after self in BaseART)
NESTED_WRITERS = {"add_weight": ("add_weight", ["new_w"]), "set_weight": ("set_weight", ["idx", "new_w"])}
# methods of the wrapper kept abstract
INHERITED_EXTERNAL = {"_match_tracking_operator": ("operator", ["method"], "Bool")}
MATCH_TRACKING = ("_match_tracking", "match_tracking", ["cache", "epsilon", "params", "method"], ("base_module", "params"))
# argument types of the kernel methods (the translator checks what it passes)
ARG_TYPES = {"i": "Xt", "w": "Wt", "params": "P", "cache": "C", "op": "Bool", "new_w": "Wt", "idx": "Nat",
             "method": "Art.MT", "epsilon": "α"}

_ORIG = {}


def base_signature(env, m: str) -> list[str]:
    """parameter names (after self) of BaseART.m, read from BaseART's source"""
    f = find_function(env.trees["BaseART"], "BaseART", m)
    a = f.args
    if a.vararg or a.kwarg or a.kwonlyargs or a.posonlyargs:
        raise Unsupported(f"BaseART.{m}: signature")
    names = [x.arg for x in a.args]
    is_static = any(isinstance(d, ast.Name) and d.id == "staticmethod" for d in f.decorator_list)
    return names if is_static else names[1:]


def class_defines(env, m: str) -> bool:
    for node in env.tree.body:
        if isinstance(node, ast.ClassDef) and node.name == env.cls:
            return any(isinstance(f, ast.FunctionDef) and f.name == m for f in node.body)
    return False


def check_inherits_base(env):
    for node in env.tree.body:
        if isinstance(node, ast.ClassDef) and node.name == env.cls:
            if [ast.unparse(b) for b in node.bases] != ["BaseART"]:
                raise Unsupported(f"{env.cls} does not derive from BaseART alone")
            return
    raise Unsupported(f"class {env.cls} not found")


def typed_args(call, names, what, env):
    out = []
    for n_, a_ in zip(names, C.order_args(call, names, what)):
        t_, ty_ = C.ext(a_, env)
        if ARG_TYPES.get(n_) != ty_:
            raise Unsupported(f"{what}: argument {n_} has type {ty_}, expected {ARG_TYPES.get(n_)}")
        out.append(t_ if t_.replace("_", "a").replace(".", "a").isalnum() else f"({t_})")
    return out


def nested_method(e):
    """self.<nested>.<m>(…)  ->  (attribute, m, call)"""
    if isinstance(e, ast.Call) and isinstance(e.func, ast.Attribute) and C.is_self_attr(e.func.value) in C.NESTED:
        return C.is_self_attr(e.func.value), e.func.attr, e
    return None


# ---------------------------------------------------------------------------------------------- expressions

def d_ext(e: ast.AST, env):
    nm = nested_method(e)
    if nm:
        attr, m, call = nm
        if m not in NESTED_EXTERNAL:
            raise Unsupported(f"call of self.{attr}.{m} inside an expression")
        field, names, reads, rty = NESTED_EXTERNAL[m]
        if base_signature(env, m) != names:
            raise Unsupported(f"signature of BaseART.{m} is {base_signature(env, m)}")
        obj = C.SELF_FIELDS[attr][0]
        rd = [f"{obj}.{C.NESTED_FIELD[r_][0]}" for r_ in reads]
        return "(E." + field + " " + " ".join(rd + typed_args(call, names, m, env)) + ")", rty
    sc = C.self_call(e)
    if sc:
        m, call = sc
        if m in INHERITED_EXTERNAL:
            field, names, rty = INHERITED_EXTERNAL[m]
            if class_defines(env, m):
                raise Unsupported(f"{env.cls} overrides {m}")
            check_inherits_base(env)
            if base_signature(env, m) != names:
                raise Unsupported(f"signature of BaseART.{m} is {base_signature(env, m)}")
            return "(E." + field + " " + " ".join(typed_args(call, names, m, env)) + ")", rty
        if m == MATCH_TRACKING[0]:
            raise Unsupported(f"self.{m} writes the base module's params and is used inside an expression")
    if isinstance(e, ast.GeneratorExp):
        return C.ext(ast.copy_location(ast.ListComp(elt=e.elt, generators=e.generators), e), env)
    if isinstance(e, ast.Compare) and len(e.ops) == 1 and isinstance(e.ops[0], ast.Gt):
        r = e.comparators[0]
        lt, lty = C.ext(e.left, env)
        if lty == ("list", A) and isinstance(r, ast.Constant) and type(r.value) is int and r.value == 0:
            return f"(Art.Imp.vecGtZero {lt})", ("list", "Bool")
        raise Unsupported(f"comparison {ast.unparse(e)}")
    if isinstance(e, ast.Dict):
        t = "[]"
        if not e.keys:
            raise Unsupported("empty dict literal")
        for k_, v_ in zip(e.keys, e.values):
            if k_ is None:
                raise Unsupported("dict unpacking in a literal")
            (kt, kty), (vt, vty) = C.ext(k_, env), C.ext(v_, env)
            if kty != "Nat" or vty != "Nat":
                raise Unsupported(f"dict literal {ast.unparse(e)}: entries of type {kty}: {vty}")
            t = f"(Art.mapPut {t} {C.arg(k_, env)} {C.arg(v_, env)})"
        return t, "dict"
    if isinstance(e, ast.Call) and isinstance(e.func, ast.Name):
        fn = e.func.id
        if fn == "any" and len(e.args) == 1 and not e.keywords and not ast.unparse(e).startswith("any(~np.isnan("):
            t, ty = C.ext(e.args[0], env)
            if ty != ("list", "Bool"):
                raise Unsupported(f"any over {ty}")
            return f"(({t}).any id)", "Bool"
        if fn == "max" and len(e.args) == 1 and not e.keywords:
            t, ty = C.ext(e.args[0], env)
            if ty != ("list", "Nat"):
                raise Unsupported(f"max over {ty}")
            return f"(Art.mapMax {t})", "Nat"
        if fn == "set" and len(e.args) == 1 and not e.keywords:
            t, ty = C.ext(e.args[0], env)
            if ty != ("list", "Nat"):
                raise Unsupported(f"set of {ty}")
            return f"(({t}).eraseDups)", ("list", "Nat")
        if fn == "dict" and len(e.args) == 1 and len(e.keywords) == 1 and e.keywords[0].arg is None:
            d = e.keywords[0].value
            pt, pty = C.ext(e.args[0], env)
            if pty != "P" or not (isinstance(d, ast.Dict) and len(d.keys) == 1 and isinstance(d.keys[0], ast.Constant)
                                  and isinstance(d.keys[0].value, str) and d.keys[0].value.isidentifier()):
                raise Unsupported(f"dict update {ast.unparse(e)}")
            vt, vty = C.ext(d.values[0], env)
            if vty != "α":
                raise Unsupported(f"dict update with a value of type {vty}")
            return f'(E.dict_with {C.arg(e.args[0], env)} "{d.keys[0].value}" {C.arg(d.values[0], env)})', "P"
    if isinstance(e, ast.Call) and isinstance(e.func, ast.Attribute) and e.func.attr == "values" and not e.args and not e.keywords:
        t, ty = C.ext(e.func.value, env)
        if ty != "dict":
            raise Unsupported(f".values() of {ty}")
        return f"(Art.Imp.dictValues {t})", ("list", "Nat")
    return _ORIG["ext"](e, env)


# ----------------------------------------------------------------------------------------------- statements

def reads_name_outside_asserts(f: ast.FunctionDef, name: str) -> bool:
    def walk(stmts):
        for s in stmts:
            if isinstance(s, ast.Assert):
                continue
            for fld in ("body", "orelse", "finalbody"):
                sub = getattr(s, fld, None)
                if isinstance(sub, list) and sub and isinstance(sub[0], ast.stmt):
                    if walk(sub):
                        return True
            shallow = [getattr(s, x) for x in ("test", "value", "target", "iter", "exc", "cause") if getattr(s, x, None) is not None]
            shallow += list(getattr(s, "targets", []))
            for x in shallow:
                for n in ast.walk(x):
                    if isinstance(n, ast.Name) and n.id == name:
                        return True
            if not isinstance(s, (ast.Assign, ast.AugAssign, ast.AnnAssign, ast.Expr, ast.Return, ast.If, ast.Raise, ast.Pass)):
                raise Unsupported(f"{f.name}: statement {type(s).__name__}")
        return False
    return walk(C.strip_doc(f.body))


def nested_attrs_written(f: ast.FunctionDef) -> set:
    """{(obj, field)} for every store into self.<obj>.<field>[…]; any other store into self fails closed"""
    out = set()
    for n in ast.walk(f):
        tgts = []
        if isinstance(n, ast.Assign):
            tgts = n.targets
        elif isinstance(n, (ast.AugAssign, ast.AnnAssign)):
            tgts = [n.target]
        for t in tgts:
            while isinstance(t, ast.Subscript):
                t = t.value
            if isinstance(t, ast.Name):
                continue
            if isinstance(t, ast.Attribute) and C.is_self_attr(t.value) is not None:
                out.add((C.is_self_attr(t.value), t.attr))
                continue
            raise Unsupported(f"{f.name} stores into {ast.unparse(t)}")
        if isinstance(n, ast.Call) and isinstance(n.func, ast.Attribute) and ast.unparse(n.func).startswith("self."):
            raise Unsupported(f"{f.name} calls {ast.unparse(n.func)}")
    return out


def match_tracking_stmt(s: ast.Assign, env) -> list[str]:
    m, field, names, (obj, fld) = MATCH_TRACKING
    call = s.value
    if not class_defines(env, m):
        raise Unsupported(f"{env.cls} does not define {m}")
    f = find_function(env.tree, env.cls, m)
    if C.signature_of(env, m) != names:
        raise Unsupported(f"signature of {m} is {C.signature_of(env, m)}")
    if nested_attrs_written(f) != {(obj, fld)}:
        raise Unsupported(f"{m} writes {sorted(nested_attrs_written(f))}")
    if reads_name_outside_asserts(f, "params"):
        raise Unsupported(f"{m} reads its `params` argument")
    args = C.order_args(call, names, m)
    txt = []
    for n_, a_ in zip(names, args):
        if n_ == "params":
            if C.is_self_attr(a_) != "params":                         # dropped (see DROPPED): only the wrapper's own dict
                raise Unsupported(f"{m}: argument params is {ast.unparse(a_)}, expected self.params")
            txt.append(f"{C.SELF_FIELDS[obj][0]}.{C.NESTED_FIELD[fld][0]}")
            continue
        t_, ty_ = C.ext(a_, env)
        if ARG_TYPES[n_] != ty_:
            raise Unsupported(f"{m}: argument {n_} has type {ty_}")
        txt.append(C.arg(a_, env))
    old = C.SELF_FIELDS[obj][0]
    r = env.bind(s.targets[0].id, "Bool")
    v = env.bind_self(obj)
    return [f"let ({r}, mt_params_) := E.{field} " + " ".join(txt),
            f"let {v} := {{ {old} with {C.NESTED_FIELD[fld][0]} := mt_params_ }}"]


def d_tr_block(stmts, env, k):
    stmts = C.strip_doc(stmts)
    if not stmts:
        return k.fall(env)
    s, rest = stmts[0], stmts[1:]
    if isinstance(s, ast.Expr) and nested_method(s.value):
        attr, m, call = nested_method(s.value)
        if m not in NESTED_WRITERS:
            raise Unsupported(f"call of self.{attr}.{m} as a statement")
        field, names = NESTED_WRITERS[m]
        if base_signature(env, m) != names:
            raise Unsupported(f"signature of BaseART.{m} is {base_signature(env, m)}")
        args = typed_args(call, names, m, env)
        old = C.SELF_FIELDS[attr][0]
        v = env.bind_self(attr)
        return [f"let {v} := E.{field} {old} " + " ".join(args)] + C.tr_block(rest, env, k)
    if isinstance(s, ast.Assign) and len(s.targets) == 1 and isinstance(s.targets[0], ast.Name) and nested_method(s.value):
        rhs, rty = C.ext(s.value, env)       # x = self.base_module.m(…): the expression rule, then ctrans' `x = e`
        v = env.bind(s.targets[0].id, rty)
        return [f"let {v} := {rhs}"] + C.tr_block(rest, env, k)
    if isinstance(s, ast.Assign) and len(s.targets) == 1 and isinstance(s.targets[0], ast.Name) and C.self_call(s.value) \
            and C.self_call(s.value)[0] == MATCH_TRACKING[0]:
        return match_tracking_stmt(s, env) + C.tr_block(rest, env, k)
    if isinstance(s, ast.While):
        return while_stmt(s, rest, env, k)
    if isinstance(s, ast.For):
        raise Unsupported("for loop (not needed by DualVigilanceART; its helper would be typed over Ext)")
    return _ORIG["tr_block"](stmts, env, k)


def while_stmt(s: ast.While, rest, env, k) -> list[str]:
    """ctrans' `while` rule; the helper definitions take `E : DualExt`"""
    if s.orelse:
        raise Unsupported("while/else")
    before = env.defined()
    d = env.copy()
    d.rec = []
    d.helpers = []
    C.tr_block(s.body, d, C.K(lambda e_: [], lambda t_: ""))
    carried = [v for v in d.rec if v in before]
    if not carried:
        raise Unsupported("while loop that changes nothing")
    tup = C.tuple_pat(carried)
    state_ty = C.lean_ty(("prod", [env.types[v] for v in carried])) if len(carried) > 1 else C.lean_ty(env.types[carried[0]])
    cond = C.ex(s.test, env.copy())
    be = env.copy()
    be.in_loop = True
    body = C.tr_block(s.body, be, C.K(lambda e_: [f".next {tup}"], lambda t_: f".ret {t_}"))
    env.loopn[0] += 1
    k_ = env.loopn[0]
    cname, bname = f"{env.fn}_loop{k_}_cond", f"{env.fn}_loop{k_}_body"
    cfv = C.free_vars(cond, env, exclude=carried)
    bfv = C.free_vars("\n".join(body), env, exclude=carried)
    env.helpers.append("\n".join(
        [f"/-- loop {k_} of `{env.cls}.{env.fn}`: the `while` condition `{ast.unparse(s.test)}` -/",
         f"def {cname} {HEADER_CLASSES}",
         f"    (E : {EXT_TY}) " + " ".join(C.param_decl(v, env) for v in cfv) + " :",
         f"    {state_ty} → Bool :=",
         f"  fun {tup} => {cond}"]) + "\n")
    env.helpers.append("\n".join(
        [f"/-- loop {k_} of `{env.cls}.{env.fn}`: one iteration of the body -/",
         f"def {bname} {HEADER_CLASSES}",
         f"    (E : {EXT_TY}) " + " ".join(C.param_decl(v, env) for v in bfv) + " :",
         f"    {state_ty} → Art.Imp.Flow ({C.ret_type(env)}) ({state_ty}) :=",
         f"  fun {tup} =>"] + C.ind(body, 4)) + "\n")
    for v in carried:
        env._mark(v)
    after = C.tr_block(rest, env, k)
    return ([f"match Art.Imp.whileFuel ({cname} E {' '.join(cfv)}) ({bname} E {' '.join(bfv)}) fuel {tup} with",
             f"| .ret r_ => {k.ret('r_')}", f"| .next {tup} =>"] + C.ind(after))


def translate_method(tree, name: str, trees) -> str:
    f = find_function(tree, CLS, name)
    decos = [ast.unparse(d) for d in f.decorator_list]
    if decos not in ([], ["property"]):
        raise Unsupported(f"{name}: decorators {decos}")
    env = C.Env(tree, CLS)
    env.trees = trees
    env.fn = name
    env.ret_ty = C.METHOD_RET[name]
    params = []
    a = f.args
    if a.vararg or a.kwarg or a.kwonlyargs or a.posonlyargs:
        raise Unsupported(f"{name}: signature")
    for x in a.args[1:]:
        if x.arg in C.CALLBACKS:
            env.callbacks.add(x.arg)
            env.names[x.arg] = x.arg
            params += [f"({x.arg}_is_none : Bool)", f"({x.arg} : {C.CALLBACK_TYPE[x.arg]})"]
        elif x.arg in C.PARAM_TYPES:
            env.names[x.arg] = x.arg
            env.types[x.arg] = C.PARAM_TYPES[x.arg]
            params.append(f"({x.arg} : {C.lean_ty(C.PARAM_TYPES[x.arg])})")
        else:
            raise Unsupported(f"{name}: parameter {x.arg}")

    def no_fall(e_):
        raise Unsupported(f"{name}: a path ends without return")
    body = C.tr_block(f.body, env, C.K(no_fall, lambda t_: t_))
    has_loop = any(isinstance(n, ast.While) for n in ast.walk(f))
    fuel = "(fuel : Nat) " if has_loop else ""
    head = [f"/-- generated from `{CLS}.{name}` -/",
            f"def {name} {HEADER_CLASSES}",
            f"    (E : {EXT_TY}) {fuel}(self : {C.SELF_TY}) " + " ".join(params) + " :",
            f"    {C.ret_type(env)} :="]
    pre = [f"let {v} := self.{fld}" for v, fld in C.SELF_FIELDS.values()]
    return "\n".join(env.helpers) + ("\n" if env.helpers else "") + "\n".join(head + C.ind(pre + body)) + "\n"


@contextmanager
def _profile():
    """install the DualVigilanceART profile and the two wrappers into ctrans; restore everything afterwards"""
    saved = {key: getattr(C, key) for key in list(PROFILE) + ["ext", "tr_block"] if hasattr(C, key)}
    missing = [key for key in list(PROFILE) if not hasattr(C, key)]
    _ORIG["ext"], _ORIG["tr_block"] = C.ext, C.tr_block
    try:
        for key, val in PROFILE.items():
            setattr(C, key, val)
        C.ext, C.tr_block = d_ext, d_tr_block
        yield
    finally:
        for key, val in saved.items():
            setattr(C, key, val)
        for key in missing:
            if hasattr(C, key):
                delattr(C, key)
        _ORIG.clear()


def generate(repo: Path) -> str:
    repo = Path(repo)
    trees = {"BaseART": ast.parse((repo / BASE_FILE).read_text()), CLS: ast.parse((repo / FILE).read_text())}
    chunks = ["/-",
              f"GENERATED by harness/artv/dtrans.py from {FILE} — do not edit.",
              "Regenerated on every run of the checks that name it; `ArtGenProofs/DualSpec.lean` proves the definitions equal to",
              "the model's `dualStepFit`, `dualStepPred`, `nClusters` (ArtModel/DualVig.lean) for all arguments.",
              "-/",
              "import ArtModel.ImpDual",
              "",
              "set_option linter.unusedVariables false",
              "",
              f"namespace {NAMESPACE}",
              ""]
    with _profile():
        for m in PROFILE["TRANSLATED"]:
            chunks.append(translate_method(trees[CLS], m, trees))
    chunks += [f"end {NAMESPACE}", ""]
    return "\n".join(chunks)


def write(repo: Path = None) -> tuple[bool, str]:
    repo = Path(repo or os.environ.get("VERIF_REPO", "/repo"))
    out = VERIF / "lean" / "ArtGen" / "Dual.lean"
    try:
        text = generate(repo)
    except (Unsupported, SyntaxError, OSError, KeyError, AttributeError, TypeError, IndexError) as e:
        return False, f"dual translator failed closed: {type(e).__name__}: {e}"
    if not out.exists() or out.read_text() != text:
        tmp = out.with_suffix(".lean.tmp")
        tmp.write_text(text)
        os.replace(tmp, out)
    return True, "generated"


if __name__ == "__main__":
    ok, msg = write(Path(sys.argv[1]) if len(sys.argv) > 1 else None)
    print(msg)
    sys.exit(0 if ok else 1)
