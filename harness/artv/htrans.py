"""DeepARTMAP / SMART translator: the Python AST of `artlib/hierarchical/DeepARTMAP.py` (class DeepARTMAP) and of
`artlib/hierarchical/SMART.py` (class SMART: `fit`, `partial_fit`)  ->  Lean 4 definitions.

DeepARTMAP's own code is plumbing around a list of nested estimators (`self.layers`, SimpleARTMAP / ARTMAP objects
built from `self.modules`): which layer is built from which module, which data matrix and which label vector each
layer is trained on, how `labels_a` of one layer is handed to the next, how label vectors are carried through the
layers' maps.  This module translates that sub-language, syntax-directed, into `lean/ArtGen/Deep.lean`;
`lean/ArtGenProofs/DeepSpec.lean` proves each generated definition equal to the definition of `ArtModel/Deep.lean`
that the C12 property theorems are stated about.  The nested estimators stay abstract: a layer is an object of type
`L`, a module an object of type `M`, and the constructors / methods / attributes of a layer that DeepARTMAP uses are
the fields of the structure `LayerOps`.

Python integers are `Int`, a Python list / 1-d array is a `List`, a data matrix is a `List R` (list of rows of an
abstract row type `R`), a label vector a `List Nat`.  Everything runs in the `Option` monad (`none` = the Python code
raises).  The instance state a method reads becomes leading parameters (`modules`, `layers`, `is_supervised`); a method
that ends in `return self` returns the pair `(layers, is_supervised)` it has written.

The translation (one fixed rendering per construct; the rendering of a call is chosen by the operand types):
  x = E / a, b = E / x += E        ->  let x := E  /  let (a, b) := E  /  let x := x + E       (re-binding shadows)
  self.layers = E, self.is_supervised = E  ->  let layers := E, let is_supervised := E   (True/False -> some true/false)
  self.layers[i] = E               ->  let layers := (← pySet layers i E)                 an index out of range raises
  self.modules / self.layers / self.is_supervised   ->  the parameters modules / layers / is_supervised
  self.p   (p a translated @property)  ->  (← p …)
  self.m(args) / super().m(args)   ->  (← m … args)     m a translated method, resolved through the base class;
                                        an argument left out whose default in m's signature is None -> none
  self.m(args) inside m itself     ->  (← m … fuel args)   and m becomes  match fuel with | 0 => none | fuel + 1 => do …
  return E  /  return self         ->  pure E  /  pure (layers, is_supervised)       (only in tail position)
  (falling off the end)            ->  pure ()
  if c: … return A else: … return B   (last statement)  ->  if c then (do … pure A) else (do … pure B)
  if c: A else: B   (no return)    ->  let (vars) ← if c then (do A; pure (vars)) else (do B; pure (vars))
                                       vars = names bound in both branches, or bound before and re-bound in one
  if x is None / is not None       ->  let (vars) ← match x with | none => … | some x => …
  if isinstance(x, list)  (x : array-or-list)  ->  let (vars) ← match x with | Sum.inr x => … | Sum.inl x => …
  for t in it: body (no return)    ->  let (vars) ← it.foldlM (fun (vars) t => do body; pure (vars)) (vars)
  assert c, "msg"                  ->  pyAssert c                   (none when c is false)
  A if c else B  (A, B effect-free)->  (if c then A else B)
  c  /  not c   as a condition     ->  c / (!c);   an Optional[bool] in a condition -> pyTruthy c   (None is falsy)
  [E for t in it]                  ->  (← it.mapM (fun t => do pure E))
  all(E for t in it) (E effect-free)  ->  it.all (fun t => E)
  [a, b, …]  /  A + B (lists)  /  [a] * n  ->  [a, b, …]  /  (A ++ B)  /  (pyRepeat [a] n)
  xs.append(v)                     ->  let xs := xs ++ [v]
  xs[i]                            ->  (← pyIndex xs i)             negative i counts from the end; out of range raises
  xs[lo:] / xs[:hi] / xs[::-1]     ->  (pySliceFrom xs lo) / (pySliceTo xs hi) / xs.reverse
  range(b) / range(a, b)           ->  (pyRange 0 b) / (pyRange a b)
  len(xs)  /  A.shape[0]           ->  (xs.length : Int)
  a op b (ints; op + - < > <= >= == !=)  ->  (a op b) / (decide (a op b))
  0, 1, -1, …                      ->  Int literals
  v.reshape((-1, 1))  (v 1-d)      ->  (npCol v)
  np.concatenate(E, axis=1)        ->  (← npConcat1 E)
  cast(T, E)                       ->  E                             (typing.cast; see DROPPED)
  SimpleARTMAP(m) / ARTMAP(a, b)   ->  (ops.mk_simple m) / (ops.mk_artmap a b)
  l.labels_ / l.labels_a  (l a layer)  ->  (ops.labels_ l) / (ops.labels_a l)
  l.map_a2b(y) / l.predict_ab(X)   ->  (← ops.map_a2b l y) / (← ops.predict_ab l X)
  l.fit(X, y, max_iter=…, match_tracking=…, epsilon=…)   ->  (ops.fit l X y …), y a label vector;
                                                              (ops.fit_ab l X Y …), Y a data matrix (an ARTMAP layer)
  l.partial_fit(X, y, match_tracking=…, epsilon=…)       ->  (ops.partial_fit l X y …) / (ops.partial_fit_ab l X Y …)
Anything else raises `Unsupported`: the translator fails closed.
"""
from __future__ import annotations

import ast
import json
import os
from pathlib import Path

from .ktrans import Unsupported

VERIF = Path(__file__).resolve().parents[2]
FILE = "artlib/hierarchical/DeepARTMAP.py"
SMART_FILE = "artlib/hierarchical/SMART.py"
H = "Art.ImpDeep."

DROPPED = {
    "docstrings": "string-expression statements have no effect",
    "type annotations": "checked against the table METHODS (a changed annotation fails closed), otherwise no run-time effect",
    "cast(T, E)": "typing.cast returns E unchanged",
    "assert messages": "only the condition of an assert is translated",
    "parameter defaults": "every generated definition takes all its arguments explicitly (max_iter=1, match_tracking='MT+', "
                          "epsilon=0.0 are the callers' business); the one default that is used — SMART.fit / partial_fit call "
                          "the base method without y, whose default is None — is read from the callee's signature",
    "recursion depth": "a method that calls itself (map_deep) gets a fuel parameter; the spec proves the result for every "
                       "fuel above the number of layers",
    "y_a: Union[np.ndarray, int]": "map_deep is translated for a label vector (a scalar label c is the vector [c])",
    "__init__, get_params, set_params, labels_, prepare_data, restore_data; SMART.__init__, prepare_data, restore_data, "
    "plot_cluster_bounds, visualize": "not translated (constructors, sklearn parameter plumbing, thin delegations to "
                                      "the modules, matplotlib) — out of the slice",
}

COVERS = ("DeepARTMAP.n_modules/n_layers/labels_deep_/map_deep/validate_data/fit/partial_fit/predict "
          "(artlib/hierarchical/DeepARTMAP.py) and SMART.fit/partial_fit (artlib/hierarchical/SMART.py) are translated and "
          "proved equal to ArtModel/Deep's labelsDeep, mapDeep, deepPredict (mapUp), deepFitSup, deepPartialFitSup, "
          "deepFitUnsup, deepPartialFitUnsup, smartFit, smartPartialFit (chainFit, chainPartialFit, lastN); the layers "
          "(SimpleARTMAP / ARTMAP objects: constructors, fit, partial_fit, labels_, labels_a, map_a2b, predict_ab) are "
          "abstract — fields of LayerOps, tied to smapFit / smapPartialFit / artmapFit / artmapPartialFit / mapA2B? / "
          "smapStepPred of ArtModel/ARTMAP by the hypothesis structures `ReadTie` and `Tie`.")

THEOREMS = [
    "Deep.pyIndex_natCast", "Deep.pySliceFrom_neg", "Deep.npConcat1_cols",
    "Deep.n_modules_spec", "Deep.n_layers_spec",
    "Deep.labels_deep_spec", "Deep.labels_deep_rows", "Deep.labels_deep_some",
    "Deep.map_deep_spec", "Deep.predict_spec", "Deep.predict_list_spec",
    "Deep.validate_data_sup", "Deep.validate_data_unsup",
    "Deep.fit_loop", "Deep.pfit_loop",
    "Deep.fit_sup_spec", "Deep.partial_fit_sup_spec",
    "Deep.fit_unsup_spec", "Deep.partial_fit_unsup_spec",
    "Deep.smart_fit_spec", "Deep.smart_partial_fit_spec",
    "Deep.gen_deep_nested", "Deep.gen_map_deep_consistent", "Deep.gen_predict_nested", "Deep.gen_fit_sup_inv",
    "Deep.exTie",
]

# ---------------------------------------------------------------- types
# "int" "lit" (an integer literal) "bool" "str" "E" "M" "L" "R" "nat" "unit" "none"
# ("list", t) ("opt", t) ("prod", [t…]) ("sum", a, b)
LAB = ("list", "nat")
MATN = ("list", LAB)
D = ("list", "R")
LD = ("list", D)
OLAB = ("opt", LAB)
OBOOL = ("opt", "bool")
DorLD = ("sum", D, LD)

RESERVED = {"M", "L", "R", "ε", "ops", "fuel", "modules", "layers", "is_supervised", "pure", "none", "some"}
KEYWORDS = {"end": "«end»", "from": "«from»", "at": "«at»", "open": "«open»", "in": "«in»", "then": "«then»",
            "fun": "«fun»", "show": "«show»", "have": "«have»", "match": "«match»", "do": "«do»"}


def nm(s: str) -> str:
    return KEYWORDS.get(s, s)


def atom(s: str) -> str:
    return f"({s})" if " " in s else s


def lty(t) -> str:
    if isinstance(t, str):
        return {"int": "Int", "bool": "Bool", "str": "String", "E": "ε", "M": "M", "L": "L", "R": "R", "nat": "Nat",
                "unit": "Unit"}[t]
    if t[0] == "list":
        return f"List {atom(lty(t[1]))}"
    if t[0] == "opt":
        return f"Option {atom(lty(t[1]))}"
    if t[0] == "prod":
        return " × ".join(atom(lty(x)) for x in t[1])
    if t[0] == "sum":
        return f"Sum {atom(lty(t[1]))} {atom(lty(t[2]))}"
    raise Unsupported(f"type {t}")


# the instance state: name -> (type, writable)
STATE = {"modules": (("list", "M"), False), "layers": (("list", "L"), True), "is_supervised": (OBOOL, True)}
WRITABLE = ["layers", "is_supervised"]
SELF_TY = ("prod", [("list", "L"), OBOOL])
IMPLICIT_ORDER = ["ops", "modules", "layers", "is_supervised"]
IMPLICIT_DECL = {"ops": "(ops : LayerOps M L R ε)", "modules": "(modules : List M)", "layers": "(layers : List L)",
                 "is_supervised": "(is_supervised : Option Bool)"}

# attributes / methods / constructors of a layer: python name -> rendering data
LAYER_ATTRS = {"labels_": ("labels_", LAB), "labels_a": ("labels_a", LAB)}
# name -> [(parameter, accepted types -> field)], result, raises
FITKW = [("max_iter", "int"), ("match_tracking", "str"), ("epsilon", "E")]
PFITKW = [("match_tracking", "str"), ("epsilon", "E")]
CONSTRUCTORS = {"SimpleARTMAP": ("mk_simple", "artlib.supervised.SimpleARTMAP", ["M"]),
                "ARTMAP": ("mk_artmap", "artlib.supervised.ARTMAP", ["M", "M"])}

ND, OND = "np.ndarray", "Optional[np.ndarray]"
MT = "Literal['MT+', 'MT-', 'MT0', 'MT1', 'MT~']"
FIT_PARAMS = [("max_iter", "int", None), ("match_tracking", "str", MT), ("epsilon", "E", "float")]
PFIT_PARAMS = [("match_tracking", "str", MT), ("epsilon", "E", "float")]
# what is translated: (class, name, kind, [(parameter, type, annotation)], return type | "self")
METHODS = [
    ("DeepARTMAP", "n_modules", "property", [], "int"),
    ("DeepARTMAP", "n_layers", "property", [], "int"),
    ("DeepARTMAP", "labels_deep_", "property", [], MATN),
    ("DeepARTMAP", "map_deep", "method", [("level", "int", "int"), ("y_a", LAB, "Union[np.ndarray, int]")], LAB),
    ("DeepARTMAP", "validate_data", "method", [("X", LD, "list[np.ndarray]"), ("y", OLAB, OND)], "unit"),
    ("DeepARTMAP", "fit", "method", [("X", LD, "list[np.ndarray]"), ("y", OLAB, OND)] + FIT_PARAMS, "self"),
    ("DeepARTMAP", "partial_fit", "method", [("X", LD, "list[np.ndarray]"), ("y", OLAB, OND)] + PFIT_PARAMS, "self"),
    ("DeepARTMAP", "predict", "method", [("X", DorLD, "Union[np.ndarray, list[np.ndarray]]")], MATN),
    ("SMART", "fit", "method", [("X", D, ND), ("y", OLAB, OND)] + FIT_PARAMS, "self"),
    ("SMART", "partial_fit", "method", [("X", D, ND), ("y", OLAB, OND)] + PFIT_PARAMS, "self"),
]


class Env:
    def __init__(self, trees: dict):
        self.classes = {}       # class name -> (ClassDef, imports of its module, names defined in its module)
        for tree in trees.values():
            imports = {}
            for n in tree.body:
                if isinstance(n, ast.ImportFrom):
                    for a in n.names:
                        imports[a.asname or a.name] = f"{n.module}.{a.name}" if n.module else a.name
                if isinstance(n, ast.Import):
                    for a in n.names:
                        imports[a.asname or a.name] = a.name
            defs = {n.name for n in tree.body if isinstance(n, (ast.FunctionDef, ast.ClassDef))}
            defs |= {t.id for n in tree.body if isinstance(n, ast.Assign) for t in n.targets if isinstance(t, ast.Name)}
            for n in tree.body:
                if isinstance(n, ast.ClassDef):
                    self.classes[n.name] = (n, imports, defs)
        self.done = {}          # (class, name) -> dict(lname, implicit, params, rty, writes, kind, fuel, defaults)

    def base(self, cls):
        node = self.classes[cls][0]
        if cls == "SMART":
            if [src(b) for b in node.bases] != ["DeepARTMAP"]:
                raise Unsupported("SMART does not derive from DeepARTMAP alone")
            return "DeepARTMAP"
        return None

    def resolve(self, cls, name, skip_own=False):
        """the class whose definition of `name` an instance of `cls` uses (super(): skip the class itself)"""
        c = self.base(cls) if skip_own else cls
        while c is not None:
            node = self.classes[c][0]
            if any(isinstance(f, ast.FunctionDef) and f.name == name for f in node.body):
                return c
            c = self.base(c)
        raise Unsupported(f"{name} is not defined in {cls} or its translated base")


class Ctx:
    def __init__(self, cls, name, env):
        self.vars: dict[str, object] = {}
        self.used: set[str] = set()
        self.written: list[str] = []
        self.cls, self.name, self.env = cls, name, env
        self.flags = {"recursive": False}       # shared by the copies

    def copy(self):
        c = Ctx(self.cls, self.name, self.env)
        c.vars = dict(self.vars)
        c.used, c.written, c.flags = self.used, self.written, self.flags
        return c

    def imports(self):
        return self.env.classes[self.cls][1]

    def module_defs(self):
        return self.env.classes[self.cls][2]


def src(e) -> str:
    return ast.unparse(e)


def islist(t):
    return isinstance(t, tuple) and t[0] == "list"


def effectful(text: str) -> bool:
    return "←" in text


def coerce(text, t, want):
    if t == want:
        return text
    if t == "lit" and want == "int":
        return f"({text} : Int)"
    if t == "none" and isinstance(want, tuple) and want[0] == "opt":
        return "none"
    if t == "bool" and want == OBOOL:
        return f"(some {text})"
    if isinstance(t, tuple) and isinstance(want, tuple) and t[0] == want[0] == "list" and t[1] == "lit" and want[1] == "int":
        return f"({text} : List Int)"
    raise Unsupported(f"type mismatch: {t} where {want} is needed ({text})")


def is_self(e, attr=None):
    return (isinstance(e, ast.Attribute) and isinstance(e.value, ast.Name) and e.value.id == "self"
            and (attr is None or e.attr == attr))


def is_super(e, cx):
    """`super()` or `super(Cls, self)` with Cls the class being translated"""
    if not (isinstance(e, ast.Call) and isinstance(e.func, ast.Name) and e.func.id == "super" and not e.keywords):
        return False
    if not e.args:
        return True
    return (len(e.args) == 2 and isinstance(e.args[0], ast.Name) and e.args[0].id == cx.cls
            and isinstance(e.args[1], ast.Name) and e.args[1].id == "self")


CMPOPS = {ast.Gt: ">", ast.Lt: "<", ast.GtE: "≥", ast.LtE: "≤", ast.Eq: "=", ast.NotEq: "≠"}


def cond(e, cx):
    """an expression in condition position -> Lean Bool text"""
    if isinstance(e, ast.UnaryOp) and isinstance(e.op, ast.Not):
        return f"(!{cond(e.operand, cx)})"
    c, ct = ex(e, cx)
    if ct == "bool":
        return c
    if ct == OBOOL:
        return f"({H}pyTruthy {c})"
    raise Unsupported(f"condition of type {ct}: {src(e)}")


def ex(e: ast.AST, cx: Ctx, special=False):
    """expression -> (Lean text, type); the text is atomic and may contain nested actions `(← …)`.
    special=True (only the value of a `return`): a recursive call / the call of a state-writing method may come
    back as a pseudo-text ("REC", args) / ("SELFCALL", text)"""
    v, t = _ex(e, cx)
    if isinstance(v, tuple) and not special:
        raise Unsupported(f"a recursive call / a call of a state-writing method outside `return …`: {src(e)}")
    return v, t


def _ex(e: ast.AST, cx: Ctx):
    if isinstance(e, ast.Name):
        if e.id not in cx.vars:
            raise Unsupported(f"unknown name {e.id}")
        return nm(e.id), cx.vars[e.id]
    if isinstance(e, ast.Constant):
        v = e.value
        if v is None:
            return "none", "none"
        if isinstance(v, bool):
            return ("true" if v else "false"), "bool"
        if isinstance(v, int) and v >= 0:
            return str(v), "lit"
        if isinstance(v, str):
            return json.dumps(v), "str"
        raise Unsupported(f"constant {v!r}")
    if isinstance(e, ast.UnaryOp) and isinstance(e.op, ast.USub):
        v, vt = ex(e.operand, cx)
        if vt in ("lit", "int"):
            return f"(-{v})", vt
        raise Unsupported(f"negation of {vt}")
    if isinstance(e, ast.UnaryOp) and isinstance(e.op, ast.Not):
        return cond(e, cx), "bool"
    if isinstance(e, ast.Attribute):
        return attribute(e, cx)
    if isinstance(e, ast.List):
        parts = [ex(x, cx) for x in e.elts]
        if not parts:
            raise Unsupported("empty list display")
        ts = {json.dumps(p[1]) for p in parts}
        if len(ts) != 1:
            raise Unsupported(f"list display of mixed types {src(e)}")
        return "[" + ", ".join(p[0] for p in parts) + "]", ("list", parts[0][1])
    if isinstance(e, ast.BinOp):
        return binop(e, cx)
    if isinstance(e, ast.Compare) and len(e.ops) == 1:
        l, lt = ex(e.left, cx)
        r, rt = ex(e.comparators[0], cx)
        op = type(e.ops[0])
        if lt in ("int", "lit") and rt in ("int", "lit") and op in CMPOPS and (lt, rt) != ("lit", "lit"):
            return f"(decide ({l} {CMPOPS[op]} {r}))", "bool"
        raise Unsupported(f"comparison {src(e)} on {lt}, {rt}")
    if isinstance(e, ast.IfExp):
        c = cond(e.test, cx)
        a, at = ex(e.body, cx)
        b, bt = ex(e.orelse, cx)
        if effectful(a) or effectful(b):
            raise Unsupported("conditional expression with a branch that can raise")
        if at != bt:
            raise Unsupported(f"conditional expression of types {at}, {bt}")
        return f"(if {c} then {a} else {b})", at
    if isinstance(e, ast.Subscript):
        return subscript(e, cx)
    if isinstance(e, ast.ListComp):
        it, var, vt = generator(e.generators, cx)
        inner = cx.copy()
        inner.vars[var] = vt
        b, bt = ex(e.elt, inner)
        return f"(← ({it}).mapM (fun {nm(var)} => do pure {b}))", ("list", bt)
    if isinstance(e, ast.Call):
        return call(e, cx)
    raise Unsupported(f"expression {type(e).__name__}: {src(e)}")


def generator(gens, cx):
    if len(gens) != 1 or gens[0].ifs or gens[0].is_async or not isinstance(gens[0].target, ast.Name):
        raise Unsupported("comprehension with several generators, a filter or a pattern target")
    g = gens[0]
    it, ity = ex(g.iter, cx)
    if not islist(ity):
        raise Unsupported("comprehension over a non-list")
    check_local(g.target.id)
    return it, g.target.id, ("int" if ity[1] == "lit" else ity[1])


def check_local(name):
    if name in RESERVED:
        raise Unsupported(f"local name {name} collides with a name of the generated file")


def attribute(e: ast.Attribute, cx: Ctx):
    if is_self(e):
        if e.attr in STATE:
            cx.used.add(e.attr)
            return e.attr, STATE[e.attr][0]
        owner = cx.env.resolve(cx.cls, e.attr)
        d = cx.env.done.get((owner, e.attr))
        if d is None or d["kind"] != "property":
            raise Unsupported(f"self.{e.attr} is not a translated property")
        cx.used.update(d["implicit"])
        return f"(← {d['lname']} " + " ".join(d["implicit"]) + ")", d["rty"]
    b, bt = ex(e.value, cx)
    if bt == "L" and e.attr in LAYER_ATTRS:
        fld, t = LAYER_ATTRS[e.attr]
        cx.used.add("ops")
        return f"(ops.{fld} {b})", t
    raise Unsupported(f"attribute {src(e)} of {bt}")


def binop(e: ast.BinOp, cx: Ctx):
    l, lt = ex(e.left, cx)
    r, rt = ex(e.right, cx)
    op = type(e.op)
    if lt in ("int", "lit") and rt in ("int", "lit") and op in (ast.Add, ast.Sub):
        t = "lit" if (lt, rt) == ("lit", "lit") else "int"
        return f"({l} {'+' if op is ast.Add else '-'} {r})", t
    if islist(lt) and lt == rt and op is ast.Add:
        return f"({l} ++ {r})", lt
    if islist(lt) and rt in ("int", "lit") and op is ast.Mult:
        return f"({H}pyRepeat {l} {r})", lt
    raise Unsupported(f"operator in {src(e)} on {lt}, {rt}")


def subscript(e: ast.Subscript, cx: Ctx):
    s = e.slice
    # A.shape[0]
    if isinstance(e.value, ast.Attribute) and e.value.attr == "shape" and not is_self(e.value):
        b, bt = ex(e.value.value, cx)
        if bt in (D, LAB) and isinstance(s, ast.Constant) and s.value == 0 and not isinstance(s.value, bool):
            return f"(({b}).length : Int)", "int"
        raise Unsupported(f"shape: {src(e)}")
    b, bt = ex(e.value, cx)
    if not islist(bt):
        raise Unsupported(f"subscript of {bt}: {src(e)}")
    if isinstance(s, ast.Slice):
        if s.step is not None:
            if s.lower is None and s.upper is None and src(s.step) == "-1":
                return f"(({b}).reverse)", bt
            raise Unsupported(f"slice with a step: {src(e)}")
        if s.lower is not None and s.upper is None:
            lo, lot = ex(s.lower, cx)
            return f"({H}pySliceFrom {b} {coerce(lo, lot, 'int') if lot != 'lit' else lo})", bt
        if s.lower is None and s.upper is not None:
            hi, hit = ex(s.upper, cx)
            return f"({H}pySliceTo {b} {coerce(hi, hit, 'int') if hit != 'lit' else hi})", bt
        raise Unsupported(f"slice {src(e)}")
    i, it = ex(s, cx)
    if it not in ("int", "lit"):
        raise Unsupported(f"index of type {it}: {src(e)}")
    return f"(← {H}pyIndex {b} {i})", bt[1]


def call_args(e: ast.Call, params, defaults, cx, what):
    """positional + keyword arguments against a parameter list -> Lean texts"""
    if len(e.args) > len(params):
        raise Unsupported(f"{what}: too many arguments")
    given = {}
    for (p, t), a in zip(params, e.args):
        given[p] = a
    for kw in e.keywords:
        if kw.arg is None or kw.arg in given or kw.arg not in [p for p, _ in params]:
            raise Unsupported(f"{what}: keyword {kw.arg}")
        given[kw.arg] = kw.value
    out = []
    for p, t in params:
        if p in given:
            out.append(coerce(*ex(given[p], cx), t))
        elif defaults.get(p) == "None" and isinstance(t, tuple) and t[0] == "opt":
            out.append("none")
        else:
            raise Unsupported(f"{what}: argument {p} missing")
    return out


def layer_fit(e: ast.Call, recv: str, cx: Ctx):
    """l.fit(X, y, max_iter=…, match_tracking=…, epsilon=…) / l.partial_fit(X, y, match_tracking=…, epsilon=…)"""
    name = e.func.attr
    kws = FITKW if name == "fit" else PFITKW
    if len(e.args) != 2:
        raise Unsupported(f"layer.{name}: two positional arguments (X, y) expected")
    x, xt = ex(e.args[0], cx)
    y, yt = ex(e.args[1], cx)
    if xt != D:
        raise Unsupported(f"layer.{name}: X of type {xt}")
    if yt == LAB:
        fld = name
    elif yt == D:
        fld = name + "_ab"
    else:
        raise Unsupported(f"layer.{name}: y of type {yt}")
    given = {}
    for kw in e.keywords:
        if kw.arg is None or kw.arg in given or kw.arg not in [k for k, _ in kws]:
            raise Unsupported(f"layer.{name}: keyword {kw.arg}")
        given[kw.arg] = kw.value
    extra = []
    for k, t in kws:
        if k not in given:
            raise Unsupported(f"layer.{name}: keyword {k} missing (the layer's own default would apply)")
        extra.append(coerce(*ex(given[k], cx), t))
    cx.used.add("ops")
    return f"(ops.{fld} {recv} {x} {y} " + " ".join(extra) + ")", "L"


def call(e: ast.Call, cx: Ctx):
    f = e.func
    env = cx.env
    if isinstance(f, ast.Name):
        if f.id in cx.vars or f.id in cx.module_defs():
            raise Unsupported(f"{f.id} is re-defined")
        if f.id == "len" and len(e.args) == 1 and not e.keywords:
            a, t = ex(e.args[0], cx)
            if not islist(t):
                raise Unsupported("len of a non-list")
            return f"(({a}).length : Int)", "int"
        if f.id == "range" and len(e.args) in (1, 2) and not e.keywords:
            args = []
            for a in e.args:
                v, vt = ex(a, cx)
                args.append(v if vt == "lit" else coerce(v, vt, "int"))
            if len(args) == 1:
                args = ["0"] + args
            return f"({H}pyRange {args[0]} {args[1]})", ("list", "int")
        if f.id == "all" and len(e.args) == 1 and not e.keywords and isinstance(e.args[0], ast.GeneratorExp):
            it, var, vt = generator(e.args[0].generators, cx)
            inner = cx.copy()
            inner.vars[var] = vt
            b = cond(e.args[0].elt, inner)
            if effectful(b) or effectful(it):
                raise Unsupported("all(...) over an expression that can raise")
            return f"(({it}).all (fun {nm(var)} => {b}))", "bool"
        if f.id == "cast" and len(e.args) == 2 and not e.keywords:
            if cx.imports().get("cast") != "typing.cast":
                raise Unsupported("cast is not typing.cast")
            return ex(e.args[1], cx)                                           # DROPPED: typing.cast
        if f.id == "isinstance":
            raise Unsupported("isinstance outside an if-test")
        if f.id in CONSTRUCTORS:
            fld, module, ptys = CONSTRUCTORS[f.id]
            if cx.imports().get(f.id) != f"{module}.{f.id}":
                raise Unsupported(f"{f.id} is not the class imported from {module}")
            if e.keywords or len(e.args) != len(ptys):
                raise Unsupported(f"{f.id}: {len(ptys)} positional arguments expected")
            args = [coerce(*ex(a, cx), t) for a, t in zip(e.args, ptys)]
            cx.used.add("ops")
            return f"(ops.{fld} " + " ".join(args) + ")", "L"
        raise Unsupported(f"function {f.id}")
    if not isinstance(f, ast.Attribute):
        raise Unsupported(f"call {src(e)}")
    # np.concatenate(E, axis=1)
    if isinstance(f.value, ast.Name) and f.value.id == "np":
        if cx.imports().get("np") != "numpy":
            raise Unsupported("np is not numpy")
        if f.attr == "concatenate" and len(e.args) == 1 and len(e.keywords) == 1 and e.keywords[0].arg == "axis" \
                and src(e.keywords[0].value) == "1":
            a, at = ex(e.args[0], cx)
            if at != ("list", MATN):
                raise Unsupported(f"np.concatenate of {at}")
            return f"(← {H}npConcat1 {a})", MATN
        raise Unsupported(f"numpy function {src(e)}")
    # self.m(...) / super().m(...)
    via_super = is_super(f.value, cx)
    if via_super or (isinstance(f.value, ast.Name) and f.value.id == "self"):
        owner = env.resolve(cx.cls, f.attr, skip_own=via_super)
        if (owner, f.attr) == (cx.cls, cx.name):
            # a method calling itself: fuel
            params = [(p, t) for c, n, k, ps, r in METHODS if (c, n) == (cx.cls, cx.name) for p, t, _ in ps]
            rty = [r for c, n, k, ps, r in METHODS if (c, n) == (cx.cls, cx.name)][0]
            if rty == "self":
                raise Unsupported("a state-writing method that calls itself")
            args = call_args(e, params, {}, cx, f"self.{f.attr}")
            cx.flags["recursive"] = True
            return ("REC", args), rty
        d = env.done.get((owner, f.attr))
        if d is None or d["kind"] != "method":
            raise Unsupported(f"{src(f)} resolves to {owner}.{f.attr}, which is not a translated method (yet)")
        if d["fuel"]:
            raise Unsupported(f"call of the recursive method {f.attr} from another method")
        args = call_args(e, [(p, t) for p, t, _ in d["params"]], d["defaults"], cx, src(f))
        cx.used.update(d["implicit"])
        text = f"(← {d['lname']} " + " ".join(d["implicit"] + args) + ")"
        if d["rty"] == "self":
            return ("SELFCALL", text), "self"
        return text, d["rty"]
    # methods of a layer / of an array
    b, bt = ex(f.value, cx)
    if bt == "L":
        if f.attr in ("fit", "partial_fit"):
            return layer_fit(e, b, cx)
        if f.attr == "map_a2b" and len(e.args) == 1 and not e.keywords:
            a, at = ex(e.args[0], cx)
            cx.used.add("ops")
            return f"(← ops.map_a2b {b} {coerce(a, at, LAB)})", LAB
        if f.attr == "predict_ab" and len(e.args) == 1 and not e.keywords:
            a, at = ex(e.args[0], cx)
            cx.used.add("ops")
            return f"(← ops.predict_ab {b} {coerce(a, at, D)})", ("prod", [LAB, LAB])
        raise Unsupported(f"layer method {f.attr}")
    if f.attr == "reshape" and bt == LAB and len(e.args) == 1 and not e.keywords and src(e.args[0]) == "(-1, 1)":
        return f"({H}npCol {b})", MATN
    raise Unsupported(f"method call {src(e)}")


# ---------------------------------------------------------------- statements


def target_names(t):
    if isinstance(t, ast.Name):
        return [t.id]
    if isinstance(t, ast.Tuple):
        return [x.id for x in t.elts if isinstance(x, ast.Name)]
    if is_self(t) and t.attr in WRITABLE:
        return [t.attr]
    if isinstance(t, ast.Subscript) and is_self(t.value) and t.value.attr in WRITABLE:
        return [t.value.attr]
    return []


def bound_in(stmts, definite: bool) -> list[str]:
    """names (re-)bound by a block, in order of first appearance (the state name for a write to self.<state>);
    definite=True: only those bound on every path through the block"""
    out = []

    def add(x):
        if x not in out:
            out.append(x)

    for s in stmts:
        if isinstance(s, ast.Assign):
            for t in s.targets:
                for x in target_names(t):
                    add(x)
        elif isinstance(s, ast.AugAssign):
            for x in target_names(s.target):
                add(x)
        elif isinstance(s, ast.Expr) and isinstance(s.value, ast.Call) and isinstance(s.value.func, ast.Attribute) \
                and s.value.func.attr == "append" and isinstance(s.value.func.value, ast.Name):
            add(s.value.func.value.id)
        elif isinstance(s, ast.If):
            b1, b2 = bound_in(s.body, definite), bound_in(s.orelse, definite)
            for x in b1 + b2:
                if not definite or (x in b1 and x in b2):
                    add(x)
        elif isinstance(s, ast.For) and not definite:
            for x in bound_in(s.body, False):
                add(x)
    return out


def carried(body, orelse, cx: Ctx) -> list[str]:
    """the variables an `if` / `for` hands on: bound before and re-bound inside, or bound in both branches"""
    possible = bound_in(body, False) + (bound_in(orelse, False) if orelse is not None else [])
    d1, d2 = bound_in(body, True), (bound_in(orelse, True) if orelse is not None else [])
    names = []
    for n in possible:
        before = n in cx.vars or n in WRITABLE
        both = orelse is not None and n in d1 and n in d2
        if (before or both) and n not in names:
            names.append(n)
    return names


def pack(vs):
    return "()" if not vs else nm(vs[0]) if len(vs) == 1 else "(" + ", ".join(nm(v) for v in vs) + ")"


def has_return(stmts):
    return any(isinstance(n, (ast.Return, ast.Break, ast.Continue, ast.Raise)) for b in stmts for n in ast.walk(b))


def note_write(cx, vs):
    for v in vs:
        if v in WRITABLE:
            cx.used.add(v)
            if v not in cx.written:
                cx.written.append(v)


def merge_types(vs, cx, branches):
    for v in vs:
        if v in WRITABLE:
            continue
        ts = [c.vars.get(v) for c in branches]
        if any(t != ts[0] for t in ts) or ts[0] is None:
            raise Unsupported(f"{v} has different types on the branches: {ts}")
        cx.vars[v] = ts[0]


def none_test(t):
    """`x is None` -> (x, True); `x is not None` -> (x, False)"""
    if (isinstance(t, ast.Compare) and len(t.ops) == 1 and isinstance(t.ops[0], (ast.Is, ast.IsNot))
            and isinstance(t.left, ast.Name) and isinstance(t.comparators[0], ast.Constant)
            and t.comparators[0].value is None):
        return t.left.id, isinstance(t.ops[0], ast.Is)
    return None


def isinstance_list_test(t):
    if (isinstance(t, ast.Call) and isinstance(t.func, ast.Name) and t.func.id == "isinstance" and len(t.args) == 2
            and not t.keywords and isinstance(t.args[0], ast.Name) and isinstance(t.args[1], ast.Name)
            and t.args[1].id == "list"):
        return t.args[0].id
    return None


def block(stmts, cx: Ctx, ret_ty, I="  ") -> list:
    out = []
    for idx, s in enumerate(stmts):
        last = idx == len(stmts) - 1
        if isinstance(s, ast.Expr) and isinstance(s.value, ast.Constant) and isinstance(s.value.value, str):
            continue                                                           # DROPPED: docstring
        if isinstance(s, ast.Return):
            if not last or ret_ty is None:
                raise Unsupported("return that is not in tail position")
            if s.value is None:
                raise Unsupported("bare return")
            if ret_ty == "self":
                if isinstance(s.value, ast.Name) and s.value.id == "self":
                    if not cx.written:
                        raise Unsupported("`return self` of a method that writes no state")
                    cx.used.update(WRITABLE)
                    out.append(I + "pure " + pack(WRITABLE))
                    return out
                v, vt = ex(s.value, cx, special=True)
                if vt == "self" and isinstance(v, tuple) and v[0] == "SELFCALL":
                    if cx.written:
                        raise Unsupported("a method that writes state and then returns another method's `self`")
                    out.append(I + f"pure {v[1]}")
                    return out
                raise Unsupported(f"return {src(s.value)} where `return self` is expected")
            v, vt = ex(s.value, cx, special=True)
            if cx.written:
                raise Unsupported("a method that writes self state and returns a value")
            if isinstance(v, tuple) and v[0] != "REC":
                raise Unsupported(f"return {src(s.value)}")
            if isinstance(v, tuple) and v[0] == "REC":
                out.append(I + "pure (← " + "{REC} " + " ".join(v[1]) + ")")
                return out
            out.append(I + "pure " + coerce(v, vt, ret_ty))
            return out
        if isinstance(s, ast.Assert):
            out.append(I + f"{H}pyAssert {cond(s.test, cx)}")                   # DROPPED: the message
            continue
        if isinstance(s, ast.AugAssign):
            if not (isinstance(s.target, ast.Name) and isinstance(s.op, ast.Add)):
                raise Unsupported(f"augmented assignment {src(s)}")
            x = s.target.id
            if cx.vars.get(x) != "int":
                raise Unsupported(f"{x} += … on a non-integer")
            v, vt = ex(s.value, cx)
            if vt not in ("int", "lit"):
                raise Unsupported(f"{x} += a value of type {vt}")
            out.append(I + f"let {nm(x)} := {nm(x)} + {v}")
            continue
        if isinstance(s, ast.Assign) and len(s.targets) == 1:
            t = s.targets[0]
            v, vt = ex(s.value, cx)
            if isinstance(t, ast.Name):
                check_local(t.id)
                if vt == "lit":
                    v, vt = coerce(v, vt, "int"), "int"
                if vt in ("none", "self", "unit"):
                    raise Unsupported(f"assignment of a value of type {vt}")
                out.append(I + f"let {nm(t.id)} := {v}")
                cx.vars[t.id] = vt
                continue
            if isinstance(t, ast.Tuple) and all(isinstance(x, ast.Name) for x in t.elts):
                if not (isinstance(vt, tuple) and vt[0] == "prod" and len(vt[1]) == len(t.elts)):
                    raise Unsupported(f"unpacking {src(s.value)} of type {vt} into {len(t.elts)} names")
                for x in t.elts:
                    check_local(x.id)
                out.append(I + "let (" + ", ".join(nm(x.id) for x in t.elts) + f") := {v}")
                for x, xt in zip(t.elts, vt[1]):
                    cx.vars[x.id] = xt
                continue
            if is_self(t) and t.attr in WRITABLE:
                out.append(I + f"let {t.attr} := {coerce(v, vt, STATE[t.attr][0])}")
                note_write(cx, [t.attr])
                continue
            if isinstance(t, ast.Subscript) and is_self(t.value) and t.value.attr in WRITABLE:
                a = t.value.attr
                ety = STATE[a][0]
                if not islist(ety) or isinstance(t.slice, ast.Slice):
                    raise Unsupported(f"assignment target {src(t)}")
                i, it = ex(t.slice, cx)
                if it not in ("int", "lit"):
                    raise Unsupported(f"index of type {it}")
                cx.used.add(a)
                out.append(I + f"let {a} := (← {H}pySet {a} {i} {coerce(v, vt, ety[1])})")
                note_write(cx, [a])
                continue
            raise Unsupported(f"assignment target {src(t)}")
        if isinstance(s, ast.Expr) and isinstance(s.value, ast.Call) and isinstance(s.value.func, ast.Attribute) \
                and s.value.func.attr == "append" and isinstance(s.value.func.value, ast.Name) \
                and len(s.value.args) == 1 and not s.value.keywords:
            x = s.value.func.value.id
            lt = cx.vars.get(x)
            if not islist(lt):
                raise Unsupported(f"append to {x}")
            v, vt = ex(s.value.args[0], cx)
            out.append(I + f"let {nm(x)} := {nm(x)} ++ [{coerce(v, vt, lt[1])}]")
            continue
        if isinstance(s, ast.Expr) and isinstance(s.value, ast.Call):
            v, vt = ex(s.value, cx)
            if vt != "unit":
                raise Unsupported(f"expression statement of type {vt}: {src(s)[:60]}")
            out.append(I + f"let _ := {v}")
            continue
        if isinstance(s, ast.For) and not s.orelse:
            if has_return(s.body):
                raise Unsupported("return / break / continue / raise inside a for loop")
            it, ity = ex(s.iter, cx)
            if not islist(ity) or not isinstance(s.target, ast.Name):
                raise Unsupported("for over a non-list / with a pattern target")
            check_local(s.target.id)
            vs = carried(s.body, None, cx)
            note_write(cx, vs)
            inner = cx.copy()
            inner.vars[s.target.id] = ity[1]
            body = block(s.body, inner, None, I + "    ")
            for v in vs:
                if v not in WRITABLE and cx.vars.get(v) != inner.vars.get(v):
                    raise Unsupported(f"{v} changes its type inside the loop")
            out.append(I + f"let {pack(vs)} ← ({it}).foldlM (fun {pack(vs)} {nm(s.target.id)} => do")
            out += body
            out.append(I + f"    pure {pack(vs)}) {pack(vs)}")
            continue
        if isinstance(s, ast.If):
            r1, r2 = has_return(s.body), has_return(s.orelse)
            if r1 or r2:
                if not (last and ret_ty is not None and r1 and r2 and ret_ty != "self"):
                    raise Unsupported("return inside an if that is not a tail `if … return … else … return …`")
                c = cond(s.test, cx)
                c1, c2 = cx.copy(), cx.copy()
                b1 = block(s.body, c1, ret_ty, I + "  ")
                b2 = block(s.orelse, c2, ret_ty, I + "  ")
                out.append(I + f"if {c} then (do")
                out += b1[:-1] + [b1[-1] + ")"]
                out.append(I + "else (do")
                out += b2[:-1] + [b2[-1] + ")"]
                return out
            vs = carried(s.body, s.orelse, cx)
            note_write(cx, vs)
            c1, c2 = cx.copy(), cx.copy()
            nt, il = none_test(s.test), isinstance_list_test(s.test)
            if nt is not None or il is not None:
                x = nt[0] if nt is not None else il
                xt = cx.vars.get(x)
                if nt is not None:
                    if not (isinstance(xt, tuple) and xt[0] == "opt"):
                        raise Unsupported(f"`{x} is None` on a value that is not optional")
                    pats = [("none", None), (f"some {nm(x)}", xt[1])]
                    if not nt[1]:
                        pats.reverse()
                else:
                    if not (isinstance(xt, tuple) and xt[0] == "sum" and islist(xt[2]) and not islist(xt[1][1])):
                        raise Unsupported(f"isinstance({x}, list) on a value that is not array-or-list")
                    pats = [(f"Sum.inr {nm(x)}", xt[2]), (f"Sum.inl {nm(x)}", xt[1])]
                for c, (_, t) in zip((c1, c2), pats):
                    if t is not None:
                        c.vars[x] = t
                    else:
                        c.vars.pop(x, None)
                b1 = block(s.body, c1, None, I + "      ")
                b2 = block(s.orelse, c2, None, I + "      ")
                merge_types(vs, cx, [c1, c2])
                out.append(I + f"let {pack(vs)} ← match {nm(x)} with")
                for (pat, _), b in zip(pats, (b1, b2)):
                    out.append(I + f"  | {pat} => (do")
                    out += b
                    out.append(I + f"      pure {pack(vs)})")
                continue
            c = cond(s.test, cx)
            b1 = block(s.body, c1, None, I + "    ")
            b2 = block(s.orelse, c2, None, I + "    ")
            merge_types(vs, cx, [c1, c2])
            out.append(I + f"let {pack(vs)} ← if {c} then (do")
            out += b1
            out.append(I + f"    pure {pack(vs)})")
            out.append(I + "  else (do")
            out += b2
            out.append(I + f"    pure {pack(vs)})")
            continue
        raise Unsupported(f"statement {type(s).__name__}: {src(s)[:80]}")
    if ret_ty is None:
        return out
    if ret_ty == "unit":
        out.append(I + "pure ()")
        return out
    raise Unsupported("method falls off its end")


def check_signature(f: ast.FunctionDef, params, kind, what):
    a = f.args
    if a.vararg or a.kwarg or a.kwonlyargs or a.posonlyargs:
        raise Unsupported(f"{what}: *args / **kwargs / keyword-only parameters")
    if not a.args or a.args[0].arg != "self":
        raise Unsupported(f"{what}: first parameter is not self")
    got = [(x.arg, src(x.annotation) if x.annotation is not None else None) for x in a.args[1:]]
    want = [(p, ann) for p, _, ann in params]
    if got != want:
        raise Unsupported(f"{what} has parameters {got}, the translator knows {want}")
    decos = [src(d) for d in f.decorator_list]
    if decos != (["property"] if kind == "property" else []):
        raise Unsupported(f"{what} has decorators {decos}")
    names = [x.arg for x in a.args[1:]]
    defaults = dict(zip(names[len(names) - len(a.defaults):], [src(d) for d in a.defaults]))
    return defaults


def translate_method(env: Env, cls, name, kind, params, rty) -> str:
    node = env.classes[cls][0]
    fs = [f for f in node.body if isinstance(f, ast.FunctionDef) and f.name == name]
    if len(fs) != 1:
        raise Unsupported(f"{cls}.{name} not found (once)")
    f = fs[0]
    defaults = check_signature(f, params, kind, f"{cls}.{name}")
    cx = Ctx(cls, name, env)
    for p, t, _ in params:
        check_local(p)
        cx.vars[p] = t
    body = block(list(f.body), cx, rty, "  ")
    text = "\n".join(body)
    if "ops." in text:
        cx.used.add("ops")
    if cx.written:
        cx.used.update(WRITABLE)
    implicit = [p for p in IMPLICIT_ORDER if p in cx.used]
    lname = name if cls == "DeepARTMAP" else f"{cls}_{name}"
    rt = atom(lty(SELF_TY if rty == "self" else rty))
    decl = " ".join(IMPLICIT_DECL[p] for p in implicit)
    pdecl = " ".join(f"({nm(p)} : {lty(t)})" for p, t, _ in params)
    head = f"/-- `{cls}.{name}`" + (" (property)" if kind == "property" else "") + " -/\n"
    if cx.flags["recursive"]:
        text = text.replace("{REC}", f"{lname} " + " ".join(implicit + ["fuel"]))
        text = "\n".join("  " + ln for ln in text.split("\n"))
        sig = " ".join(x for x in (decl, "(fuel : Nat)", pdecl) if x)
        out = (head + f"def {lname} {sig} :\n    Option {rt} :=\n  match fuel with\n  | 0 => none\n  | fuel + 1 => do\n"
               + text + "\n")
    else:
        sig = " ".join(x for x in (decl, pdecl) if x)
        out = head + f"def {lname} {sig} :\n    Option {rt} := do\n" + text + "\n"
    env.done[(cls, name)] = {"lname": lname, "implicit": implicit, "params": params, "rty": rty, "kind": kind,
                             "writes": bool(cx.written), "fuel": cx.flags["recursive"], "defaults": defaults}
    return out


PRELUDE = '''/-
GENERATED by harness/artv/htrans.py from {file} and {smart} — do not edit.
Regenerated on every run of the checks that name it; ArtGenProofs/DeepSpec.lean proves these definitions equal
to the DeepARTMAP / SMART model of ArtModel/Deep.lean.
-/
import ArtModel.ImpDeep

set_option linter.unusedVariables false

namespace Art.Gen.DeepARTMAP
open Art

/-- the nested estimators as DeepARTMAP's own code uses them: a module is an abstract object `M`, a layer
(a SimpleARTMAP or an ARTMAP built from modules) an abstract object `L` with these constructors, methods and
attributes (`fit` / `partial_fit` return the trained layer; `none` = the call raises).  A data matrix is a `List R`. -/
structure LayerOps (M L R ε : Type) where
  /-- `SimpleARTMAP(module_a)` -/
  mk_simple : M → L
  /-- `ARTMAP(module_a, module_b)` -/
  mk_artmap : M → M → L
  /-- `layer.fit(X, y, max_iter, match_tracking, epsilon)` with a label vector `y` -/
  fit : L → List R → List Nat → Int → String → ε → L
  /-- the same call with a data matrix `y` (the layer is an ARTMAP, `y` goes to its B-side module) -/
  fit_ab : L → List R → List R → Int → String → ε → L
  /-- `layer.partial_fit(X, y, match_tracking, epsilon)` with a label vector `y` -/
  partial_fit : L → List R → List Nat → String → ε → L
  /-- the same call with a data matrix `y` -/
  partial_fit_ab : L → List R → List R → String → ε → L
  /-- `layer.labels_` -/
  labels_ : L → List Nat
  /-- `layer.labels_a` -/
  labels_a : L → List Nat
  /-- `layer.map_a2b(y_a)` on a label vector -/
  map_a2b : L → List Nat → Option (List Nat)
  /-- `layer.predict_ab(X)` -/
  predict_ab : L → List R → Option (List Nat × List Nat)

section
variable {M L R ε : Type}

'''


def generate(repo: Path) -> str:
    repo = Path(repo)
    trees = {FILE: ast.parse((repo / FILE).read_text()), SMART_FILE: ast.parse((repo / SMART_FILE).read_text())}
    env = Env(trees)
    for c in ("DeepARTMAP", "SMART"):
        if c not in env.classes:
            raise Unsupported(f"class {c} not found")
    if env.classes["SMART"][1].get("DeepARTMAP") != "artlib.hierarchical.DeepARTMAP.DeepARTMAP":
        raise Unsupported("SMART's base is not the DeepARTMAP of artlib.hierarchical.DeepARTMAP")
    env.base("SMART")
    deep_bases = [src(b) for b in env.classes["DeepARTMAP"][0].bases]
    if deep_bases != ["BaseEstimator", "ClassifierMixin", "ClusterMixin"]:
        raise Unsupported(f"DeepARTMAP has bases {deep_bases}: a base could define what `self.m` means")
    # SMART may override only what is translated for it (a further override would change what `self.m` means
    # inside the inherited methods)
    translated = {n for c, n, _, _, _ in METHODS if c == "DeepARTMAP"}
    own = {n for c, n, _, _, _ in METHODS if c == "SMART"}
    clash = [f.name for f in env.classes["SMART"][0].body
             if isinstance(f, ast.FunctionDef) and f.name in translated and f.name not in own]
    if clash:
        raise Unsupported(f"SMART overrides {clash}: not known to the translator")
    parts = [PRELUDE.replace("{file}", FILE).replace("{smart}", SMART_FILE)]
    for cls, name, kind, params, rty in METHODS:
        parts.append(translate_method(env, cls, name, kind, params, rty))
    parts.append("end\n\nend Art.Gen.DeepARTMAP\n")
    return "\n".join(parts)


def write(repo: Path = None) -> tuple[bool, str]:
    repo = Path(repo or os.environ.get("VERIF_REPO", "/repo"))
    out = VERIF / "lean" / "ArtGen" / "Deep.lean"
    try:
        text = generate(repo)
    except (Unsupported, SyntaxError, KeyError, AttributeError, TypeError, IndexError, OSError) as e:
        return False, f"{type(e).__name__}: {e}"
    if not out.exists() or out.read_text() != text:
        tmp = out.with_suffix(".lean.tmp")
        tmp.write_text(text)
        os.replace(tmp, out)
    return True, "generated"


if __name__ == "__main__":
    import sys
    ok, msg = write(sys.argv[1] if len(sys.argv) > 1 else None)
    print(msg)
    sys.exit(0 if ok else 1)
