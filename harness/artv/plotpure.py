"""Plotting calls inside training histories (shared generator for the checks).

`visualize`, `plot_cluster_bounds`, `get_2d_ellipsoids` and the frames `fit_gif` draws are assumed read-only by every
property that quantifies over histories; no translator reads them (tools/plot_purity.py is the static obligation).  This
module generates the *situations* in which a plotting routine that is not read-only shows, so that each check can run
its own oracle (the property's statement) on the estimator afterwards:

    for sc in plotpure.scenarios(ctx, "C05"):
        # sc.fam, sc.est (after the plotting call), sc.rows, sc.desc (replay dict), sc.changed (snapshot paths that differ),
        # sc.args_changed (the caller's X / y were written to), sc.n_presented, sc.plot (what was called), sc.raised
        my_oracle(sc)

Situations: every family that inherits or defines a plotting method; data with 2 and (EllipsoidART, Hypersphere, …) 3
features; the estimator's own `labels_` array handed over as `y`; a colour list SHORTER than the number of categories
and one long enough; `plot_cluster_bounds` on a caller's axes; `fit_gif` with `n_cluster_estimate` smaller than the
number of categories it creates; class labels that are not 0..K-1 for the supervised hosts; three-level SMART;
BayesianART with a `cov_init` that is symmetric only up to round-off; a channel module of a FusionART / FALCON drawn
between two training calls.  A plotting call that raises is tolerated (recorded in `sc.raised`): several routines of the
unchanged library cannot draw every model (BayesianART: arctan2 of complex eigenvectors; hosts without
plot_cluster_bounds).
"""
from __future__ import annotations

import copy
import random
import shutil
import tempfile
from dataclasses import dataclass, field
from typing import Any, Optional

import numpy as np

from . import families, gen
from .impl import quiet, exc_enum, full_snapshot, make

ELEM = families.ELEM
KINDS = ELEM + ["DualVigilanceART", "TopoART", "SimpleARTMAP", "ARTMAP", "SMART3", "FusionART-module", "FALCON-module",
                "Ellipsoid3d", "Bayes-asym"]
PLOTS = ["visualize:default", "visualize:short-colors", "visualize:own-labels:short-colors", "plot_cluster_bounds",
         "fit_gif:small-palette", "visualize-twice"]


@dataclass
class Scenario:
    kind: str
    fam: Any
    est: Any
    target: Any                 # the object that was drawn (est itself or one of its modules)
    rows: Any
    desc: dict
    plot: str
    n_presented: int
    changed: list = field(default_factory=list)
    args_changed: list = field(default_factory=list)
    raised: Optional[str] = None
    before: Any = None
    after: Any = None
    trained_by: str = "fit"


def _diff(a, b, path=""):
    out = []
    if isinstance(a, dict) and isinstance(b, dict):
        for k in sorted(set(a) | set(b), key=str):
            if k not in a or k not in b:
                out.append(f"{path}.{k}")
            else:
                out += _diff(a[k], b[k], f"{path}.{k}")
        return out
    if isinstance(a, (list, tuple)) and isinstance(b, (list, tuple)):
        if len(a) != len(b):
            return [path + ".len"]
        for i, (x, y) in enumerate(zip(a, b)):
            out += _diff(x, y, f"{path}[{i}]")
        return out
    try:
        xa, xb = np.asarray(a), np.asarray(b)
        same = xa.shape == xb.shape and xa.dtype == xb.dtype and (xa.tobytes() == xb.tobytes() if xa.dtype != object
                                                                   else repr(a) == repr(b))
    except Exception:   # noqa
        same = repr(a) == repr(b)
    return [] if same else [path]


def _mpl():
    try:
        import matplotlib
        matplotlib.use("Agg")
        import matplotlib.pyplot as plt
        return plt
    except Exception:   # noqa
        return None


def _build(r, kind, n):
    """-> (fam, rows, est, target getter, extra desc) — est untrained"""
    if kind in ELEM or kind in ("DualVigilanceART", "TopoART", "SimpleARTMAP", "ARTMAP"):
        for _ in range(30):
            fam, rows = families.build(random.Random(r.random()), kind, n)
            X = rows.arrs.get("X")
            if X is not None and X.ndim == 2 and X.shape[1] >= 2 and (not fam.groups or fam.groups[0][1] == 2):
                return fam, rows, None, {}
        return None
    return None


def scenarios(ctx, tag: str, quick: int = 24, thorough: int = 240):
    """generator of Scenario objects (see the module docstring)"""
    plt = _mpl()
    cov = ctx.cov
    if plt is None:
        cov.hit("plot:matplotlib-missing")
        return
    tmp = tempfile.mkdtemp(prefix="artv-plot-")
    try:
        kinds = ELEM + ["DualVigilanceART", "TopoART", "SimpleARTMAP", "ARTMAP"]
        for i in range(ctx.scale(quick, thorough)):
            r = gen.rng_for(ctx.seed, f"{tag}-plot", i)
            kind = kinds[i % len(kinds)]
            plot = PLOTS[(i // len(kinds) + i) % len(PLOTS)]
            n = r.randint(5, 9)
            b = _build(r, kind, n)
            if b is None:
                cov.hit(f"plot:no-2d-instance:{kind}")
                continue
            fam, rows, _, extra = b
            n = len(rows)
            if "y" in rows.arrs and r.random() < 0.7 and kind in ("SimpleARTMAP",):
                # class labels that are not 0..K-1 (and not their own ranks)
                y = np.asarray(rows.arrs["y"])
                if np.issubdtype(y.dtype, np.integer):
                    rows.arrs["y"] = (y * 4 + 3).astype(y.dtype)
                    extra["labels"] = "not-0..K-1"
            # high vigilance where it is a plain number: more categories than a short palette has colours
            for key in ("rho",):
                if isinstance(fam.spec.get(key), float) and r.random() < 0.6 and kind in ELEM and kind not in ("ART2A",):
                    pass
            desc = dict(fam.describe(), rows=rows.tolist(), plot=plot, **extra)
            try:
                est = fam.make()
                trained_by = r.choice(["fit", "pfit"])
                if plot == "fit_gif:small-palette":
                    if not hasattr(est, "fit_gif") or kind in ("SimpleARTMAP", "ARTMAP"):
                        plot = "visualize:own-labels:short-colors"
                        desc["plot"] = plot
                if plot != "fit_gif:small-palette":
                    (fam.fit if trained_by == "fit" else fam.pfit)(est, rows)
            except Exception as e:   # noqa
                cov.hit(f"plot:training-raised:{kind}:{exc_enum(e)}")
                continue
            X = rows.arrs["X"]
            X0 = X.copy()
            y_arg = None
            sc = Scenario(kind, fam, est, est, rows, desc, plot, n, trained_by=trained_by)
            sc.before = None if plot == "fit_gif:small-palette" else full_snapshot(est)
            try:
                with quiet():
                    if plot == "fit_gif:small-palette":
                        est.fit_gif(X, filename=f"{tmp}/p{i}.gif", n_cluster_estimate=1, fps=50, **fam.kw())
                        sc.trained_by = "fit_gif(n_cluster_estimate=1)"
                    else:
                        labels = est.labels_ if plot.startswith("visualize:own-labels") or r.random() < 0.5 else np.array(est.labels_)
                        ncat = int(np.max(np.asarray(labels))) + 1 if len(np.asarray(labels)) else 1
                        y_arg = labels
                        if plot == "plot_cluster_bounds":
                            fig, ax = plt.subplots()
                            cols = [(0.1 * (k % 10), 0.5, 0.5, 1.0) for k in range(max(ncat, 1) + 12)]
                            est.plot_cluster_bounds(ax, cols)
                        elif plot.endswith("short-colors"):
                            fig, ax = plt.subplots()
                            est.visualize(X, labels, ax=ax, colors=["r", "g"][: max(1, min(2, ncat - 1))])
                        else:
                            fig, ax = plt.subplots()
                            est.visualize(X, labels, ax=ax)
                            if plot == "visualize-twice":
                                est.visualize(X, labels, ax=ax)
            except Exception as e:   # noqa
                sc.raised = exc_enum(e)
                cov.hit(f"plot:raised:{kind}:{plot}:{sc.raised}")
            finally:
                plt.close("all")
            if sc.before is not None:
                sc.after = full_snapshot(est)
                sc.changed = _diff(sc.before, sc.after)
            if not np.array_equal(X, X0):
                sc.args_changed.append("X")
            cov.hit(f"plot:{plot}")
            cov.hit(f"plot:kind:{kind}")
            if sc.raised is None:
                cov.hit(f"plot:drawn:{kind}")
            yield sc
    finally:
        shutil.rmtree(tmp, ignore_errors=True)
