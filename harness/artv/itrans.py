"""iCVI translator: the Python AST of `artlib/cvi/iCVIs/CalinkskiHarabasz.py`  ->  Lean 4 definitions.

The incremental Calinski-Harabasz index keeps its state in *dicts*: `self.CD[label]` is a dict with the keys
`n, v, CP, G`, and `add_sample / remove_sample / switch_label` return a candidate-parameter dict (`newP`) that
`update` commits.  This module translates the two module-level helpers and the methods `__init__`, `add_sample`,
`remove_sample`, `switch_label`, `update` of `iCVI_CH`, syntax-directed, into `lean/ArtGen/ICVI.lean`;
`lean/ArtGenProofs/ICVISpec.lean` proves the generated definitions equal (through the dict-as-record encoding) to the
definitions of `ArtModel/ICVI.lean` that the C15 theorems are stated about.

Everything runs in the `Option` monad: `none` = the Python code raises (`KeyError`, the explicit `raise Exception`).

Types (static, inferred bottom-up; a fixed schema gives the type of every string key and every `self` attribute):
  int -> Int      num -> α      vec -> List α      key (a cluster label) -> Nat
  rec (a string-keyed dict) -> Imp.Dict α = List (String × Imp.Val α)
  cd  (`self.CD`: label -> rec) -> List (Nat × Imp.Dict α)            [num] (the list `SEP`) -> List α

The translation table:
  x = e                              ->  let x := e
  x: T = e                           ->  let x := e                          (annotation dropped)
  7 / -1                             ->  (7 : Int) / (-(1 : Int))
  int where a number is needed       ->  ((e : Int) : α)                     (Python's int -> float promotion)
  a + b, a - b, a * b   (int, num)   ->  (a + b) …                           (an int operand is promoted next to a num)
  u + v, u - v          (vectors)    ->  vadd u v, vsub u v                  (ArtModel/Basic)
  c * v   (c int or num, v vector)   ->  smul c v
  v / c   (v vector, c int or num)   ->  Imp.vdivs v c
  a / b   (a num; b num or int)      ->  (a / b)                             (α's own division on both sides)
  v ** 2                             ->  Imp.vsq v
  u @ v                              ->  dot u v
  v.T                                ->  v                                   (transpose of a 1-D array; see DROPPED)
  v.size / x.shape[0]                ->  (v.length : Int)
  sum(e)   (vector or list)          ->  Imp.pySum e                         (left to right from 0, Python's builtin)
  len(d)                             ->  (d.length : Int)
  np.zeros(n) / np.array([])         ->  (← Imp.npZeros n) / ([] : List α)
  {}  /  {"k": e, …}                 ->  ([] : Imp.Dict α)  /  [("k", Val.ctor e), …]     (ctor from the key schema)
  d["k"]            (d a rec)        ->  (← Val.asT (← Imp.aget d "k"))      (T from the key schema; KeyError = none)
  self.CD[l]                         ->  (← Imp.aget self.CD l)
  d["k"] = e        (d created here) ->  let d := Imp.aset d "k" (Val.ctor e)
       … and, when d was stored before as p["q"] = d (aliasing!), the write goes through:
                                         let p := Imp.aset p "q" (Val.dict d)
  self.CD[l] = e                     ->  let self := { self with CD := Imp.aset self.CD l e }
  self.a = e  /  self.a += e         ->  let self := { self with a := e }  /  … := (self.a + e)
  x += e            (x a number)     ->  let x := (x + e)
  xs = [] / xs.append(e)             ->  let xs := ([] : List α) / let xs := xs ++ [e]
  k in d / k not in d                ->  (Imp.ahas d k = true) / (¬ (Imp.ahas d k = true))
  a == b, a < b, a <= b              ->  (a = b), (a < b), (a ≤ b)           (decidable propositions)
  if c: A else: B   (no return)      ->  let (vars) ← if c then (do A; pure (vars)) else (do B; pure (vars))
       vars = what a branch re-binds and is visible afterwards (bound before, or bound in both branches)
  if c: …return/raise   (no else)    ->  if c then (do …) else (do <the rest of the block>)
  for i in self.CD: B (no return)    ->  let (vars) ← (Imp.akeys self.CD).foldlM (fun (vars) i => do B; pure (vars)) (vars)
  return e / raise Exception(…)      ->  pure e / none
  f(a, b) / self.m(a, b)             ->  (← f a b) / (← m self a b)          (f, m translated from their own source)
  __init__                           ->  the structure `Self` (one field per `self.a = e`) and `init x`
  a method that writes self          ->  returns the new `self`
Anything else raises `Unsupported`: the translator fails closed.
"""
from __future__ import annotations

import ast
import os
import re
from pathlib import Path

from .ktrans import Unsupported

VERIF = Path(__file__).resolve().parents[2]
FILE = "artlib/cvi/iCVIs/CalinkskiHarabasz.py"
CLASS = "iCVI_CH"

COVERS = ("iCVI_CH.__init__, add_sample, remove_sample, switch_label, update and the helpers "
          "delta_add_sample_to_average / delta_remove_sample_from_average (CalinkskiHarabasz.py) are translated and proved "
          "to compute ArtModel/ICVI.lean's init, addSample, removeSample, switchLabel, update (hence deltaAdd, deltaRemove, "
          "cluAdd, cluRemove, chValue) on every dict-encoded state; numpy's +,-,*,/,@,**2 on 1-D arrays are the list "
          "primitives of ArtModel/Basic.lean / ImpICVI.lean over an arbitrary field (shapes and float rounding are not modelled).")

THEOREMS = [
    "ICVI.delta_add_spec", "ICVI.delta_remove_spec", "ICVI.init_spec", "ICVI.add_sample_spec",
    "ICVI.remove_sample_core", "ICVI.remove_sample_spec", "ICVI.switch_label_spec", "ICVI.switch_label_none",
    "ICVI.update_spec", "ICVI.genReach_rep", "ICVI.gen_criterion_eq_batch", "ICVI.gen_add_candidate_eq_batch",
    "ICVI.gen_switch_defined", "ICVI.gen_tracks_online",
]

DROPPED = {
    "docstrings": "expression statements that are string constants have no effect",
    "type annotations": "`x: T = e`, parameter and return annotations: the translator uses its own static types "
                        "(the source annotates the vector arguments of the delta helpers as `float`)",
    ".T": "the transpose of a 1-D numpy array is the array itself; the translator only accepts `.T` on a vector",
    "Exception message": "`raise Exception(\"…\")` is `none`; the text is not modelled",
    "import statements": "numpy / typing imports",
}

# ---- the static schema -------------------------------------------------------------------------------------------
KEYS = {"x": "vec", "label": "key", "label2": "key", "n_samples": "int", "mu": "vec", "CD": "rec", "CD2": "rec",
        "CP_diff": "num", "CP_diff2": "num", "criterion_value": "num", "n": "int", "v": "vec", "CP": "num", "G": "vec"}
SELF_ATTRS = {"dim": "int", "n_samples": "int", "mu": "vec", "CD": "cd", "WGSS": "num", "criterion_value": "num"}
LNUM = ("list", "num")
FUNCS = {
    "delta_add_sample_to_average": ([("average", "vec"), ("sample", "vec"), ("total_samples", "int")], "vec"),
    "delta_remove_sample_from_average": ([("average", "vec"), ("sample", "vec"), ("total_samples", "int")], "vec"),
}
# name -> (parameters, return type; None = the method writes self and returns it)
METHODS = {
    "add_sample": ([("x", "vec"), ("label", "key")], "rec"),
    "remove_sample": ([("x", "vec"), ("label", "key")], "rec"),
    "switch_label": ([("x", "vec"), ("label_old", "key"), ("label_new", "key")], "rec"),
    "update": ([("params", "rec")], None),
}
ORDER = ["add_sample", "remove_sample", "switch_label", "update"]       # callees first
CTOR = {"int": "Val.int", "num": "Val.num", "vec": "Val.vec", "key": "Val.key", "rec": "Val.dict"}
PROJ = {"int": "Val.asInt", "num": "Val.asNum", "vec": "Val.asVec", "key": "Val.asKey", "rec": "Val.asDict"}
KEYWORDS = {"end": "«end»", "from": "«from»", "at": "«at»", "open": "«open»", "in": "«in»", "fun": "«fun»",
            "do": "«do»", "then": "«then»", "with": "«with»", "match": "«match»", "show": "«show»", "have": "«have»"}


def lty(t) -> str:
    if t == LNUM:
        return "List α"
    return {"int": "Int", "num": "α", "vec": "List α", "key": "Nat", "rec": "Imp.Dict α",
            "cd": "List (Nat × Imp.Dict α)", "self": "Self α"}[t]


def nm(s: str) -> str:
    return KEYWORDS.get(s, s)


def src(e) -> str:
    return ast.unparse(e)


class Ctx:
    def __init__(self):
        self.vars: dict[str, object] = {}       # python local -> type
        self.owned: set[str] = set()            # dict variables created by a literal in this function
        self.aliases: dict[str, list] = {}      # owned dict variable -> [(parent variable, key)] it was stored under
        self.rebound: list[str] = []            # variables (re)bound in the current block, in order
        self.in_init = False
        self.init_fields: dict[str, str] = {}

    def copy(self):
        c = Ctx()
        c.vars, c.owned = dict(self.vars), set(self.owned)
        c.aliases = {k: list(v) for k, v in self.aliases.items()}
        c.in_init, c.init_fields = self.in_init, self.init_fields
        return c

    def bind(self, x, t):
        self.vars[x] = t
        if x not in self.rebound:
            self.rebound.append(x)


def to_num(text, t):
    if t == "num":
        return text
    if t == "int":
        if re.fullmatch(r"\(\d+ : Int\)", text):
            return f"({text} : α)"
        return f"(({text} : Int) : α)"
    raise Unsupported(f"a number is needed, {t} found ({text})")


def coerce(text, t, want):
    if t == want:
        return text
    if want == "num" and t == "int":
        return to_num(text, t)
    if t == "emptydict" and want in ("rec", "cd"):
        return f"([] : {lty(want)})"
    raise Unsupported(f"type mismatch: {t} where {want} is needed ({text})")


def self_attr(e):
    if isinstance(e, ast.Attribute) and isinstance(e.value, ast.Name) and e.value.id == "self":
        return e.attr
    return None


def str_key(e):
    if isinstance(e, ast.Constant) and isinstance(e.value, str):
        if e.value not in KEYS:
            raise Unsupported(f"dict key {e.value!r} is not in the schema")
        return e.value
    return None


def ex(e: ast.AST, cx: Ctx):
    """expression -> (Lean text, type); the text may contain nested actions `(← …)`"""
    if isinstance(e, ast.Name):
        if e.id not in cx.vars:
            raise Unsupported(f"unknown (or possibly unbound) name {e.id}")
        return nm(e.id), cx.vars[e.id]
    if isinstance(e, ast.Constant):
        if isinstance(e.value, bool) or not isinstance(e.value, int) or e.value < 0:
            raise Unsupported(f"constant {e.value!r}")
        return f"({e.value} : Int)", "int"
    if isinstance(e, ast.UnaryOp) and isinstance(e.op, ast.USub):
        a, t = ex(e.operand, cx)
        if t not in ("int", "num"):
            raise Unsupported(f"unary minus on {t}")
        return f"(-{a})", t
    a = self_attr(e)
    if a is not None:
        if a not in SELF_ATTRS:
            raise Unsupported(f"self.{a}")
        if cx.in_init:
            raise Unsupported(f"__init__ reads self.{a}")
        if "self" not in cx.vars:
            raise Unsupported("self outside a method")
        return f"self.{a}", SELF_ATTRS[a]
    if isinstance(e, ast.Attribute):
        b, bt = ex(e.value, cx)
        if e.attr == "T" and bt == "vec":
            return b, "vec"
        if e.attr == "size" and bt == "vec":
            return f"({b}.length : Int)", "int"
        raise Unsupported(f"attribute .{e.attr} of {bt}")
    if isinstance(e, ast.Subscript):
        # x.shape[0]
        if (isinstance(e.value, ast.Attribute) and e.value.attr == "shape" and isinstance(e.slice, ast.Constant)
                and e.slice.value == 0):
            b, bt = ex(e.value.value, cx)
            if bt != "vec":
                raise Unsupported(f"shape of {bt}")
            return f"({b}.length : Int)", "int"
        b, bt = ex(e.value, cx)
        k = str_key(e.slice)
        if bt == "rec" and k is not None:
            return f"(← {PROJ[KEYS[k]]} (← Imp.aget {b} \"{k}\"))", KEYS[k]
        if bt == "cd":
            i, it = ex(e.slice, cx)
            if it != "key":
                raise Unsupported(f"self.CD indexed by {it}")
            return f"(← Imp.aget {b} {i})", "rec"
        raise Unsupported(f"subscript of {bt}: {src(e)}")
    if isinstance(e, ast.BinOp):
        return binop(e, cx)
    if isinstance(e, ast.Compare):
        if len(e.ops) != 1:
            raise Unsupported("chained comparison")
        op = e.ops[0]
        if isinstance(op, (ast.In, ast.NotIn)):
            r, rt = ex(e.comparators[0], cx)
            k = str_key(e.left)
            if rt == "rec" and k is not None:
                l = f"\"{k}\""
            elif rt == "cd":
                l, lt = ex(e.left, cx)
                if lt != "key":
                    raise Unsupported(f"{lt} in self.CD")
            else:
                raise Unsupported(f"membership {src(e)}")
            t = f"(Imp.ahas {r} {l} = true)"
            return (t if isinstance(op, ast.In) else f"(¬ {t})"), "prop"
        l, lt = ex(e.left, cx)
        r, rt = ex(e.comparators[0], cx)
        sym = {ast.Eq: "=", ast.Lt: "<", ast.LtE: "≤"}.get(type(op))
        if sym is None:
            raise Unsupported(f"comparison {src(e)}")
        if lt == rt and lt in ("int", "key") and (sym == "=" or lt == "int"):
            return f"({l} {sym} {r})", "prop"
        if sym == "=" and {lt, rt} <= {"num", "int"}:
            return f"({to_num(l, lt)} = {to_num(r, rt)})", "prop"
        raise Unsupported(f"comparison {src(e)} on {lt}, {rt}")
    if isinstance(e, ast.Dict):
        if not e.keys:
            return "[]", "emptydict"
        seen, parts = set(), []
        for k_, v_ in zip(e.keys, e.values):
            k = str_key(k_) if k_ is not None else None
            if k is None or k in seen:
                raise Unsupported(f"dict literal key {src(k_) if k_ is not None else '**'}")
            seen.add(k)
            v, vt = ex(v_, cx)
            parts.append(f"(\"{k}\", {CTOR[KEYS[k]]} {coerce(v, vt, KEYS[k])})")
        return "[" + ", ".join(parts) + "]", "rec"
    if isinstance(e, ast.List) and not e.elts:
        return "([] : List α)", LNUM
    if isinstance(e, ast.Call):
        return call(e, cx)
    raise Unsupported(f"expression {type(e).__name__}: {src(e)}")


def binop(e: ast.BinOp, cx: Ctx):
    l, lt = ex(e.left, cx)
    r, rt = ex(e.right, cx)
    op = type(e.op)
    scal = ("int", "num")
    if op in (ast.Add, ast.Sub, ast.Mult) and lt in scal and rt in scal:
        s = {ast.Add: "+", ast.Sub: "-", ast.Mult: "*"}[op]
        if lt == rt == "int":
            return f"({l} {s} {r})", "int"
        return f"({to_num(l, lt)} {s} {to_num(r, rt)})", "num"
    if op in (ast.Add, ast.Sub) and lt == rt == "vec":
        return f"({'vadd' if op is ast.Add else 'vsub'} {l} {r})", "vec"
    if op is ast.Mult and lt in scal and rt == "vec":
        return f"(smul {to_num(l, lt)} {r})", "vec"
    if op is ast.Div and lt == "vec" and rt in scal:
        return f"(Imp.vdivs {l} {to_num(r, rt)})", "vec"
    if op is ast.Div and lt == "num" and rt in scal:
        return f"({l} / {to_num(r, rt)})", "num"
    if op is ast.Pow and lt == "vec" and isinstance(e.right, ast.Constant) and e.right.value == 2:
        return f"(Imp.vsq {l})", "vec"
    if op is ast.MatMult and lt == rt == "vec":
        return f"(dot {l} {r})", "num"
    raise Unsupported(f"operator in {src(e)} on {lt}, {rt}")


def call(e: ast.Call, cx: Ctx):
    f = e.func
    if e.keywords:
        raise Unsupported(f"keyword arguments in {src(e)}")
    if isinstance(f, ast.Name):
        if f.id == "len" and len(e.args) == 1:
            a, t = ex(e.args[0], cx)
            if t not in ("cd", LNUM):
                raise Unsupported(f"len of {t}")
            return f"({a}.length : Int)", "int"
        if f.id == "sum" and len(e.args) == 1:
            a, t = ex(e.args[0], cx)
            if t not in ("vec", LNUM):
                raise Unsupported(f"sum over {t}")
            return f"(Imp.pySum {a})", "num"
        if f.id in FUNCS:
            params, rty = FUNCS[f.id]
            if len(e.args) != len(params):
                raise Unsupported(f"{f.id} called with {len(e.args)} arguments")
            args = [coerce(*ex(a, cx), t) for a, (_, t) in zip(e.args, params)]
            return f"(← {f.id} " + " ".join(args) + ")", rty
        raise Unsupported(f"function {f.id}")
    if isinstance(f, ast.Attribute):
        if isinstance(f.value, ast.Name) and f.value.id == "np":
            if f.attr == "zeros" and len(e.args) == 1:
                a, t = ex(e.args[0], cx)
                if t != "int":
                    raise Unsupported(f"np.zeros of {t}")
                return f"(← Imp.npZeros {a})", "vec"
            if f.attr == "array" and len(e.args) == 1 and isinstance(e.args[0], ast.List) and not e.args[0].elts:
                return "([] : List α)", "vec"
            raise Unsupported(f"np.{f.attr}")
        if isinstance(f.value, ast.Name) and f.value.id == "self" and f.attr in METHODS:
            params, rty = METHODS[f.attr]
            if rty is None:
                raise Unsupported(f"self-writing method {f.attr} in expression position")
            if "self" not in cx.vars or cx.in_init:
                raise Unsupported("method call without self")
            if len(e.args) != len(params):
                raise Unsupported(f"{f.attr} called with {len(e.args)} arguments")
            args = [coerce(*ex(a, cx), t) for a, (_, t) in zip(e.args, params)]
            return f"(← {f.attr} self " + " ".join(args) + ")", rty
    raise Unsupported(f"call {src(e)}")


# ---------------------------------------------------------------- statements


def pack(vs):
    return "()" if not vs else nm(vs[0]) if len(vs) == 1 else "(" + ", ".join(nm(v) for v in vs) + ")"


def has_exit(stmts) -> bool:
    return any(isinstance(n, (ast.Return, ast.Raise, ast.Break, ast.Continue)) for s in stmts for n in ast.walk(s))


def write_through(d: str, cx: Ctx, out: list, I: str, seen=()):
    """`d` (an owned dict) was mutated: every slot it was stored under sees the mutation (same object)"""
    for parent, key in cx.aliases.get(d, []):
        if parent in seen:
            raise Unsupported("cyclic dict aliasing")
        if parent not in cx.vars:
            raise Unsupported(f"dict {d} is aliased by {parent} which is out of scope")
        out.append(I + f"let {nm(parent)} := Imp.aset {nm(parent)} \"{key}\" (Val.dict {nm(d)})")
        cx.bind(parent, cx.vars[parent])
        write_through(parent, cx, out, I, seen + (d,))


def assign_name(x: str, value: ast.AST, cx: Ctx, out: list, I: str):
    v, vt = ex(value, cx)
    if vt == "emptydict":
        v, vt = "([] : Imp.Dict α)", "rec"
    if vt == "prop":
        raise Unsupported("boolean variable")
    # a re-bound name is a new object: it no longer aliases anything, nothing aliases it
    cx.aliases.pop(x, None)
    for k in cx.aliases:
        if any(p == x for p, _ in cx.aliases[k]):
            raise Unsupported(f"{x} is re-bound while it holds the dict {k}")
    cx.owned.discard(x)
    if isinstance(value, ast.Dict):
        cx.owned.add(x)
    out.append(I + f"let {nm(x)} := {v}")
    cx.bind(x, vt)


def assign_self(attr: str, v: str, vt, cx: Ctx, out: list, I: str):
    if attr not in SELF_ATTRS:
        raise Unsupported(f"self.{attr} is not a known attribute")
    v = coerce(v, vt, SELF_ATTRS[attr])
    if cx.in_init:
        if attr in cx.init_fields:
            raise Unsupported(f"__init__ assigns self.{attr} twice")
        out.append(I + f"let self_{attr} : {lty(SELF_ATTRS[attr])} := {v}")
        cx.init_fields[attr] = f"self_{attr}"
        return
    if cx.vars.get("self") != "self" or not cx.vars.get("#writes"):
        raise Unsupported(f"assignment to self.{attr} in a method that returns a value")
    out.append(I + f"let self := {{ self with {attr} := {v} }}")
    cx.bind("self", "self")


def assign(target: ast.AST, value: ast.AST, cx: Ctx, out: list, I: str):
    if isinstance(target, ast.Name):
        return assign_name(target.id, value, cx, out, I)
    a = self_attr(target)
    if a is not None:
        v, vt = ex(value, cx)
        return assign_self(a, v, vt, cx, out, I)
    if isinstance(target, ast.Subscript):
        # self.CD[l] = e
        if self_attr(target.value) == "CD" and not cx.in_init:
            k, kt = ex(target.slice, cx)
            v, vt = ex(value, cx)
            if kt != "key" or vt != "rec":
                raise Unsupported(f"self.CD[{kt}] = {vt}")
            return assign_self("CD", f"Imp.aset self.CD {k} {v}", "cd", cx, out, I)
        # d["k"] = e  on a dict this function created
        if isinstance(target.value, ast.Name):
            d = target.value.id
            k = str_key(target.slice)
            if cx.vars.get(d) != "rec" or k is None:
                raise Unsupported(f"subscript assignment {src(target)}")
            if d not in cx.owned:
                raise Unsupported(f"mutation of the dict {d}, which this function did not create (aliasing)")
            v, vt = ex(value, cx)
            if vt == "emptydict":
                v, vt = "([] : Imp.Dict α)", "rec"
            out.append(I + f"let {nm(d)} := Imp.aset {nm(d)} \"{k}\" ({CTOR[KEYS[k]]} {coerce(v, vt, KEYS[k])})")
            cx.bind(d, "rec")
            # the slot d["k"] no longer holds what it held
            for o in cx.aliases:
                cx.aliases[o] = [(p, q) for p, q in cx.aliases[o] if (p, q) != (d, k)]
            if isinstance(value, ast.Name) and cx.vars.get(value.id) == "rec":
                if value.id not in cx.owned:
                    raise Unsupported(f"the dict {value.id} is stored but not created here (aliasing)")
                cx.aliases.setdefault(value.id, []).append((d, k))
            write_through(d, cx, out, I)
            return
    raise Unsupported(f"assignment target {src(target)}")


def branch(stmts, cx: Ctx, ret_ty, I):
    """a nested block: (lines, ctx after, terminated?)"""
    c = cx.copy()
    lines, term = block(stmts, c, ret_ty, I)
    return lines, c, term


def merge(cx: Ctx, cs: list[Ctx], both_needed: bool):
    """variables visible after nested blocks `cs` (all fell through), in order of first re-binding"""
    vs = []
    for c in cs:
        for v in c.rebound:
            if v in vs:
                continue
            if v in cx.vars or (both_needed and all(v in c2.rebound for c2 in cs)):
                vs.append(v)
    for v in vs:
        ts = {repr(c.vars.get(v, cx.vars.get(v))) for c in cs}
        if len(ts) != 1:
            raise Unsupported(f"{v} has different types in the two branches")
    for c in cs:
        if c.aliases != cs[0].aliases or c.owned != cs[0].owned:
            raise Unsupported("the branches leave different dict aliasing behind")
    return vs


def block(stmts, cx: Ctx, ret_ty, I="  "):
    """-> (lines, terminated?)   ret_ty: type of `return e`; None = procedure (returns self)"""
    out = []
    for idx, s in enumerate(stmts):
        if isinstance(s, ast.Expr) and isinstance(s.value, ast.Constant) and isinstance(s.value.value, str):
            continue                                                       # DROPPED: docstring
        if isinstance(s, ast.Return):
            if idx != len(stmts) - 1:
                raise Unsupported("code after return")
            if ret_ty is None or s.value is None:
                raise Unsupported("return in a procedure / bare return")
            v, vt = ex(s.value, cx)
            out.append(I + "pure " + coerce(v, vt, ret_ty))
            return out, True
        if isinstance(s, ast.Raise):
            if idx != len(stmts) - 1:
                raise Unsupported("code after raise")
            if not (isinstance(s.exc, ast.Call) and isinstance(s.exc.func, ast.Name) and s.exc.func.id == "Exception"
                    and all(isinstance(a, ast.Constant) for a in s.exc.args)) or s.cause is not None:
                raise Unsupported(f"raise {src(s)}")
            out.append(I + "none")
            return out, True
        if isinstance(s, ast.Assign) and len(s.targets) == 1:
            assign(s.targets[0], s.value, cx, out, I)
            continue
        if isinstance(s, ast.AnnAssign) and s.value is not None and s.simple in (0, 1):
            assign(s.target, s.value, cx, out, I)                          # DROPPED: the annotation
            continue
        if isinstance(s, ast.AugAssign) and isinstance(s.op, ast.Add):
            v, vt = ex(s.value, cx)
            a = self_attr(s.target)
            if a is not None and SELF_ATTRS.get(a) == "num":
                assign_self(a, f"(self.{a} + {to_num(v, vt)})", "num", cx, out, I)
                continue
            if isinstance(s.target, ast.Name) and cx.vars.get(s.target.id) == "num":
                x = s.target.id
                out.append(I + f"let {nm(x)} := ({nm(x)} + {to_num(v, vt)})")
                cx.bind(x, "num")
                continue
            raise Unsupported(f"augmented assignment {src(s)} (in-place update of a non-number)")
        if isinstance(s, ast.Expr) and isinstance(s.value, ast.Call) and isinstance(s.value.func, ast.Attribute) \
                and s.value.func.attr == "append" and isinstance(s.value.func.value, ast.Name) \
                and len(s.value.args) == 1 and not s.value.keywords:
            x = s.value.func.value.id
            if cx.vars.get(x) != LNUM:
                raise Unsupported(f"append to {x}")
            v, vt = ex(s.value.args[0], cx)
            out.append(I + f"let {nm(x)} := {nm(x)} ++ [{to_num(v, vt)}]")
            cx.bind(x, LNUM)
            continue
        if isinstance(s, ast.If):
            c, ct = ex(s.test, cx)
            if ct != "prop":
                raise Unsupported("condition is not a comparison")
            b1, c1, t1 = branch(s.body, cx, ret_ty, I + "    ")
            if t1 and not s.orelse:
                # guard: the rest of the block is the else branch
                rest, t2 = block(stmts[idx + 1:], cx, ret_ty, I + "    ")
                if not t2 and ret_ty is not None:
                    raise Unsupported("method falls off its end")
                if not t2:
                    rest.append(I + "    pure self")
                out.append(I + f"if {c} then (do")
                out += b1
                out.append(I + "    )")
                out.append(I + "  else (do")
                out += rest
                out.append(I + "    )")
                return out, True
            b2, c2, t2 = branch(s.orelse, cx, ret_ty, I + "    ")
            if t1 or t2:
                raise Unsupported("return / raise in one branch of an if-else")
            vs = merge(cx, [c1, c2], True)
            out.append(I + f"let {pack(vs)} ← if {c} then (do")
            out += b1
            out.append(I + f"    pure {pack(vs)})")
            out.append(I + "  else (do")
            out += b2
            out.append(I + f"    pure {pack(vs)})")
            for v in vs:
                cx.bind(v, c1.vars.get(v, cx.vars.get(v)))
            cx.aliases, cx.owned = c1.aliases, c1.owned
            continue
        if isinstance(s, ast.For) and not s.orelse:
            if has_exit(s.body):
                raise Unsupported("return / raise / break / continue inside a for loop")
            it, ity = ex(s.iter, cx)
            if ity != "cd" or not isinstance(s.target, ast.Name):
                raise Unsupported("for over something that is not self.CD / with a pattern target")
            if s.target.id in cx.vars:
                raise Unsupported("loop variable shadows a local")
            inner = cx.copy()
            inner.vars[s.target.id] = "key"
            body, t = block(s.body, inner, ret_ty, I + "    ")
            vs = merge(cx, [inner], False)
            for v in vs:
                if inner.vars[v] != cx.vars[v]:
                    raise Unsupported(f"{v} changes type inside the loop")
            if inner.aliases != cx.aliases or inner.owned != cx.owned:
                raise Unsupported("the loop body changes dict aliasing")
            out.append(I + f"let {pack(vs)} ← (Imp.akeys {it}).foldlM (fun {pack(vs)} {nm(s.target.id)} => do")
            out += body
            out.append(I + f"    pure {pack(vs)}) {pack(vs)}")
            for v in vs:
                cx.bind(v, cx.vars[v])
            continue
        raise Unsupported(f"statement {type(s).__name__}: {src(s)[:80]}")
    return out, False


# ---------------------------------------------------------------- definitions


def check_params(f: ast.FunctionDef, params, is_method):
    a = f.args
    if a.vararg or a.kwarg or a.kwonlyargs or a.posonlyargs or a.defaults or a.kw_defaults or f.decorator_list:
        raise Unsupported(f"{f.name}: unusual signature")
    got = [x.arg for x in a.args]
    want = (["self"] if is_method else []) + [p for p, _ in params]
    if got != want:
        raise Unsupported(f"{f.name} has parameters {got}, the translator knows {want}")


def find_func(tree, name):
    fs = [n for n in tree.body if isinstance(n, ast.FunctionDef) and n.name == name]
    if len(fs) != 1:
        raise Unsupported(f"function {name} not found exactly once")
    return fs[0]


def find_method(tree, name):
    cs = [n for n in tree.body if isinstance(n, ast.ClassDef) and n.name == CLASS]
    if len(cs) != 1:
        raise Unsupported(f"class {CLASS} not found exactly once")
    fs = [f for f in cs[0].body if isinstance(f, ast.FunctionDef) and f.name == name]
    if len(fs) != 1:
        raise Unsupported(f"{CLASS}.{name} not found exactly once")
    return fs[0]


def translate_function(tree, name) -> str:
    params, rty = FUNCS[name]
    f = find_func(tree, name)
    check_params(f, params, False)
    cx = Ctx()
    for p, t in params:
        cx.vars[p] = t
    body, term = block(f.body, cx, rty)
    if not term:
        raise Unsupported(f"{name} falls off its end")
    decl = " ".join(f"({nm(p)} : {lty(t)})" for p, t in params)
    return f"/-- `{name}` -/\ndef {name} {decl} :\n    Option ({lty(rty)}) := do\n" + "\n".join(body) + "\n"


def translate_init(tree) -> str:
    f = find_method(tree, "__init__")
    check_params(f, [("x", "vec")], True)
    cx = Ctx()
    cx.vars["x"] = "vec"
    cx.in_init = True
    body, term = block(f.body, cx, None)
    if term:
        raise Unsupported("__init__ returns / raises")
    if set(cx.init_fields) != set(SELF_ATTRS):
        raise Unsupported(f"__init__ creates {sorted(cx.init_fields)}, the translator knows {sorted(SELF_ATTRS)}")
    fields = "\n".join(f"  {a} : {lty(SELF_ATTRS[a])}" for a in cx.init_fields)
    mk = ", ".join(f"{a} := {v}" for a, v in cx.init_fields.items())
    return (f"/-- the attributes `{CLASS}.__init__` creates -/\nstructure Self (α : Type) where\n{fields}\n\n"
            f"section\nvariable {HEADER}\n\n"
            f"/-- `{CLASS}.__init__` -/\ndef init (x : List α) :\n    Option (Self α) := do\n" + "\n".join(body) +
            f"\n  pure {{ {mk} }}\n")


def translate_method(tree, name) -> str:
    params, rty = METHODS[name]
    f = find_method(tree, name)
    check_params(f, params, True)
    cx = Ctx()
    cx.vars["self"] = "self"
    if rty is None:
        cx.vars["#writes"] = True
    for p, t in params:
        cx.vars[p] = t
    body, term = block(f.body, cx, rty)
    if rty is None and not term:
        body.append("  pure self")
    elif not term:
        raise Unsupported(f"{name} falls off its end")
    decl = " ".join(f"({nm(p)} : {lty(t)})" for p, t in params)
    return (f"/-- `{CLASS}.{name}` -/\ndef {name} (self : Self α) {decl} :\n    Option ({lty(rty or 'self')}) := do\n"
            + "\n".join(body) + "\n")


HEADER = "{α : Type} [Add α] [Sub α] [Mul α] [Div α] [Zero α] [IntCast α] [DecidableEq α]"

PRELUDE = f'''/-
GENERATED by harness/artv/itrans.py from {FILE} — do not edit.
Regenerated on every run of the checks that name it; ArtGenProofs/ICVISpec.lean proves these definitions equal
(through the dict-as-record encoding) to the iCVI_CH model of ArtModel/ICVI.lean.
-/
import ArtModel.ImpICVI

set_option linter.unusedVariables false

namespace Art.Gen.ICVI
open Art Art.Imp

'''


def generate(repo: Path) -> str:
    tree = ast.parse((Path(repo) / FILE).read_text())
    for n in tree.body:
        ok = (isinstance(n, (ast.Import, ast.ImportFrom))                                  # DROPPED: imports
              or (isinstance(n, ast.Expr) and isinstance(n.value, ast.Constant) and isinstance(n.value.value, str))
              or (isinstance(n, ast.FunctionDef) and n.name in FUNCS)
              or (isinstance(n, ast.ClassDef) and n.name == CLASS))
        if not ok:
            raise Unsupported(f"top-level statement {src(n)[:60]}")
    parts = [PRELUDE, translate_init(tree)]
    for fn in FUNCS:
        parts.append(translate_function(tree, fn))
    for m in ORDER:
        parts.append(translate_method(tree, m))
    parts.append("end\n\nend Art.Gen.ICVI\n")
    return "\n".join(parts)


def write(repo: Path = None) -> tuple[bool, str]:
    repo = Path(repo or os.environ.get("VERIF_REPO", "/repo"))
    out = VERIF / "lean" / "ArtGen" / "ICVI.lean"
    try:
        text = generate(repo)
    except (Unsupported, SyntaxError, KeyError, AttributeError, TypeError, IndexError) as e:
        return False, f"{type(e).__name__}: {e}"
    if not out.exists() or out.read_text() != text:
        out.write_text(text)
    return True, "generated"


if __name__ == "__main__":
    import sys
    ok, msg = write(sys.argv[1] if len(sys.argv) > 1 else None)
    print(msg)
    sys.exit(0 if ok else 1)
