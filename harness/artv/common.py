"""Shared plumbing: number encoding, the Lean driver, issues, evidence, verdict."""
from __future__ import annotations

import json
import math
import os
import struct
import subprocess
import sys
import time
import hashlib
from fractions import Fraction
from pathlib import Path
from typing import Any, Iterable, Optional

VERIF = Path(__file__).resolve().parents[2]
REPO = Path(os.environ.get("VERIF_REPO", "/repo"))
LEAN_DIR = VERIF / "lean"
ARTDRV = LEAN_DIR / ".lake" / "build" / "bin" / "artdrv"
PY = sys.executable

# ---------------------------------------------------------------- numbers


def f2hex(x: float) -> str:
    x = float(x)
    if math.isnan(x):
        return "nan"
    return struct.pack(">d", x).hex()


def hex2f(s: str) -> float:
    if s == "nan":
        return float("nan")
    return struct.unpack(">d", bytes.fromhex(s))[0]


def q2s(x) -> str:
    """exact rational text of a float / int / Fraction"""
    q = Fraction(x) if not isinstance(x, Fraction) else x
    return str(q.numerator) if q.denominator == 1 else f"{q.numerator}/{q.denominator}"


def s2q(s: str) -> Fraction:
    return Fraction(s)


def vec_q(v) -> str:
    v = list(v)
    return ",".join(q2s(float(t)) for t in v) if v else "-"


def mat_q(m) -> str:
    m = list(m)
    return "|".join(vec_q(r) for r in m) if m else "-"


def vec_f(v) -> str:
    v = list(v)
    return ",".join(f2hex(t) for t in v) if v else "-"


def mat_f(m) -> str:
    m = list(m)
    return "|".join(vec_f(r) for r in m) if m else "-"


def nats(v) -> str:
    v = list(v)
    return ",".join(str(int(t)) for t in v) if v else "-"


def parse_nats(s: str):
    return [] if s in ("-", "") else [int(t) for t in s.split(",")]


def parse_optnats(s: str):
    return [] if s in ("-", "") else [None if t == "-" else int(t) for t in s.split(",")]


def parse_vec_q(s: str):
    return [] if s in ("-", "") else [Fraction(t) for t in s.split(",")]


def parse_mat_q(s: str):
    return [] if s in ("-", "") else [parse_vec_q(r) for r in s.split("|")]


def parse_vec_f(s: str):
    return [] if s in ("-", "") else [hex2f(t) for t in s.split(",")]


def parse_mat_f(s: str):
    return [] if s in ("-", "") else [parse_vec_f(r) for r in s.split("|")]


def parse_kv(line: str) -> dict:
    """`a=1 b=2` -> dict"""
    out = {}
    for tok in line.split(" "):
        if "=" in tok:
            k, v = tok.split("=", 1)
            out[k] = v
    return out


# ---------------------------------------------------------------- driver


class DriverError(RuntimeError):
    pass


def run_driver(lines: list[str], shards: int = 8) -> list[str]:
    """Pipe protocol lines through the compiled Lean model; one output per line."""
    if not lines:
        return []
    if not ARTDRV.exists():
        raise DriverError(f"driver binary missing: {ARTDRV}")
    for ln in lines:
        if "\n" in ln:
            raise DriverError("newline inside protocol line")
    shards = max(1, min(shards, len(lines) // 50 + 1))
    chunks = [lines[i::shards] for i in range(shards)]
    procs = []
    for ch in chunks:
        p = subprocess.Popen([str(ARTDRV)], stdin=subprocess.PIPE, stdout=subprocess.PIPE,
                             stderr=subprocess.PIPE, text=True)
        procs.append((p, ch))
    outs: list[Optional[str]] = [None] * len(lines)
    # communicate sequentially (each process buffers its own IO)
    import threading
    results = [None] * shards

    def work(i):
        p, ch = procs[i]
        o, e = p.communicate("\n".join(ch) + "\n")
        results[i] = (o, e, p.returncode)

    ths = [threading.Thread(target=work, args=(i,)) for i in range(shards)]
    for t in ths:
        t.start()
    for t in ths:
        t.join()
    for i, (o, e, rc) in enumerate(results):
        got = o.split("\n")
        if got and got[-1] == "":
            got.pop()
        if rc != 0 or len(got) != len(chunks[i]):
            raise DriverError(f"driver shard {i}: rc={rc} lines={len(got)}/{len(chunks[i])} err={e[:300]}")
        for j, g in enumerate(got):
            outs[i + j * shards] = g
    return outs  # type: ignore


# ---------------------------------------------------------------- issues


class Issue:
    """Something a check found.

    kind: 'violation'  the property itself fails on the implementation (oracle), replayable
          'diff'       model and implementation disagree (correspondence)
          'audit'      a proof obligation no longer checks
    signature: stable text identifying the failing site/condition (matched against known findings)
    """

    def __init__(self, kind: str, prop: str, signature: str, what: str, replay: Any = None):
        self.kind, self.prop, self.signature, self.what, self.replay = kind, prop, signature, what, replay

    def __repr__(self):
        return f"Issue({self.kind},{self.prop},{self.signature},{self.what[:120]})"


def load_known() -> list[dict]:
    out = []
    p = VERIF / "known_findings.json"
    if p.exists():
        out += json.loads(p.read_text()).get("findings", [])
    d = VERIF / "known_findings.d"
    if d.is_dir():
        for q in sorted(d.glob("*.json")):
            out += json.loads(q.read_text()).get("findings", [])
    return out


def known_match(issue: Issue, known: list[dict]) -> Optional[dict]:
    for k in known:
        if k.get("status") != "known":
            continue
        if issue.prop in k.get("properties", [k.get("property")]) and k["signature"] == issue.signature:
            return k
    return None


def jsonable(x):
    import numpy as np
    if isinstance(x, dict):
        return {str(k): jsonable(v) for k, v in x.items()}
    if isinstance(x, (list, tuple)):
        return [jsonable(v) for v in x]
    if isinstance(x, np.ndarray):
        return jsonable(x.tolist())
    if isinstance(x, (np.integer,)):
        return int(x)
    if isinstance(x, (np.floating,)):
        return float(x)
    if isinstance(x, Fraction):
        return q2s(x)
    if isinstance(x, float) and (math.isnan(x) or math.isinf(x)):
        return repr(x)
    if isinstance(x, (str, int, float, bool)) or x is None:
        return x
    return repr(x)


def write_replay(prop: str, tag: str, payload: dict) -> str:
    d = VERIF / "replays"
    d.mkdir(exist_ok=True)
    body = json.dumps(jsonable(payload), indent=1, sort_keys=True)
    h = hashlib.sha1(body.encode()).hexdigest()[:10]
    p = d / f"{prop}-{tag}-{h}.json"
    p.write_text(body)
    return str(p.relative_to(VERIF))


class Coverage:
    """Counts what a run actually exercised."""

    def __init__(self):
        self.branches: dict[str, int] = {}
        self.samples: list = []
        self.evaluations = 0
        self.distinct: set = set()
        self.traces = 0

    def hit(self, name: str, n: int = 1):
        self.branches[name] = self.branches.get(name, 0) + n

    def case(self, key, nontrivial: bool = True):
        self.evaluations += 1
        if nontrivial:
            self.distinct.add(hashlib.sha1(repr(key).encode()).hexdigest()[:12])

    def sample(self, s, limit=4):
        if len(self.samples) < limit:
            self.samples.append(jsonable(s))
