"""Estimator-protocol translator, third part: the parameter protocol and the constructors of the compound estimators
that `qtrans` / `q2trans` do not cover.  Python AST of
  BARTMAP.__init__ / __getattr__ / __setattr__ / get_params / set_params / validate_params   (artlib/biclustering/BARTMAP.py)
  get_channel_position_tuples, FusionART.__init__ / get_params / validate_params             (artlib/fusion/FusionART.py)
  DeepARTMAP.__init__                                                                        (artlib/hierarchical/DeepARTMAP.py)
  FALCON.__init__, TD_FALCON.__init__                                                        (artlib/reinforcement/FALCON.py)
and, because FusionART calls it (`super().__init__(params)`), once more `BaseART.__init__ / __getattr__ / __setattr__`
->  Lean 4 definitions (`lean/ArtGen/Params3.lean`, namespace `Art.Gen.Params3`).
NOT translated (out of this slice): `SMART.__init__` (it instantiates a class object passed as an argument,
`np.diff`, `**kwargs`).

It is `q2trans` extended the way `q2trans` extends `qtrans`: this module loads a PRIVATE instance of
`harness/artv/q2trans.py` (which loads its own private instance of `qtrans.py`; the public module objects are not
touched) and replaces, in these private instances only, the dispatch functions `ex / call / compare / assign /
call_stmt / for_loop / assigned / as_slot / new_ctx` by the functions below.  Each handles the constructs listed under
"additions" and falls back to the previous function for everything else, so every rule of the tables in the docstrings
of `qtrans` and `q2trans` applies unchanged and the recursion into sub-expressions / sub-statements always comes back
through the extended dispatch.

Class families (checked on the class header and body).
  *own*   BARTMAP — sklearn's BaseEstimator / BiclusterMixin, and its own `__getattr__` / `__setattr__`: `self.a = e` and
          `setattr(self, k, v)` are calls of the translated `BARTMAP.__setattr__`, a load `self.a` is the instance
          `__dict__` and then the translated `BARTMAP.__getattr__`; `super().__setattr__` is `object.__setattr__`.
          BARTMAP has no subclass in artlib: `self.get_params(deep=True)` and `self.validate_params(d)` are calls of the
          translated `BARTMAP.get_params` / the static `BARTMAP.validate_params`.
  *baseart* FusionART — a subclass of BaseART (its `__setattr__` / `__getattr__` are BaseART's, translated here again).
  *plain* DeepARTMAP, FALCON, TD_FALCON — no `__setattr__` / `__getattr__`: `self.a = e` is `object.__setattr__`.
No class may define `__getattribute__`, `__delattr__`, `__getstate__`, `__setstate__`, `__slots__`; no property / method /
class attribute may carry the name of an attribute the translated constructor stores.

Values.  The constructors of FusionART / DeepARTMAP / FALCON store Python lists (of estimators, of `(start, end)` tuples),
numbers they compute and a freshly constructed FusionART object in the instance `__dict__`; the value universe
`Params.Val` has none of these.  These methods therefore run on the *wide* world of `lean/ArtModel/ImpParams3.lean`
(`Q3.World`: a `__dict__` entry is a `Q3.Slot` = the params dict | a `Val` | a list of `Val` | a list of number pairs |
a number | a reference into the heap of constructed objects), reached from the text that the rules of `qtrans` /
`q2trans` produce by the fixed renaming `WIDE` of the world-dependent helper names (`Q.M -> Q3.M`, `Q.Slot -> Q3.Slot`,
`Q.selfParams -> Q3.selfParams`, `Q.objectSetattr -> Q3.objectSetattr`, `Q2.Ext -> Q3.Ext`, …: the helpers of
ImpParams3 are those of ImpParams / ImpParams2 word for word, over the wider slot type).  BARTMAP runs on the world of
`qtrans` (`Q.World`), unchanged.  Static types added: vals (`List Val`), ranges (`List (Rat × Rat)`), rat (`Rat`: a Python
number), nat (`Nat`: a `len`), bools (`List Bool`).  A constructor argument annotated `List[BaseART]` / `list[BaseART]` is
a vals, every other one a val.

additions to the tables of `qtrans` and `q2trans` (⟦e⟧ = the rendering of e)
  statements
    x = self.params                           ->  let _ ← Q.selfParams   and x becomes an ALIAS of the dict object
                                                  `self.params` (no copy): a load of x is `(← Q.selfParams)`, `x[k] = v` is
                                                  `Q.paramsSetitem k v` (rules of qtrans), and
    x.update(g)        (x an alias)           ->  Q3.paramsUpdate ⟦g⟧      (writes the live dict)
    x = self.get_params(deep=b)  (own family) ->  let x ← C.get_params [ext] ⟦b⟧ — a snapshot; but when the translated
                                                  `C.get_params` returns an alias of `self.params`, x is an ALIAS too
                                                  (`let _ ← …`, rule of qtrans)
    self.a = e         (own family)           ->  C.__setattr__ "a" ⟦e as slot⟧
    setattr(self, k, v) (own family)          ->  C.__setattr__ ⟦k⟧ ⟦v as slot⟧
    super().__setattr__(k, v)  (in C.__setattr__, own family; C's bases are sklearn mixins)
                                              ->  Q.objectSetattr ⟦k⟧ ⟦v⟧
    self.validate_params(d)  (own family, C.validate_params a staticmethod)
                                              ->  Q.Py.lift (C.validate_params ⟦d⟧)
    self.a = e         (wide world)           ->  the rules of qtrans / q2trans (`BaseART.__setattr__ "a" …` in the baseart
                                                  family, `Q.objectSetattr "a" …` in the plain family) with
                                                  as slot:  vals l -> (Q.Slot.vals l);  ranges l -> (Q.Slot.ranges l);
                                                            rat q -> (Q.Slot.num q);  nat n -> (Q.Slot.num ((n : Nat) : Rat));
                                                  the static type of e is recorded as the type of the attribute a (C.stores)
    x = e              (e of type rat / nat / vals / ranges / bools, or a number literal: rat)   ->  let x := ⟦e⟧
    x = []             (x a name that receives `.append((a, b))` in the same function)   ->  let x := ([] : List (Rat × Rat))
    x.append((a, b))   (x ranges; a, b rat)   ->  let x := x ++ [(⟦a⟧, ⟦b⟧)]
    for x in v: B      (v a val)              ->  let (vars) ← Q.Py.forEach (← lift (Q3.iterNums ⟦v⟧)) (vars) (fun x (vars) => do ⟦B⟧; pure (vars))
                                                  (iterating anything but a list / an array of numbers: TypeError)
    for i, m in enumerate(e): B  (e vals)     ->  … Q.Py.forEach (Q2.enumerate ⟦e⟧) (vars) (fun (i, m) (vars) => …)   i : nat, m : val
    super().__init__(params)  (FusionART)     ->  BaseART.__init__ (fun p => Q.Py.lift (FusionART.validate_params [num] p)) ⟦params⟧
    super(C, self).__init__(a, …)  (C = TD_FALCON, base FALCON translated here)
                                              ->  FALCON.__init__ [num] ⟦a⟧ …
    a Lean keyword used as a Python name (`end`)   ->  «end»
  expressions
    self.a             (own family, a a nested-estimator attribute)
                                              ->  (← Q2.selfAttrB C.__getattr__ "a")
    self.get_params(deep=b)  (own family)     ->  (← C.get_params [ext] ⟦b⟧)
    self.a             (wide world, baseart; a an attribute the constructor stores, by its recorded type)
                                              ->  val: (← Q2.selfAttrB BaseART.__getattr__ "a");  vals: (← Q3.selfVals BaseART.__getattr__ "a");
                                                  ranges: (← Q3.selfRanges BaseART.__getattr__ "a")
    len(e)             (e vals / val)         ->  (List.length ⟦e⟧) : nat  /  (← lift (Q3.lenVal ⟦e⟧)) : nat   (TypeError unless sized)
    n1 == n2 == n3     (nat)                  ->  let t1 := ⟦n1⟧; let t2 ← ⟦n2⟧; let t3 ← (if t1 = t2 then do pure (decide (t2 = ⟦n3⟧)) else pure false)
                                                  (left to right; the third term is evaluated only when the first two agree)
    n >= c             (nat, int literal)     ->  (decide (⟦n⟧ ≥ c))
    c1 >= x >= c2      (literal, rat, literal)->  (decide (⟦x⟧ ≤ c1) && decide (c2 ≤ ⟦x⟧))
    x == c             (rat, literal)         ->  (decide (⟦x⟧ = c))
    x + y              (rat, rat)             ->  (⟦x⟧ + ⟦y⟧)
    [e1, e2, …]        (vals)                 ->  [⟦e1⟧, ⟦e2⟧, …] : vals
    [b for x in v]     (v val, b a pure bool) ->  (List.map (fun x => ⟦b⟧) (← lift (Q3.iterNums ⟦v⟧))) : bools
    all(l)             (l bools)              ->  (List.all ⟦l⟧ id)
    sum(v)             (v val)                ->  (← lift (num.sum ⟦v⟧)) : rat     Python's built-in `sum` is NOT translated
                                                  (float additions round): `num : Q3.Num` is a parameter of the definition
    isinstance(v, (T1, T2)) / isinstance(v, list)   ->  (⟦isinstance(v, T1)⟧ || ⟦isinstance(v, T2)⟧), v evaluated once / (Q3.isList ⟦v⟧)
    f"s{i}"            (i nat)                ->  ("s" ++ toString i)
    np.array([c1, c2, …])  (number literals)  ->  (Val.arr [c1, c2, …])     (only in default values)
    f(e)               (f a module-level function translated here, e val)   ->  (← f ⟦e⟧)
    ⟨val⟩.get_params() (wide world)           ->  (← ext.get_params ⟦val⟧)     (ext : Q3.Ext)
    C(k1=e1, …)        (C = FusionART, translated here; the keyword names must be exactly C's parameters)
                                              ->  (← Q3.newObject (FusionART.__init__ [num] ⟦e_modules⟧ ⟦e_gamma⟧ ⟦e_dims⟧)) : slot
                                                  (the constructor runs on a fresh instance; its `__dict__` goes to the heap)
  definitions
    def f(arg): …      (module level, one argument)   ->  f (arg : Val) : Q3.M (List (Rat × Rat))   (it may raise; it writes nothing)
    C.__init__         (wide world)           ->  C.args, C.defaults (the default values that are values), C.opaque_defaults (the
                                                  others, as source text: FALCON's `channel_dims=list[int]`), C.stores, C.__init__
Anything else raises `Unsupported`: the translator fails closed (a store to an attribute of a module — `m.dim_ = …` — in
particular).
"""
from __future__ import annotations

import ast
import importlib.util
import os
import re
import sys
from pathlib import Path

from .ktrans import Unsupported
from . import q2trans as _public_q2trans   # noqa: F401  (the public module; only its file name is used)

VERIF = Path(__file__).resolve().parents[2]


def _private_q2trans():
    """a private instance of q2trans.py (with its own private qtrans): their dispatch functions are replaced below"""
    pkg = __package__ or "artv"
    name = pkg + "._q2trans_for_q3trans"
    spec = importlib.util.spec_from_file_location(name, Path(__file__).with_name("q2trans.py"))
    mod = importlib.util.module_from_spec(spec)
    sys.modules[name] = mod
    spec.loader.exec_module(mod)
    return mod


P = _private_q2trans()
Q = P.Q

FILES = {
    "BaseART": "artlib/common/BaseART.py",
    "BARTMAP": "artlib/biclustering/BARTMAP.py",
    "FusionART": "artlib/fusion/FusionART.py",
    "DeepARTMAP": "artlib/hierarchical/DeepARTMAP.py",
    "FALCON": "artlib/reinforcement/FALCON.py",
    "TD_FALCON": "artlib/reinforcement/FALCON.py",
}
Q.FILES = FILES
P.FILES = FILES

# class -> expected bases
OWN = {"BARTMAP": ["BaseEstimator", "BiclusterMixin"]}
P.NESTED_ATTRS["BARTMAP"] = ["module_a", "module_b"]
# the classes whose constructors run on the wide world: class -> (family, expected bases)
WIDE_CLASSES = {"FusionART": ("baseart", ["BaseART"]),
                "DeepARTMAP": ("plain", ["BaseEstimator", "ClassifierMixin", "ClusterMixin"]),
                "FALCON": ("plain", []), "TD_FALCON": ("plain", ["FALCON"])}
# module-level functions translated here: name -> (file key, argument type, result type)
FUNCTIONS = {"get_channel_position_tuples": ("FusionART", "val", "ranges")}
# the fixed renaming that moves the text produced by the rules of qtrans / q2trans to the wide world of ImpParams3
WIDE = {"Q.M": "Q3.M", "Q.Slot": "Q3.Slot", "Q.selfParams": "Q3.selfParams", "Q.selfDict": "Q3.selfDict",
        "Q.slotHas": "Q3.slotHas", "Q.asVal": "Q3.asVal", "Q.paramsSetitem": "Q3.paramsSetitem",
        "Q.objectSetattr": "Q3.objectSetattr", "Q.pyGetattr": "Q3.pyGetattr", "Q2.selfAttr": "Q3.selfAttr",
        "Q2.selfAttrB": "Q3.selfAttrB", "Q2.Ext": "Q3.Ext"}
LEAN_KEYWORDS = {"end", "at", "from", "have", "show", "open", "section", "namespace", "instance", "where", "then", "do",
                 "fun", "by", "calc", "theorem", "def", "let", "in", "mut", "match", "with", "if", "else", "for", "return",
                 "variable", "universe", "import", "export", "local", "private", "protected", "macro", "syntax", "notation"}
# class -> {attribute: static type} for the attributes the translated constructor stores (what a later load `self.a` is)
ATTR_TYPES: dict[str, dict[str, object]] = {}
LTY3 = {"vals": "List Val", "ranges": "List (Rat × Rat)", "rat": "Rat", "nat": "Nat", "bools": "List Bool", "val": "Val"}
NEW_TYPES = ("vals", "ranges", "rat", "nat", "bools")


def widen(text: str) -> str:
    """apply the renaming WIDE to every dotted identifier of the text (exact match of the identifier or of a prefix
    followed by `.`)"""
    def sub(m):
        ident = m.group(0)
        for k in sorted(WIDE, key=len, reverse=True):
            if ident == k or ident.startswith(k + "."):
                return WIDE[k] + ident[len(k):]
        return ident
    return re.sub(r"(?<![\w.«])Q2?\.[A-Za-z_][\w.]*", sub, text)


def lean_ident(n: str) -> str:
    return f"«{n}»" if n in LEAN_KEYWORDS else n

DROPPED = dict(P.DROPPED, **{
    "self dispatch (own family)": "BARTMAP has no subclass in artlib: `self.get_params(…)` / `self.validate_params(…)` / "
                                  "`setattr(self, …)` are the class's own methods (an instance of exactly this class)",
    "deep": "BARTMAP.get_params / FusionART.get_params ignore their `deep` argument (the source does): it stays a parameter",
})

_prev = {n: getattr(P, n) for n in ("ex", "call", "compare", "assign", "call_stmt", "block", "assigned", "new_ctx")}
_prev["as_slot"] = Q.as_slot
_prev["for_loop"] = Q.for_loop
src, lstr, self_attr = Q.src, Q.lstr, Q.self_attr

# class -> does the translated get_params return an alias of self.params (the live dict)?
GET_PARAMS_REF: dict[str, bool] = {}
# class -> does the translated get_params use `ext`?
GET_PARAMS_EXT: dict[str, bool] = {}


def new_ctx(cls, method, mode, **kw):
    wide = kw.pop("wide", False)
    cx = _prev["new_ctx"](cls, method, mode, **kw)
    if cls in OWN:
        cx.family = "own"
    if cls in WIDE_CLASSES:
        cx.family = WIDE_CLASSES[cls][0]
    cx.wide = wide or cls in WIDE_CLASSES
    cx.uses_num = False
    cx.range_names = set()
    return cx


def as_slot(text, t, cx):
    if t == "vals":
        return f"(Q.Slot.vals {text})"
    if t == "ranges":
        return f"(Q.Slot.ranges {text})"
    if t == "rat":
        return f"(Q.Slot.num {text})"
    if t == "nat":
        return f"(Q.Slot.num (({text} : Nat) : Rat))"
    return _prev["as_slot"](text, t, cx)


def pure_text(x: str) -> bool:
    return "←" not in x


# ------------------------------------------------------------------------------------------- expressions


def attr_load(a, cx):
    """a load `self.a` in a class of the wide world: typed by what the constructor stored there"""
    ty = ATTR_TYPES.get(cx.cls, {}).get(a)
    if ty is None:
        raise Unsupported(f"load of self.{a}: the constructor of {cx.cls} stores no such attribute")
    if cx.family == "plain":
        if ty == "val":
            return f"(← Q2.selfAttr {lstr(a)})", "val"
        raise Unsupported(f"load of self.{a} ({ty}) in the plain family")
    if ty == "val":
        return f"(← Q2.selfAttrB BaseART.__getattr__ {lstr(a)})", "val"
    if ty == "vals":
        return f"(← Q3.selfVals BaseART.__getattr__ {lstr(a)})", "vals"
    if ty == "ranges":
        return f"(← Q3.selfRanges BaseART.__getattr__ {lstr(a)})", "ranges"
    raise Unsupported(f"load of self.{a} ({ty})")


def ex(e, cx):
    a = self_attr(e)
    if a is not None and a not in ("params", "__dict__") and getattr(cx, "wide", False) and cx.cls in WIDE_CLASSES:
        if cx.mode != "py":
            raise Unsupported("self in a static function")
        return attr_load(a, cx)
    if isinstance(e, ast.Name) and cx.vars.get(e.id) in NEW_TYPES:
        return lean_ident(e.id), cx.vars[e.id]
    if getattr(cx, "wide", False):
        if isinstance(e, ast.BinOp) and isinstance(e.op, ast.Add):
            (l, lt), (r, rt) = ex(e.left, cx), ex(e.right, cx)
            if lt == "rat" and rt == "rat":
                return f"({l} + {r})", "rat"
            if lt == "str" and rt == "str":
                return f"({l} ++ {r})", "str"
            raise Unsupported(f"{src(e)}: {lt} + {rt}")
        if isinstance(e, ast.JoinedStr):
            parts = []
            for v in e.values:
                if isinstance(v, ast.Constant) and isinstance(v.value, str):
                    parts.append(lstr(v.value))
                elif isinstance(v, ast.FormattedValue) and v.conversion == -1 and v.format_spec is None \
                        and isinstance(v.value, ast.Name) and cx.vars.get(v.value.id) == "nat":
                    parts.append(f"toString {lean_ident(v.value.id)}")
                else:
                    raise Unsupported(f"f-string part {src(v)}")
            if not parts:
                raise Unsupported("empty f-string")
            return "(" + " ++ ".join(parts) + ")", "str"
        if isinstance(e, ast.List) and e.elts:
            parts = [ex(x, cx) for x in e.elts]
            if any(t != "val" for _, t in parts):
                raise Unsupported(f"list literal {src(e)}")
            return "[" + ", ".join(x for x, _ in parts) + "]", "vals"
        if isinstance(e, ast.ListComp):
            if len(e.generators) != 1:
                raise Unsupported(src(e))
            g = e.generators[0]
            if g.ifs or g.is_async or not isinstance(g.target, ast.Name):
                raise Unsupported(src(e))
            it, itt = ex(g.iter, cx)
            if itt != "val":
                raise Unsupported(f"comprehension over {itt}: {src(e)}")
            x = g.target.id
            if cx.vars.get(x) == ("alias",):
                raise Unsupported("comprehension variable shadows an alias")
            saved = dict(cx.vars)
            cx.vars[x] = "rat"
            el, elt = ex(e.elt, cx)
            cx.vars = saved
            if elt != "bool" or not pure_text(el):
                raise Unsupported(f"comprehension element {src(e.elt)} : {elt}")
            return f"(List.map (fun {lean_ident(x)} => {el}) {cx.lift(f'Q3.iterNums {it}')})", "bools"
    if a is not None and a not in ("params", "__dict__") and getattr(cx, "family", None) == "own":
        if cx.mode != "py":
            raise Unsupported("self in a static function")
        if a not in P.NESTED_ATTRS.get(cx.cls, []):
            raise Unsupported(f"load of self.{a}")
        return f"(← Q2.selfAttrB {cx.cls}.__getattr__ {lstr(a)})", "val"
    return _prev["ex"](e, cx)


def isinstance_one(v, ty, e, cx):
    if ty == "list":
        return f"(Q3.isList {v})"
    if ty == "np.ndarray":
        return f"(Q.isinstance {v} Q.PyType.ndarray)"
    if ty == "float":
        return f"(Q.isinstance {v} Q.PyType.float)"
    raise Unsupported(src(e))


def compare(e, cx):
    if getattr(cx, "wide", False):
        ops, terms = e.ops, [e.left] + list(e.comparators)
        saved_pre, saved_fresh = list(cx.pre), cx.fresh
        parts = [ex(x, cx) for x in terms]
        tys = [t for _, t in parts]
        # c1 >= g >= c2 : literal, number, literal
        if len(ops) == 2 and all(isinstance(o, ast.GtE) for o in ops) and Q.is_num(tys[0]) and tys[1] == "rat" \
                and Q.is_num(tys[2]) and pure_text(parts[1][0]):
            return f"(decide ({parts[1][0]} ≤ {parts[0][0]}) && decide ({parts[2][0]} ≤ {parts[1][0]}))", "bool"
        # n1 == n2 == n3 on lengths: left to right, the third term only when the first two are equal
        if len(ops) == 2 and all(isinstance(o, ast.Eq) for o in ops) and all(t == "nat" for t in tys):
            ts = []
            for (x, _) in parts[:2]:
                tt = cx.tmp()
                cx.pre.append(f"let {tt} ← {Q.strip_arrow(x)}" if x.startswith("(← ") and x.count("←") == 1
                              else f"let {tt} := {x}" if pure_text(x) else f"let {tt} ← pure {x}")
                ts.append(tt)
            t3 = cx.tmp()
            cx.pre.append(f"let {t3} ← (if {ts[0]} = {ts[1]} then do pure (decide ({ts[1]} = {parts[2][0]})) else pure false)")
            return t3, "bool"
        # n >= c on a length
        if len(ops) == 1 and isinstance(ops[0], ast.GtE) and tys[0] == "nat" and Q.is_num(tys[1]) and tys[1][2] == "int":
            return f"(decide ({parts[0][0]} ≥ {tys[1][1]}))", "bool"
        # x == c on numbers
        if len(ops) == 1 and isinstance(ops[0], ast.Eq) and tys[0] == "rat" and Q.is_num(tys[1]):
            return f"(decide ({parts[0][0]} = {parts[1][0]}))", "bool"
        cx.pre, cx.fresh = saved_pre, saved_fresh
    return _prev["compare"](e, cx)


def call(e, cx):
    f = e.func
    if getattr(cx, "wide", False) and isinstance(f, ast.Name) and not any(isinstance(a, ast.Starred) for a in e.args):
        if f.id == "len" and len(e.args) == 1 and not e.keywords:
            x, xt = ex(e.args[0], cx)
            if xt == "vals":
                return f"(List.length {x})", "nat"
            if xt == "val":
                return cx.lift(f"Q3.lenVal {x}"), "nat"
            raise Unsupported(f"len of {xt}")
        if f.id == "sum" and len(e.args) == 1 and not e.keywords:
            x, xt = ex(e.args[0], cx)
            if xt != "val":
                raise Unsupported(f"sum of {xt}")
            cx.uses_num = True
            return cx.lift(f"num.sum {x}"), "rat"
        if f.id == "all" and len(e.args) == 1 and not e.keywords:
            x, xt = ex(e.args[0], cx)
            if xt != "bools":
                raise Unsupported(f"all of {xt}")
            return f"(List.all {x} id)", "bool"
        if f.id == "isinstance" and len(e.args) == 2 and not e.keywords and (
                isinstance(e.args[1], ast.Tuple) or src(e.args[1]) == "list"):
            v, vt = ex(e.args[0], cx)
            if vt != "val":
                raise Unsupported(src(e))
            if not pure_text(v):                     # evaluated once
                tt = cx.tmp()
                cx.pre.append(f"let {tt} ← {Q.strip_arrow(v)}" if v.startswith("(← ") and v.count("←") == 1
                              else f"let {tt} ← pure {v}")
                v = tt
            tys = [src(x) for x in e.args[1].elts] if isinstance(e.args[1], ast.Tuple) else [src(e.args[1])]
            if not tys:
                raise Unsupported(src(e))
            return "(" + " || ".join(isinstance_one(v, ty, e, cx) for ty in tys) + ")", "bool"
        if f.id in FUNCTIONS and f.id in EMITTED_FUNCTIONS and len(e.args) == 1 and not e.keywords:
            if cx.mode != "py":
                raise Unsupported(f"{f.id} in a static function")
            x, xt = ex(e.args[0], cx)
            if xt != FUNCTIONS[f.id][1]:
                raise Unsupported(f"{f.id}({xt})")
            return f"(← {f.id} {x})", FUNCTIONS[f.id][2]
        if f.id in WIDE_CLASSES and f.id in P.INITS:
            # C(k1=e1, …): a new object
            if cx.mode != "py" or e.args:
                raise Unsupported(src(e))
            info = P.INITS[f.id]
            kw = {k.arg: k.value for k in e.keywords}
            if None in kw or sorted(kw) != sorted(info["args"]) or len(kw) != len(e.keywords):
                raise Unsupported(f"{src(e)}: keyword arguments do not match {info['args']}")
            # Python evaluates the keyword values in the order written
            vals = {}
            for k in e.keywords:
                x, xt = ex(k.value, cx)
                if xt != info["types"][k.arg]:
                    raise Unsupported(f"{f.id}({k.arg}= a {xt})")
                if not pure_text(x):
                    raise Unsupported(f"{src(k.value)}: an argument with effects")
                vals[k.arg] = x
            if info["uses_num"]:
                cx.uses_num = True
            head = f"{f.id}.__init__ " + ("num " if info["uses_num"] else "") + " ".join(vals[a] for a in info["args"])
            return f"(← Q3.newObject ({head}))", "slot"
    if getattr(cx, "wide", False) and isinstance(f, ast.Attribute) and isinstance(f.value, ast.Name) and f.value.id == "np" \
            and f.attr == "array" and len(e.args) == 1 and not e.keywords and isinstance(e.args[0], ast.List):
        xs = []
        for x in e.args[0].elts:
            if not (isinstance(x, ast.Constant) and isinstance(x.value, (int, float)) and not isinstance(x.value, bool)):
                raise Unsupported(src(e))
            xs.append(Q.rat(Q.lit_value(x.value)))
        return "(Val.arr [" + ", ".join(xs) + "])", "val"
    if getattr(cx, "wide", False) and isinstance(f, ast.Attribute) and f.attr == "get_params" and self_attr(f) is None \
            and not e.args and not e.keywords:
        v, vt = ex(f.value, cx)
        if vt != "val":
            raise Unsupported(src(e))
        cx.uses_ext = True
        return f"(← ext.get_params {v})", "store"
    if isinstance(f, ast.Attribute) and self_attr(f) == "get_params" and getattr(cx, "family", None) == "own":
        if cx.mode != "py" or e.args or len(e.keywords) != 1 or e.keywords[0].arg != "deep":
            raise Unsupported(src(e))
        if cx.cls not in GET_PARAMS_REF:
            raise Unsupported(f"{cx.cls}.get_params is not translated yet")
        b, bt = ex(e.keywords[0].value, cx)
        if bt != "bool":
            raise Unsupported(src(e))
        if GET_PARAMS_EXT[cx.cls]:
            cx.uses_ext = True
        return f"(← {cx.cls}.get_params " + ("ext " if GET_PARAMS_EXT[cx.cls] else "") + f"{b})", "store"
    return _prev["call"](e, cx)


# ------------------------------------------------------------------------------------------- statements


def assign(t, value, cx, I):
    if getattr(cx, "wide", False):
        # x = [] for a name that later receives `.append((a, b))`
        if isinstance(t, ast.Name) and isinstance(value, ast.List) and not value.elts and t.id in cx.range_names:
            cx.vars[t.id] = "ranges"
            return [I + f"let {lean_ident(t.id)} := ([] : List (Rat × Rat))"]
        if isinstance(t, ast.Name) and cx.vars.get(t.id) != ("alias",):
            saved_pre, saved_fresh = list(cx.pre), cx.fresh
            v, vt = ex(value, cx)
            if Q.is_num(vt):
                vt = "rat"
            if vt in NEW_TYPES:
                if t.id in cx.vars and cx.vars[t.id] != vt:
                    raise Unsupported(f"{t.id} changes its type to {vt}")
                out = []
                Q.flush(cx, out, I)
                out.append(I + f"let {lean_ident(t.id)} := {v}")
                cx.vars[t.id] = vt
                return out
            cx.pre, cx.fresh = saved_pre, saved_fresh
        a = self_attr(t)
        if a is not None and cx.cls in WIDE_CLASSES:
            if cx.method != "__init__":
                raise Unsupported(f"store to self.{a} outside the constructor")
            saved_pre, saved_fresh = list(cx.pre), cx.fresh
            _, vt = ex(value, cx)
            cx.pre, cx.fresh = saved_pre, saved_fresh
            if Q.is_num(vt):
                vt = "val"
            if vt == "store" and a != "params":
                raise Unsupported(f"self.{a} = a dict")
            ATTR_TYPES.setdefault(cx.cls, {})[a] = vt
    # x = self.params : an alias of the live dict
    if isinstance(t, ast.Name) and self_attr(value) == "params":
        if cx.mode != "py":
            raise Unsupported("self in a static function")
        if t.id in cx.vars:
            raise Unsupported(f"re-binding of {t.id} to the live params dict")
        cx.vars[t.id] = ("alias",)
        return [I + "let _ ← Q.selfParams"]
    a = self_attr(t)
    if a is not None and getattr(cx, "family", None) == "own":
        if cx.mode != "py":
            raise Unsupported("store to self in a static function")
        out = []
        v, vt = ex(value, cx)
        sl = Q.as_slot(v, vt, cx)
        Q.flush(cx, out, I)
        out.append(I + f"{cx.cls}.__setattr__ {lstr(a)} {sl}")
        return out
    return _prev["assign"](t, value, cx, I)


def call_stmt(e, cx, I):
    out = []
    f = e.func
    if cx.mode == "py" and getattr(cx, "wide", False):
        # x.append((a, b))
        if isinstance(f, ast.Attribute) and f.attr == "append" and isinstance(f.value, ast.Name) and len(e.args) == 1 \
                and not e.keywords and cx.vars.get(f.value.id) == "ranges" and isinstance(e.args[0], ast.Tuple) \
                and len(e.args[0].elts) == 2:
            (a, at), (b, bt) = ex(e.args[0].elts[0], cx), ex(e.args[0].elts[1], cx)
            if at != "rat" or bt != "rat":
                raise Unsupported(src(e))
            Q.flush(cx, out, I)
            x = lean_ident(f.value.id)
            out.append(I + f"let {x} := {x} ++ [({a}, {b})]")
            return out
        sup = P.is_super_init(e)
        if sup is not None and cx.cls in WIDE_CLASSES:
            if cx.method != "__init__" or e.keywords or (sup != "implicit" and sup != cx.cls):
                raise Unsupported(src(e))
            bases = WIDE_CLASSES[cx.cls][1]
            if bases == ["BaseART"]:
                args = [ex(a, cx) for a in e.args]
                if len(args) != 1 or args[0][1] != "store":
                    raise Unsupported(src(e))
                if P.VALIDATE.get(cx.cls) != "static":
                    raise Unsupported(f"{cx.cls} has no translated static validate_params")
                if VALIDATE_NUM.get(cx.cls):
                    cx.uses_num = True
                vp = f"(fun p => Q.Py.lift ({cx.cls}.validate_params " + ("num " if VALIDATE_NUM.get(cx.cls) else "") + "p))"
                Q.flush(cx, out, I)
                out.append(I + f"BaseART.__init__ {vp} {args[0][0]}")
                return out
            if len(bases) == 1 and bases[0] in WIDE_CLASSES and bases[0] in P.INITS:
                info = P.INITS[bases[0]]
                args = [ex(a, cx) for a in e.args]
                if len(args) != len(info["args"]) or [t for _, t in args] != [info["types"][a] for a in info["args"]]:
                    raise Unsupported(src(e))
                if info["uses_num"]:
                    cx.uses_num = True
                Q.flush(cx, out, I)
                out.append(I + f"{bases[0]}.__init__ " + ("num " if info["uses_num"] else "") + " ".join(a for a, _ in args))
                return out
            raise Unsupported(f"super().__init__ in {cx.cls}")
    if cx.mode == "py" and getattr(cx, "family", None) == "own":
        if isinstance(f, ast.Name) and f.id == "setattr" and len(e.args) == 3 and not e.keywords \
                and isinstance(e.args[0], ast.Name) and e.args[0].id == "self":
            k, kt = ex(e.args[1], cx)
            v, vt = ex(e.args[2], cx)
            if kt != "str":
                raise Unsupported(src(e))
            sl = Q.as_slot(v, vt, cx)
            Q.flush(cx, out, I)
            out.append(I + f"{cx.cls}.__setattr__ {k} {sl}")
            return out
        if Q.is_super_call(e, "__setattr__"):
            if cx.method != "__setattr__" or len(e.args) != 2 or e.keywords:
                raise Unsupported(src(e))
            k, kt = ex(e.args[0], cx)
            v, vt = ex(e.args[1], cx)
            if kt != "str" or vt != "slot":
                raise Unsupported(src(e))
            Q.flush(cx, out, I)
            out.append(I + f"Q.objectSetattr {k} {v}")
            return out
        if self_attr(f) == "validate_params" and len(e.args) == 1 and not e.keywords:
            if P.VALIDATE.get(cx.cls) != "static":
                raise Unsupported(f"{cx.cls}.validate_params is not a translated staticmethod")
            d, dt = ex(e.args[0], cx)
            if dt != "store":
                raise Unsupported(src(e))
            Q.flush(cx, out, I)
            out.append(I + f"Q.Py.lift ({cx.cls}.validate_params {d})")
            return out
    # x.update(g) through an alias of self.params
    if cx.mode == "py" and isinstance(f, ast.Attribute) and f.attr == "update" and isinstance(f.value, ast.Name) \
            and cx.vars.get(f.value.id) == ("alias",) and len(e.args) == 1 and not e.keywords:
        g, gt = ex(e.args[0], cx)
        if gt != ("pairs",):
            raise Unsupported(src(e))
        Q.flush(cx, out, I)
        out.append(I + f"Q3.paramsUpdate {g}")
        return out
    return _prev["call_stmt"](e, cx, I)


def assigned(stmts):
    """the previous `assigned`, plus the local lists changed in place by `x.append(…)`"""
    out = _prev["assigned"](stmts)
    for s in stmts:
        for n in ast.walk(s):
            if isinstance(n, ast.Expr) and isinstance(n.value, ast.Call) and isinstance(n.value.func, ast.Attribute) \
                    and n.value.func.attr == "append" and isinstance(n.value.func.value, ast.Name) \
                    and n.value.func.value.id not in out:
                out.append(n.value.func.value.id)
    return out


def for_loop(s, cx, I):
    if not getattr(cx, "wide", False):
        return _prev["for_loop"](s, cx, I)
    if s.orelse or cx.mode != "py":
        raise Unsupported("for/else, or a loop in a static function")
    if any(isinstance(n, (ast.Return, ast.Break, ast.Continue)) for b in s.body for n in ast.walk(b)):
        raise Unsupported("return / break / continue inside a loop")
    out = []
    # for i, m in enumerate(e)  (e a list of objects)
    if isinstance(s.iter, ast.Call) and isinstance(s.iter.func, ast.Name) and s.iter.func.id == "enumerate" \
            and len(s.iter.args) == 1 and not s.iter.keywords and isinstance(s.target, ast.Tuple) \
            and len(s.target.elts) == 2 and all(isinstance(x, ast.Name) for x in s.target.elts):
        it, itt = ex(s.iter.args[0], cx)
        if itt != "vals":
            raise Unsupported(f"enumerate of {itt}")
        Q.flush(cx, out, I)
        names = [x.id for x in s.target.elts]
        pat = "(" + ", ".join(lean_ident(n) for n in names) + ")"
        types = {names[0]: "nat", names[1]: "val"}
        iter_text = f"(Q2.enumerate {it})"
    elif isinstance(s.target, ast.Name):
        it, itt = ex(s.iter, cx)
        if itt != "val":
            return _prev["for_loop"](s, cx, I)
        Q.flush(cx, out, I)
        names = [s.target.id]
        pat = lean_ident(s.target.id)
        types = {s.target.id: "rat"}
        iter_text = cx.lift(f"Q3.iterNums {it}")
    else:
        return _prev["for_loop"](s, cx, I)
    before = dict(cx.vars)
    if any(before.get(n) == ("alias",) for n in names):
        raise Unsupported("loop variable shadows an alias")
    re_bound = assigned(s.body)
    car = [n for n in before if n in re_bound and before[n] != ("alias",)]
    cx.vars.update(types)
    cpat = Q.tuple_pat([lean_ident(n) for n in car])
    body = Q.block(s.body, cx, I + "  ", [f"pure {cpat}"])
    for n in car:
        if cx.vars.get(n) != before[n]:
            raise Unsupported(f"the loop changes the type of {n}")
    cx.vars = before
    body[-1] += ")"
    if car:
        out.append(I + f"let {cpat} ← Q.Py.forEach {iter_text} {cpat} (fun {pat} {cpat} => do")
    else:
        out.append(I + f"Q.Py.forEach {iter_text} () (fun {pat} _ => do")
    return out + body


for _n, _f in (("ex", ex), ("call", call), ("compare", compare), ("assign", assign), ("call_stmt", call_stmt),
               ("new_ctx", new_ctx), ("assigned", assigned), ("as_slot", as_slot), ("for_loop", for_loop)):
    if hasattr(P, _n):
        setattr(P, _n, _f)
    if hasattr(Q, _n):
        setattr(Q, _n, _f)

EMITTED_FUNCTIONS: set[str] = set()
# class -> does its static validate_params take the `num` parameter (Python's sum)?
VALIDATE_NUM: dict[str, bool] = {}


# ------------------------------------------------------------------------------------------ definitions


def class_def(repo, cls):
    return Q.class_def(repo, cls)


def check_own_family(repo, cls) -> ast.ClassDef:
    cd = class_def(repo, cls)
    if [src(b) for b in cd.bases] != OWN[cls]:
        raise Unsupported(f"{cls} bases {[src(b) for b in cd.bases]}, expected {OWN[cls]}")
    names = [n.name for n in cd.body if isinstance(n, ast.FunctionDef)]
    for n in ("__getattribute__", "__delattr__", "__setstate__", "__getstate__", "__getattr__ ", "__slots__"):
        if n in names:
            raise Unsupported(f"{cls} defines {n}")
    for n in ("__getattr__", "__setattr__", "__init__", "get_params", "set_params", "validate_params"):
        if names.count(n) != 1:
            raise Unsupported(f"{cls}: {names.count(n)} definitions of {n}")
    # no class attribute / property / method shadows an instance attribute the protocol uses
    f = Q.method(cd, "__init__")
    args = [x.arg for x in f.args.args[1:]]
    reserved = set(args) | set(P.NESTED_ATTRS.get(cls, [])) | {"params"}
    for n in cd.body:
        if isinstance(n, ast.FunctionDef) and n.name in reserved:
            raise Unsupported(f"{cls}: a method / property named {n.name}")
        if isinstance(n, ast.Assign):
            raise Unsupported(f"{cls}: class attribute {src(n)[:40]}")
        if isinstance(n, ast.AnnAssign) and (n.value is not None or src(n.target) in reserved):
            raise Unsupported(f"{cls}: class attribute {src(n)[:40]}")
    return cd


def emit_proto_method(cd: ast.ClassDef, cls: str, name: str) -> str:
    """`__getattr__` / `__setattr__` of a class of the own family (signatures as BaseART's: the table of qtrans)"""
    f = Q.method(cd, name)
    Q.check_base_sig(f, name)
    params, rty = Q.BASE_SIG[name]
    cx = new_ctx(cls, name, "py")
    cx.ret = rty
    for p in params:
        cx.vars[p[0].lstrip("*")] = p[1]
    body = P.block(f.body, cx, "  ", ["pure ()"] if rty == "unit" else None)
    if cx.ext or cx.uses_ext:
        raise Unsupported(f"{cls}.{name} touches a nested estimator")
    decl = " ".join(f"({p[0].lstrip('*')} : {Q.LTY[p[1]]})" for p in params)
    return (f"/-- `{cls}.{name}` -/\n"
            f"def {cls}.{name} {decl} :\n    Q.M {Q.LTY[rty]} := do\n" + "\n".join(body) + "\n")


def emit_get_params_own(cd: ast.ClassDef, cls: str) -> str:
    f = Q.method(cd, "get_params")
    a = P.plain_sig(f, cls)
    got = [(x.arg, src(x.annotation) if x.annotation else None) for x in a.args[1:]]
    if f.decorator_list or a.kwarg or got != [("deep", "bool")] or [src(d) for d in a.defaults] != ["True"]:
        raise Unsupported(f"{cls}.get_params: parameters {got}")
    stmts = [s for s in f.body if not Q.is_doc(s)]
    if not (stmts and isinstance(stmts[-1], ast.Return) and isinstance(stmts[-1].value, ast.Name)):
        raise Unsupported(f"{cls}.get_params does not return a local name")
    cx = new_ctx(cls, "get_params", "py", consts=P.class_consts(cd))
    cx.ret = "store"
    cx.vars["deep"] = "bool"
    body = P.block(f.body, cx, "  ", None)
    GET_PARAMS_REF[cls] = cx.vars.get(stmts[-1].value.id) == ("alias",)
    GET_PARAMS_EXT[cls] = cx.uses_ext
    decl = ("(ext : Q2.Ext) " if cx.uses_ext else "") + "(deep : Bool)"
    note = " — it returns the LIVE `self.params` dict" if GET_PARAMS_REF[cls] else ""
    return (f"/-- `{cls}.get_params`{note} -/\n"
            f"def {cls}.get_params {decl} : Q.M Store := do\n" + "\n".join(body) + "\n")


def emit_set_params_own(cd: ast.ClassDef, cls: str) -> str:
    f = Q.method(cd, "set_params")
    a = P.plain_sig(f, cls)
    if f.decorator_list or a.args[1:] or not a.kwarg or a.kwarg.arg != "params" or a.defaults:
        raise Unsupported(f"{cls}.set_params: unusual signature")
    allow = ["ext_set_params"]
    cx = new_ctx(cls, "set_params", "py", returns_params_ref=GET_PARAMS_REF[cls], allow_ext=allow)
    cx.ret = "unit"
    cx.vars["params"] = "store"
    body = P.block(f.body, cx, "  ", ["pure ()"])
    if sorted(cx.ext) != sorted(allow):
        raise Unsupported(f"{cls}.set_params uses {cx.ext}, expected {allow}")
    decl = ("(ext : Q2.Ext) " if cx.uses_ext else "") + "".join(f"({e} : {Q.EXT_TYPES[e]}) " for e in allow) \
        + "(params : Store)"
    return (f"/-- `{cls}.set_params` -/\n"
            f"def {cls}.set_params {decl} :\n    Q.M Unit := do\n" + "\n".join(body) + "\n")


def emit_own(repo, cls) -> list[str]:
    cd = check_own_family(repo, cls)
    parts = [emit_proto_method(cd, cls, "__getattr__"), emit_proto_method(cd, cls, "__setattr__"),
             P.emit_validate(repo, cls)]
    if P.VALIDATE.get(cls) != "static":
        raise Unsupported(f"{cls}.validate_params is not static")
    parts.append(P.emit_init(repo, cls))
    if P.INITS[cls]["uses_ext"]:
        raise Unsupported(f"{cls}.__init__ touches a nested estimator")
    parts.append(emit_get_params_own(cd, cls))
    parts.append(emit_set_params_own(cd, cls))
    return parts


# ---- the wide world: FusionART, DeepARTMAP, FALCON, TD_FALCON


def property_names(cd: ast.ClassDef) -> list[str]:
    out = []
    for n in cd.body:
        if isinstance(n, ast.FunctionDef) and n.decorator_list:
            for d in n.decorator_list:
                if (isinstance(d, ast.Name) and d.id == "property") or (isinstance(d, ast.Attribute) and d.attr in
                                                                         ("setter", "getter", "deleter")):
                    if n.name not in out:
                        out.append(n.name)
    return out


def check_wide_class(repo, cls) -> ast.ClassDef:
    cd = class_def(repo, cls)
    fam, bases = WIDE_CLASSES[cls]
    if [src(b) for b in cd.bases] != bases:
        raise Unsupported(f"{cls} bases {[src(b) for b in cd.bases]}, expected {bases}")
    for n in cd.body:
        if isinstance(n, ast.FunctionDef) and n.name in ("__getattribute__", "__delattr__", "__setstate__", "__getstate__",
                                                          "__setattr__", "__getattr__", "__new__", "__init_subclass__"):
            raise Unsupported(f"{cls} defines {n.name}")
        if isinstance(n, ast.Assign) and any(isinstance(x, ast.Name) and x.id == "__slots__" for x in n.targets):
            raise Unsupported(f"{cls} defines __slots__")
    return cd


def arg_type(x: ast.arg) -> str:
    """static type of a constructor argument, by its annotation: `List[BaseART]` / `list[BaseART]` is a Python list of
    objects, everything else a value"""
    ann = src(x.annotation) if x.annotation else ""
    return "vals" if ann in ("List[BaseART]", "list[BaseART]") else "val"


def emit_function(repo, name: str) -> str:
    """a module-level function of one argument (py mode: it may raise; it has no `self` and writes nothing)"""
    key, aty, rty = FUNCTIONS[name]
    tree = ast.parse((Path(repo) / FILES[key]).read_text())
    fs = [n for n in tree.body if isinstance(n, ast.FunctionDef) and n.name == name]
    if len(fs) != 1:
        raise Unsupported(f"function {name}: {len(fs)} definitions")
    f = fs[0]
    a = f.args
    if f.decorator_list or a.vararg or a.kwarg or a.kwonlyargs or a.posonlyargs or a.defaults or len(a.args) != 1:
        raise Unsupported(f"{name}: unusual signature")
    cx = new_ctx(key, name, "py", wide=True)
    cx.cls = "<module>"
    cx.family = "function"
    cx.ret = rty
    arg = a.args[0].arg
    cx.vars[arg] = aty
    for n in ast.walk(f):
        if isinstance(n, ast.Call) and isinstance(n.func, ast.Attribute) and n.func.attr == "append" \
                and isinstance(n.func.value, ast.Name) and len(n.args) == 1 and isinstance(n.args[0], ast.Tuple):
            cx.range_names.add(n.func.value.id)
        if isinstance(n, ast.Attribute) and isinstance(n.value, ast.Name) and n.value.id == "self":
            raise Unsupported(f"{name} uses self")
    body = P.block(f.body, cx, "  ", None)
    if cx.uses_ext or cx.ext or cx.uses_num:
        raise Unsupported(f"{name} uses an external member")
    EMITTED_FUNCTIONS.add(name)
    return (f"/-- `{name}` (module level) -/\n"
            f"def {name} ({lean_ident(arg)} : {LTY3[aty]}) : Q.M ({LTY3[rty]}) := do\n" + "\n".join(body) + "\n")


def emit_validate_wide(repo, cls) -> str:
    cd = class_def(repo, cls)
    g = Q.method(cd, "validate_params")
    ga = g.args
    if ga.vararg or ga.kwarg or ga.kwonlyargs or ga.posonlyargs or ga.defaults or [x.arg for x in ga.args] != ["params"] \
            or [src(d) for d in g.decorator_list] != ["staticmethod"]:
        raise Unsupported(f"{cls}.validate_params: not a staticmethod of one argument")
    cx = new_ctx(cls, "validate_params", "exc", consts=P.class_consts(cd))
    cx.ret = "unit"
    cx.vars["params"] = "store"
    body = P.block(g.body, cx, "  ", ["pure ()"])
    if cx.uses_ext:
        raise Unsupported(f"{cls}.validate_params (static) touches a nested estimator")
    P.VALIDATE[cls] = "static"
    VALIDATE_NUM[cls] = cx.uses_num
    decl = ("(num : Q3.Num) " if cx.uses_num else "") + "(params : Store)"
    return (f"/-- `{cls}.validate_params` (static)" + ("; `num.sum` is Python's `sum`" if cx.uses_num else "") + " -/\n"
            f"def {cls}.validate_params {decl} : Except Err Unit := do\n" + "\n".join(body) + "\n")


def emit_init_wide(repo, cls, inherited_attrs=()) -> str:
    cd = check_wide_class(repo, cls)
    f = Q.method(cd, "__init__")
    a = P.plain_sig(f, cls)
    if f.decorator_list or a.kwarg:
        raise Unsupported(f"{cls}.__init__: unusual signature")
    args = [x.arg for x in a.args[1:]]
    types = {x.arg: arg_type(x) for x in a.args[1:]}
    defaults, opaque = [], []
    for x, d in zip(a.args[1 + len(args) - len(a.defaults):], a.defaults):
        cx0 = new_ctx(cls, "__init__", "py")
        try:
            v, vt = ex(d, cx0)
            defaults.append(f"({lstr(x.arg)}, {Q.as_val(v, vt, cx0)})")
        except Unsupported:
            if not src(d).isprintable() or "\\" in src(d) or '"' in src(d):
                raise Unsupported(f"default value {src(d)!r}")
            opaque.append(f"({lstr(x.arg)}, \"{src(d)}\")")
    out = [f"/-- `inspect.signature({cls}.__init__)` without `self` -/\n"
           f"def {cls}.args : List String := [" + ", ".join(lstr(x) for x in args) + "]\n",
           f"/-- the default values of `{cls}.__init__` that are values of the protocol's universe -/\n"
           f"def {cls}.defaults : Store := [" + ", ".join(defaults) + "]\n",
           f"/-- the other default values of `{cls}.__init__`, as source text (not rendered: no value of the universe) -/\n"
           f"def {cls}.opaque_defaults : List (String × String) := [" + ", ".join(opaque) + "]\n"]
    cx = new_ctx(cls, "__init__", "py", consts=P.class_consts(cd))
    cx.ret = "unit"
    for x in args:
        cx.vars[x] = types[x]
    ATTR_TYPES[cls] = {}
    body = P.block(f.body, cx, "  ", ["pure ()"])
    if cx.uses_ext or cx.ext:
        raise Unsupported(f"{cls}.__init__ reads or calls a member of a nested estimator")
    stored = set(ATTR_TYPES[cls]) | set(inherited_attrs)
    bad = [n for n in property_names(cd) if n in stored or n in args]
    if bad:
        raise Unsupported(f"{cls}: property / setter for the stored attributes {bad}")
    P.INITS[cls] = {"uses_ext": False, "uses_num": cx.uses_num, "args": args, "types": types}
    out.append(f"/-- the attributes `{cls}.__init__` itself stores, with their static types -/\n"
               f"def {cls}.stores : List (String × String) := ["
               + ", ".join(f"({lstr(k)}, {lstr(str(v))})" for k, v in ATTR_TYPES[cls].items()) + "]\n")
    decl = ("(num : Q3.Num) " if cx.uses_num else "") + " ".join(f"({lean_ident(x)} : {LTY3[types[x]]})" for x in args)
    out.append(f"/-- `{cls}.__init__` -/\n"
               f"def {cls}.__init__ {decl}".rstrip() + " : Q.M Unit := do\n" + "\n".join(body) + "\n")
    return "\n".join(out)


def emit_get_params_wide(repo, cls) -> str:
    cd = class_def(repo, cls)
    f = Q.method(cd, "get_params")
    a = P.plain_sig(f, cls)
    got = [(x.arg, src(x.annotation) if x.annotation else None) for x in a.args[1:]]
    if f.decorator_list or a.kwarg or got != [("deep", "bool")] or [src(d) for d in a.defaults] != ["True"]:
        raise Unsupported(f"{cls}.get_params: parameters {got}")
    stmts = [s for s in f.body if not Q.is_doc(s)]
    if not (stmts and isinstance(stmts[-1], ast.Return) and isinstance(stmts[-1].value, ast.Name)):
        raise Unsupported(f"{cls}.get_params does not return a local name")
    cx = new_ctx(cls, "get_params", "py", consts=P.class_consts(cd))
    cx.ret = "store"
    cx.vars["deep"] = "bool"
    body = P.block(f.body, cx, "  ", None)
    GET_PARAMS_REF[cls] = cx.vars.get(stmts[-1].value.id) == ("alias",)
    GET_PARAMS_EXT[cls] = cx.uses_ext
    if cx.uses_num:
        raise Unsupported(f"{cls}.get_params uses sum")
    decl = ("(ext : Q2.Ext) " if cx.uses_ext else "") + "(deep : Bool)"
    note = " — it returns the LIVE `self.params` dict" if GET_PARAMS_REF[cls] else ""
    return (f"/-- `{cls}.get_params`{note} -/\n"
            f"def {cls}.get_params {decl} : Q.M Store := do\n" + "\n".join(body) + "\n")


def emit_wide(repo) -> list[str]:
    parts = []
    base = class_def(repo, "BaseART")
    if [src(b) for b in base.bases] != ["BaseEstimator", "ClusterMixin"]:
        raise Unsupported(f"BaseART bases {[src(b) for b in base.bases]}")
    for n in base.body:
        if isinstance(n, ast.FunctionDef) and n.name in ("__getattribute__", "__delattr__", "__setstate__", "__getstate__"):
            raise Unsupported(f"BaseART defines {n.name}")
    ref = Q.get_params_returns_ref(base)
    for name in ("__getattr__", "__setattr__", "__init__"):
        parts.append(P.emit_base(base, name, ref))
    base_init_attrs = ["params", "sample_counter_", "weight_sample_counter_", "d_min_", "d_max_"]
    # ---- FusionART
    parts.append(emit_function(repo, "get_channel_position_tuples"))
    fu = check_wide_class(repo, "FusionART")
    if any(isinstance(n, ast.FunctionDef) and n.name == "set_params" for n in fu.body):
        raise Unsupported("FusionART defines set_params")
    parts.append(emit_validate_wide(repo, "FusionART"))
    parts.append(emit_init_wide(repo, "FusionART", inherited_attrs=base_init_attrs))
    parts.append(emit_get_params_wide(repo, "FusionART"))
    if GET_PARAMS_REF["FusionART"] is None:
        raise Unsupported("FusionART.get_params")
    # ---- DeepARTMAP, FALCON, TD_FALCON
    parts.append(emit_init_wide(repo, "DeepARTMAP"))
    parts.append(emit_init_wide(repo, "FALCON"))
    parts.append(emit_init_wide(repo, "TD_FALCON", inherited_attrs=list(ATTR_TYPES.get("FALCON", {}))))
    return [widen(x) for x in parts]


PRELUDE = '''/-
GENERATED by harness/artv/q3trans.py from {files} — do not edit.
Regenerated on every run of the checks that name it; ArtGenProofs/Params3Spec.lean proves these definitions equal to the
reference semantics of ArtModel/Params3.lean (C19).
-/
import ArtModel.ImpParams3

set_option linter.unusedVariables false

namespace Art.Gen.Params3
open Art
open Art.Params (Val Err Store)

'''


def generate(repo: Path) -> str:
    repo = Path(repo)
    P.INITS.clear()
    P.VALIDATE.clear()
    GET_PARAMS_REF.clear()
    GET_PARAMS_EXT.clear()
    parts = [PRELUDE.replace("{files}", ", ".join(dict.fromkeys(FILES.values())))]
    ATTR_TYPES.clear()
    EMITTED_FUNCTIONS.clear()
    VALIDATE_NUM.clear()
    parts += emit_own(repo, "BARTMAP")
    parts.append("/-! ### the wide world (`Q3.World`): FusionART, DeepARTMAP, FALCON, TD_FALCON -/\n")
    parts += emit_wide(repo)
    parts.append("end Art.Gen.Params3\n")
    return "\n".join(parts)


def write(repo: Path = None) -> tuple[bool, str]:
    repo = Path(repo or os.environ.get("VERIF_REPO", "/repo"))
    out = VERIF / "lean" / "ArtGen" / "Params3.lean"
    try:
        text = generate(repo)
    except (Unsupported, SyntaxError, KeyError, AttributeError, TypeError, IndexError, ValueError, OSError) as e:
        return False, f"{type(e).__name__}: {e}"
    if not out.exists() or out.read_text() != text:
        tmp = out.with_suffix(".lean.tmp")
        tmp.write_text(text)
        os.replace(tmp, out)
    return True, "generated"


# proof obligations of lean/ArtGenProofs/Params3Spec.lean, relative to namespace Art.GenSpec
THEOREMS: list[str] = ["Params3." + t for t in [
    # BARTMAP: generated = reference, for all instance dicts / call logs / keyword lists / nested estimators
    "BARTMAP_getattr_eq", "BARTMAP_setattr_eq", "BARTMAP_attr_mirrors", "BARTMAP_attr_write_mirrors", "BARTMAP_validate",
    "BARTMAP_init_spec", "BARTMAP_get_params_spec", "b_loop1", "b_loop2", "BARTMAP_set_params_spec",
    # BARTMAP: the C19 clauses on the generated code
    "BARTMAP_get_params_readonly", "BARTMAP_unknown_rejected", "BARTMAP_invalid_rejected",
    "BARTMAP_new_module_gets_nested", "bSetParams_fixed", "BARTMAP_set_get_noop",
    "BARTMAP_init_example", "BARTMAP_get_params_example", "BARTMAP_set_get_example", "BARTMAP_set_examples",
    "BARTMAP_attr_examples",
    # FusionART
    "get_channel_position_tuples_spec", "channelRanges_get", "channelRanges_length", "channelRanges_consecutive",
    "channelRanges_last", "FusionART_validate_spec", "FusionART_init_spec", "FusionART_init_ok",
    "FusionART_get_params_spec", "FusionART_init_example",
    # DeepARTMAP, FALCON, TD_FALCON
    "DeepARTMAP_init_spec", "FALCON_init_spec", "TD_FALCON_init_spec", "FALCON_init_ok", "FALCON_init_example",
    "FALCON_default_gamma_sum",
]]
COVERS = ("BARTMAP.__init__ / __getattr__ / __setattr__ / get_params / set_params / validate_params, "
          "get_channel_position_tuples and FusionART.__init__ / get_params / validate_params (with BaseART.__init__ / "
          "__getattr__ / __setattr__ once more, on the wider instance dict), DeepARTMAP.__init__, FALCON.__init__ and "
          "TD_FALCON.__init__ are translated statement by statement and proved equal to the reference semantics of "
          "ArtModel/Params3.lean — getParamsFlat (own parameters copied, then per module name__k and the module), bLoop / "
          "bSetParams (routing by partition('__'), unknown names rejected, validate before assign, plain names assigned "
          "and recorded in valid_params, nested groups delegated last: to a module replaced in the same call), "
          "bartmapChecks / constructBartmap, channelRanges (consecutive half-open ranges), fusionValidate, constructFusion "
          "(the eleven attributes, _channel_indices = _weight_indices = the ranges, dim_ = sum), deepDict, FALCON = a new "
          "FusionART over [state, action, reward] — for all instance dicts, call logs, heaps, keyword lists, module lists "
          "and nested estimators; BARTMAP's __getattr__ / __setattr__ are proved to be BaseART's generated definitions "
          "(ArtGen/Params.lean), which transports the attribute theorems of C19; the C19 clauses are proved on the "
          "generated BARTMAP code: set_params(**get_params()) leaves the instance dict unchanged, a replaced module "
          "receives the nested keys of the same call, unknown names and invalid values are rejected with nothing "
          "assigned, get_params writes nothing in any state (F43).  Parameters, not translated: the members of nested "
          "estimators (Q2.Ext / Q3.Ext: v.get_params(); v.set_params(**d) as ext_set_params, a call log in the "
          "theorems), Python's built-in sum (Q3.Num.sum: float additions round — the default gamma_values of FALCON sum "
          "to 1 + 2^-54 exactly); trusted: object.__setattr__ of the sklearn bases, that BARTMAP is not subclassed (self.m "
          "is BARTMAP.m), the typing of constructor arguments by their annotations (List[BaseART] = a Python list), the "
          "default value channel_dims=list[int] of FALCON (kept as source text), exception messages.  SMART.__init__ is "
          "not translated.")

if __name__ == "__main__":
    ok, msg = write(sys.argv[1] if len(sys.argv) > 1 else None)
    print(msg)
    sys.exit(0 if ok else 1)
