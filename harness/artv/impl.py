"""Driving the real artlib estimators in-process: construction from specs,
recording wrappers (activations, match values, reset-function calls), canonical
snapshots, exception enum."""
from __future__ import annotations

import contextlib
import io
import os
import sys
import warnings
from copy import deepcopy
from typing import Any, Callable, Optional

import numpy as np

from .common import REPO

if str(REPO) not in sys.path:
    sys.path.insert(0, str(REPO))
warnings.filterwarnings("ignore")
os.environ.setdefault("ARTLIB_VERIF", "1")

import artlib  # noqa: E402
from artlib import (  # noqa: E402
    ART1, ART2A, BayesianART, EllipsoidART, GaussianART, FuzzyART, HypersphereART,
    QuadraticNeuronART, SimpleARTMAP, ARTMAP, FusionART, DeepARTMAP, SMART, TopoART,
    DualVigilanceART, BARTMAP, CVIART, iCVIFuzzyART, FALCON, TD_FALCON,
)

assert os.path.realpath(artlib.__file__).startswith(os.path.realpath(str(REPO))), (
    f"artlib imported from {artlib.__file__}, expected under {REPO}")

MODES = ["MT+", "MT-", "MT0", "MT1", "MT~"]

ELEMENTARY = {
    "FuzzyART": FuzzyART, "ART1": ART1, "ART2A": ART2A, "HypersphereART": HypersphereART,
    "EllipsoidART": EllipsoidART, "GaussianART": GaussianART, "BayesianART": BayesianART,
    "QuadraticNeuronART": QuadraticNeuronART,
}


@contextlib.contextmanager
def quiet():
    """TopoART.prune and CVIART.__init__ print; keep check output clean."""
    old = sys.stdout
    sys.stdout = io.StringIO()
    try:
        with warnings.catch_warnings():
            warnings.simplefilter("ignore")
            yield
    finally:
        sys.stdout = old


class Hang(Exception):
    """a call into the implementation did not return within its time limit"""


@contextlib.contextmanager
def time_limit(seconds: float = 5.0):
    """turn a non-terminating call into an exception (main thread only)"""
    import signal

    def handler(sig, frm):
        raise Hang(f"no return within {seconds}s")
    try:
        old = signal.signal(signal.SIGALRM, handler)
    except ValueError:      # not in the main thread: no watchdog
        yield
        return
    signal.setitimer(signal.ITIMER_REAL, seconds)
    try:
        yield
    finally:
        signal.setitimer(signal.ITIMER_REAL, 0)
        signal.signal(signal.SIGALRM, old)


def exc_enum(e: BaseException) -> str:
    if isinstance(e, Hang):
        return "hang"
    if isinstance(e, AssertionError):
        return "assert"
    if isinstance(e, ZeroDivisionError):
        return "zerodiv"
    if isinstance(e, FloatingPointError):
        return "fperr"
    if isinstance(e, np.linalg.LinAlgError):
        return "linalg"
    if isinstance(e, KeyError):
        return "key"
    if isinstance(e, IndexError):
        return "index"
    if isinstance(e, ValueError):
        return "value"
    if isinstance(e, TypeError):
        return "type"
    if isinstance(e, NotImplementedError):
        return "notimpl"
    if isinstance(e, AttributeError):
        return "attr"
    return "other:" + type(e).__name__


def make(spec: dict):
    """Build an estimator from a spec: {'cls': name, **kwargs}; nested specs allowed."""
    with quiet():
        return _make(deepcopy(spec))   # never hand the same list/array objects to two instances


def _make(spec):
    if not isinstance(spec, dict) or "cls" not in spec:
        return spec
    cls = spec["cls"]
    kw = {k: v for k, v in spec.items() if k != "cls"}
    for k, v in list(kw.items()):
        if isinstance(v, dict) and "cls" in v:
            kw[k] = _make(v)
        elif isinstance(v, list) and v and isinstance(v[0], dict) and "cls" in v[0]:
            kw[k] = [_make(t) for t in v]
        elif k in ("sigma_init", "cov_init"):
            kw[k] = np.array(v, dtype=float)
    if cls == "SMART":
        base = ELEMENTARY[kw.pop("base")]
        return SMART(base, kw.pop("rho_values"), kw.pop("base_params"))
    C = getattr(artlib, cls)
    return C(**kw)


# ------------------------------------------------------------ recording


class StepRec:
    __slots__ = ("ncat", "Tcalls", "Mseq", "resets", "ret", "exc", "first_rho")

    def __init__(self, ncat):
        self.ncat = ncat
        self.Tcalls = []      # activations in call order
        self.Mseq = []        # (match value(s), m_bin) in visit order
        self.resets = []      # (c_, answer, rho seen) in call order
        self.ret = None
        self.exc = None
        self.first_rho = None


class Recorder:
    """Wraps the object that runs the search loop (`owner.step_fit`) and the
    object providing the kernels (`kern`, same object for elementary modules)."""

    def __init__(self, owner, kern=None, fusion=False):
        self.owner = owner
        self.kern = kern if kern is not None else owner
        self.fusion = fusion
        self.steps: list[StepRec] = []
        self.cur: Optional[StepRec] = None
        self._orig = {}
        self._install()

    def _install(self):
        owner, kern = self.owner, self.kern
        o_step = owner.step_fit
        k_choice = kern.category_choice
        k_mbin = kern.match_criterion_bin
        self._orig = dict(step=o_step, choice=k_choice, mbin=k_mbin)
        rec = self

        def step_fit(x, *a, **kw):
            nc = len(kern.W) if hasattr(kern, "W") else 0
            st = StepRec(nc)
            rec.cur = st
            rec.steps.append(st)
            try:
                r = o_step(x, *a, **kw)
                st.ret = int(r)
                return r
            except BaseException as e:  # noqa
                st.exc = exc_enum(e)
                raise
            finally:
                rec.cur = None

        def category_choice(i, w, params, **kw):
            T, cache = k_choice(i, w, params, **kw)
            if rec.cur is not None:
                rec.cur.Tcalls.append(float(T))
            return T, cache

        def match_criterion_bin(i, w, params, cache=None, op=None, **kw):
            if op is None:
                m, c = k_mbin(i, w, params, cache, **kw)
            else:
                m, c = k_mbin(i, w, params, cache, op, **kw)
            if rec.cur is not None:
                if rec.fusion:
                    mv = [float(c[k]["match_criterion"]) for k in sorted(c.keys())]
                else:
                    mv = [float(c["match_criterion"])]
                rec.cur.Mseq.append((mv, bool(m), float(params["rho"]) if (isinstance(params, dict) and "rho" in params) else None))
            return m, c

        object.__setattr__(owner, "step_fit", step_fit)
        object.__setattr__(kern, "category_choice", category_choice)
        object.__setattr__(kern, "match_criterion_bin", match_criterion_bin)

    def uninstall(self):
        for obj, name in ((self.owner, "step_fit"), (self.kern, "category_choice"),
                          (self.kern, "match_criterion_bin")):
            if name in obj.__dict__:
                object.__delattr__(obj, name)

    def reset_logger(self, fn: Callable) -> Callable:
        """wrap a reset function so that its calls land in the current step"""
        rec = self

        def wrapped(i, w, c_, params=None, cache=None, **kw):
            ans = fn(i, w, c_, params, cache)
            if rec.cur is not None:
                rho = params.get("rho") if isinstance(params, dict) else None
                rec.cur.resets.append((int(c_), bool(ans), None if rho is None else float(rho)))
            return ans

        return wrapped


def sorted_live(T):
    """visiting order of the generic search: decreasing activation, then index"""
    idx = [i for i, t in enumerate(T) if not np.isnan(t)]
    return sorted(idx, key=lambda i: (-T[i], i))


def step_table(st: StepRec, mode: str, has_reset: bool, positive_only: bool = False):
    """Rebuild per-category T and M lists of one step from the recorded calls.
    Returns (T list with nan, M list with None for unvisited)."""
    if mode == "MT~" and has_reset:
        # category_choice is only called for categories the reset function allowed
        allowed = [c for (c, ans, _) in st.resets[: st.ncat] if ans]
        T = [float("nan")] * st.ncat
        for c, t in zip(allowed, st.Tcalls):
            T[c] = t
    else:
        T = list(st.Tcalls[: st.ncat]) + [float("nan")] * max(0, st.ncat - len(st.Tcalls))
    order = sorted_live(T)
    if positive_only:
        order = [i for i in order if T[i] > 0]
    M: list = [None] * st.ncat
    for c, (mv, mb, rho) in zip(order, st.Mseq):
        M[c] = mv
    return T, M


# ------------------------------------------------------------ snapshots


def arr(x):
    return np.array(x, dtype=float)


def snap_base(m) -> dict:
    """canonical snapshot of a BaseART-derived estimator"""
    out: dict[str, Any] = {}
    out["W"] = [np.array(w, dtype=float).copy() for w in getattr(m, "W", [])] if hasattr(m, "W") or True else []
    out["labels"] = [int(t) for t in getattr(m, "labels_", [])] if hasattr(m, "labels_") else None
    out["cnt"] = [int(t) for t in m.weight_sample_counter_]
    out["n"] = int(m.sample_counter_)
    return out


def safe_W(m):
    try:
        return [np.array(w, dtype=float).copy() for w in m.W]
    except AttributeError:
        return None


def params_tree(est) -> Any:
    """hyper-parameters of an estimator and all nested modules, by value"""
    out: dict[str, Any] = {}
    if hasattr(est, "params") and isinstance(est.__dict__.get("params", None), dict):
        out["params"] = {k: _pv(v) for k, v in est.__dict__["params"].items() if not hasattr(v, "get_params")}
    for name in ("module_a", "module_b", "base_module"):
        if name in getattr(est, "__dict__", {}):
            out[name] = params_tree(est.__dict__[name])
    if "modules" in getattr(est, "__dict__", {}):
        out["modules"] = [params_tree(m) for m in est.__dict__["modules"]]
    if "fusion_art" in getattr(est, "__dict__", {}):
        out["fusion_art"] = params_tree(est.__dict__["fusion_art"])
    for name in ("td_alpha", "td_lambda", "rho_lower_bound", "offline"):
        if name in getattr(est, "__dict__", {}):
            out[name] = _pv(est.__dict__[name])
    return out


def _pv(v):
    if isinstance(v, np.ndarray):
        return ("nd", v.shape, tuple(float(t) for t in v.reshape(-1)))
    if isinstance(v, (list, tuple)):
        return tuple(_pv(t) for t in v)
    if isinstance(v, (np.floating, float)):
        return float(v)
    if isinstance(v, (np.integer, int)) and not isinstance(v, bool):
        return int(v)
    return v


def eq_snap(a, b, tol=0.0) -> bool:
    """deep equality with NaN == NaN; numeric arrays to tolerance"""
    if isinstance(a, dict) and isinstance(b, dict):
        return a.keys() == b.keys() and all(eq_snap(a[k], b[k], tol) for k in a)
    if isinstance(a, (list, tuple)) and isinstance(b, (list, tuple)):
        return len(a) == len(b) and all(eq_snap(x, y, tol) for x, y in zip(a, b))
    if isinstance(a, np.ndarray) or isinstance(b, np.ndarray):
        a, b = np.asarray(a), np.asarray(b)
        if a.shape != b.shape:
            return False
        if a.dtype.kind in "fc" or b.dtype.kind in "fc":
            return bool(np.all((np.abs(a - b) <= tol * (1 + np.abs(a))) | (np.isnan(a) & np.isnan(b)) | (a == b)))
        return bool(np.array_equal(a, b))
    if isinstance(a, float) and isinstance(b, float):
        return a == b or (a != a and b != b) or abs(a - b) <= tol * (1 + abs(a))
    return a == b


def full_snapshot(est) -> dict:
    """Everything observable that the properties name: weights, labels, maps,
    counters, parameters, d_min/d_max, adjacency — recursively."""
    d = getattr(est, "__dict__", {})
    out: dict[str, Any] = {"cls": type(est).__name__}
    for k in ("labels_", "adjacency", "_permanent_mask", "d_min_", "d_max_", "rows_", "columns_", "classes_"):
        if k in d and d[k] is not None:
            out[k] = np.array(d[k]).copy()
    if "W" in d:
        out["W"] = [np.array(w, dtype=float).copy() for w in d["W"]]
    if "weight_sample_counter_" in d:
        out["cnt"] = [int(t) for t in d["weight_sample_counter_"]]
    if "sample_counter_" in d:
        out["n"] = int(d["sample_counter_"])
    if "map" in d:
        out["map"] = {int(k): int(v) for k, v in d["map"].items()}
    if "dim_" in d:
        out["dim_"] = int(d["dim_"])
    if "is_fitted_" in d:
        out["is_fitted_"] = bool(d["is_fitted_"])
    out["params"] = params_tree(est)
    for name in ("module_a", "module_b", "base_module", "fusion_art"):
        if name in d:
            out[name] = full_snapshot(d[name])
    if "modules" in d:
        out["modules"] = [full_snapshot(m) for m in d["modules"]]
    if "layers" in d:
        out["layers"] = [{"map": {int(k): int(v) for k, v in getattr(L, "map", {}).items()},
                          "labels_": None if not hasattr(L, "labels_") else np.array(L.labels_).copy()}
                         for L in d["layers"]]
    if "iCVI" in d:
        ic = d["iCVI"]
        out["iCVI"] = {"n": int(ic.n_samples), "crit": float(ic.criterion_value), "WGSS": float(ic.WGSS)}
    return out
