"""C01 — resonance search.  Tie (i): per-step trace replay of the real search
through the Lean `search`; tie (ii): end-to-end histories over Q for the exact
kernels; oracle: the statement executed on the implementation."""
from __future__ import annotations

import numpy as np

from .. import gen, specs
from ..common import f2hex, hex2f, run_driver, parse_kv, vec_f
from ..impl import make, Recorder, step_table, quiet, exc_enum, MODES
from . import e2e

RULE = ("cases = (estimator class, hyper-parameters, data set, match-tracking mode, epsilon, veto table, batching"
        " [, host SimpleARTMAP + class labels, hyper-parameter re-assignments between partial_fit batches]); "
        "a case is non-trivial when at least one step visited >= 2 categories or met a veto; distinct by hash of "
        "(class, params, data, mode, eps, veto table [, host, labels, batching, re-assignment schedule]); "
        "plus histories trained through fit_gif (the training loop that draws a frame after every sample) with a vetoing reset "
        "function, every match-tracking mode and a non-zero epsilon, judged by the same per-step oracles; "
        "plus np.longdouble histories (Hypersphere / Ellipsoid / Gaussian / QuadraticNeuron, alone, as FusionART channels or as "
        "SimpleARTMAP A-side) with near-tie samples found by bisection on category_choice, judged at full precision; "
        "plus drawn histories: every elementary class on 2 features (half of them BayesianART with a cov_init that is asymmetric / "
        "symmetric only up to round-off / symmetric), drawn after every partial_fit batch (visualize with default and too few "
        "colours and the estimator's own labels_, plot_cluster_bounds) or trained through fit_gif with a small palette, every "
        "mode, vetoing reset functions; judged per sample by the rule on the estimator's public kernels, by 'the weights a search "
        "starts from are those the previous search left' and against the same history without drawing; plus the shared "
        "plotting-call scenarios (plotpure) continued by a partial_fit judged the same way")


GEN_THEOREMS = ["base_match_tracking", "dual_match_tracking", "topo_match_tracking", "cviart_match_tracking",
                "bayes_match_tracking", "operator_strict", "base_match_bin", "bayes_match_bin",
                # the search loop of BaseART.step_fit, translated statement by statement (ctrans.py -> ArtGen/Control.lean)
                "Control.loop_follows_search", "Control.body_spec", "Control.activations_spec", "Control.step_fit_refines",
                "Control.scalar_contract", "Control.scalar_step_fit", "Control.bayes_gcontract", "Control.bayes_fit"]


def prepare(ctx):
    """Translator tie (see gen_tie.py): the match-tracking table, the comparison operator per mode and the
    orientation of the binary match test are regenerated from the source and proved equal to the model's"""
    from .gen_tie import gen_prepare
    gen_prepare(ctx, GEN_THEOREMS, "_match_tracking of BaseART / BayesianART / DualVigilanceART / TopoART / CVIART, "
                "_match_tracking_operator, match_criterion_bin of BaseART and BayesianART; BaseART.step_fit (control flow) "
                "= the model's stepFit under the kernel contract (Control.step_fit_refines)")


def build_est(r, cls, d, fusion_ok=True):
    """returns (estimator, recorder, X, inv list, rho list, label)"""
    if cls == "FusionART":
        k = r.randint(1, 3)
        chans = [r.choice(["FuzzyART", "FuzzyART", "ART2A"]) for _ in range(k)]
        ds = [r.randint(1, 2) for _ in range(k)]
        sp = [specs.elem_spec(r, c, specs.width(c, dd)) for c, dd in zip(chans, ds)]
        gam = {1: [1.0], 2: r.choice([[0.5, 0.5], [0.25, 0.75]]), 3: r.choice([[0.5, 0.25, 0.25], [0.25, 0.25, 0.5]])}[k]
        dims = [specs.width(c, dd) for c, dd in zip(chans, ds)]
        spec = {"cls": "FusionART", "modules": sp, "gamma_values": gam, "channel_dims": dims}
        return spec, chans, ds
    return specs.elem_spec(r, cls, specs.width(cls, d) if cls != "FuzzyART" else d), None, None


def _joint_ok(cls, p):
    """the standing assumptions the spec generators keep between hyper-parameters of one estimator"""
    if cls in ("FuzzyART", "HypersphereART", "EllipsoidART") and p.get("rho") == 0.0 and p.get("alpha") == 0.0:
        return False
    if cls == "ART1" and p.get("rho") == 0.0 and p.get("L") == 1.0:
        return False
    return True


def _is_scalar(v):
    return isinstance(v, (int, float)) and not isinstance(v, bool)


def reassignment(r, cls, d, cur):
    """hyper-parameter values for a re-configuration between two batches: drawn from the same generator as the
    constructor arguments (so every resulting configuration is one validation accepts); only the vigilance, every
    scalar hyper-parameter, or the vigilance and some others"""
    s2 = None
    for _ in range(4):
        s2 = build_est(r, cls, d)[0]
        if s2["rho"] != cur["rho"]:
            break
    scal = [k for k, v in s2.items() if k != "cls" and _is_scalar(v) and k in cur]
    style = r.choice(["rho", "rho", "all", "some"])
    if style == "rho":
        keys = ["rho"]
    elif style == "all":
        keys = scal
    else:
        keys = ["rho"] + [k for k in scal if k != "rho" and r.random() < 0.5]
    new = dict(cur)
    new.update({k: s2[k] for k in keys})
    if not _joint_ok(cls, new):
        keys = scal
    return {k: s2[k] for k in keys}


def _params_snapshot(p):
    return {k: (np.array(v, dtype=float).copy() if isinstance(v, (list, tuple, np.ndarray)) else v) for k, v in p.items()}


def _params_differ(have, want):
    """keys whose value in the estimator's params differs from the configured one"""
    bad = []
    for k, v in want.items():
        if k not in have:
            bad.append(k)
        elif isinstance(v, (list, tuple, np.ndarray)) or isinstance(have[k], np.ndarray):
            try:
                if not np.array_equal(np.asarray(have[k], dtype=float), np.asarray(v, dtype=float)):
                    bad.append(k)
            except Exception:
                bad.append(k)
        elif not (have[k] == v):
            bad.append(k)
    return bad


# ---------------------------------------------------------------------------------------------------------------
# extended-precision histories.  np.longdouble data in [0, 1] are valid data; HypersphereART / EllipsoidART /
# GaussianART / QuadraticNeuronART (also as a FusionART channel or as the A-side of a SimpleARTMAP) carry that precision
# through weights, activations and match values.  "The highest activation" is then decided among the estimator's OWN
# category_choice values at the precision they have: two activations that round to the same float64 are still different
# numbers.  Everything below stays in np.longdouble (the main loop above casts to float64 for the Lean driver).

LD = np.longdouble
LD_WIDER = np.finfo(np.longdouble).eps < np.finfo(np.float64).eps
LD_CLASSES = ["HypersphereART", "EllipsoidART", "GaussianART", "QuadraticNeuronART"]


def _ld_rows(r, n, d):
    """rows in [0, 1] whose entries genuinely use the extra mantissa bits"""
    X = np.array([[LD(r.random()) + LD(r.random()) * LD(2.0) ** -54 for _ in range(d)] for _ in range(n)],
                 dtype=LD).reshape(n, d)
    return np.clip(X, LD(0), LD(1))


def _ld_split(X):
    """exact representation of longdouble data by two float64 arrays (64-bit mantissa = 53 + 11 bits)"""
    X = np.asarray(X, dtype=LD)
    hi = X.astype(np.float64)
    lo = (X - hi.astype(LD)).astype(np.float64)
    return hi, lo


def _ld_rule(m, x, op, mode, eps, veto, inv=False):
    """C01's rule evaluated with the estimator's public kernels at the precision they return: candidates in order of
    decreasing activation (oldest first among equals), the first one that passes the vigilance test and is not vetoed
    wins; a vetoed vigilance-passing candidate moves the threshold as the mode prescribes for the rest of this search
    (`inv`: the estimator's vigilance test is `rho >= match`, BayesianART, so "raise the bar" means a LOWER threshold).
    Returns (winner or None = new category, activations, test results of the visited categories)"""
    W = list(m.W)
    params = m.params if veto is None else dict(m.params)
    T, C = [], []
    for k, w in enumerate(W):
        if mode == "MT~" and veto is not None and veto[k]:
            T.append(LD("nan"))
            C.append(None)
            continue
        t, ch = m.category_choice(x, w, params=params)
        T.append(t)
        C.append(ch)
    live = [k for k in range(len(W)) if not np.isnan(T[k])]
    passed = {}
    while live:
        c = live[0]
        for k in live[1:]:
            if T[k] > T[c]:
                c = k
        live.remove(c)
        mb, _ = m.match_criterion_bin(x, W[c], params=params, cache=C[c], op=op)
        passed[c] = bool(mb)
        vetoed = veto is not None and mode != "MT~" and veto[c]
        if mb and not vetoed:
            return c, T, passed
        if mb and vetoed:
            if mode == "MT1":
                return None, T, passed
            M = m.match_criterion(x, W[c], params=params, cache=C[c])[0]
            e_ = -eps if inv else eps
            params["rho"] = M + e_ if mode == "MT+" else (M - e_ if mode == "MT-" else M)
    return None, T, passed


def _ld_passes(m, x, k, op):
    """the estimator's own vigilance test of category k for sample x, at the configured vigilance"""
    _, ch = m.category_choice(x, m.W[k], params=m.params)
    return bool(m.match_criterion_bin(x, m.W[k], params=m.params, cache=ch, op=op)[0])


def _ld_near_tie(m, r, rows, lab, op, tries=5):
    """a valid sample at which a NEWER category's activation exceeds an OLDER one's by less than the float64 spacing
    while both pass the vigilance test: bisection, on the estimator's own category_choice, along the segment between
    a row learned by the older and a row learned by the newer category"""
    byc = {}
    for k, c in enumerate(lab):
        byc.setdefault(int(c), []).append(k)
    cats = sorted(byc)
    if len(cats) < 2:
        return None
    for _ in range(tries):
        i, j = sorted(r.sample(cats, 2))
        p, q = rows[r.choice(byc[i])], rows[r.choice(byc[j])]

        def at(s):
            return np.clip(p + s * (q - p), LD(0), LD(1))

        def tt(s):
            x = at(s)
            return (m.category_choice(x, m.W[i], params=m.params)[0], m.category_choice(x, m.W[j], params=m.params)[0])
        lo, hi = LD(0), LD(1)
        ti, tj = tt(lo)
        if not ti > tj:
            continue
        ti, tj = tt(hi)
        if not tj > ti:
            continue
        for _it in range(90):
            mid = lo + (hi - lo) / 2
            if mid == lo or mid == hi:
                break
            ti, tj = tt(mid)
            if tj > ti:
                hi = mid
                if float(tj) == float(ti):
                    x = at(mid)
                    if _ld_passes(m, x, i, op) and _ld_passes(m, x, j, op):
                        return x, i, j
                    break
            else:
                lo = mid
    return None


def longdouble_histories(ctx):
    import operator
    from copy import deepcopy
    cov = ctx.cov
    if not LD_WIDER:
        cov.hit("longdouble:not-wider-than-float64-on-this-platform")
        return
    Nld = ctx.scale(160, 1600)
    for i in range(Nld):
        r = gen.rng_for(ctx.seed, "C01-longdouble", i)
        kind = ["elem", "elem", "host", "fusion"][i % 4]
        mode = MODES[(i // 4) % 5]
        eps = r.choice([0.0, 2.0 ** -20, 1e-10, 0.125])
        op = operator.gt if mode in ("MT0", "MT~") else operator.ge
        d = r.randint(1, 3)
        n = r.randint(4, 14)
        if kind == "fusion":
            k = r.randint(1, 3)
            chans = [r.choice(LD_CLASSES + ["FuzzyART"]) for _ in range(k)]
            if all(c == "FuzzyART" for c in chans):
                chans[r.randrange(k)] = r.choice(LD_CLASSES)
            ds = [r.randint(1, 2) for _ in range(k)]
            gam = {1: [1.0], 2: r.choice([[0.5, 0.5], [0.25, 0.75]]), 3: r.choice([[0.5, 0.25, 0.25], [0.25, 0.25, 0.5]])}[k]
            spec = {"cls": "FusionART", "modules": [specs.elem_spec(r, c, dd) for c, dd in zip(chans, ds)],
                    "gamma_values": gam, "channel_dims": [specs.width(c, dd) for c, dd in zip(chans, ds)]}
            blocks = []
            for c, dd in zip(chans, ds):
                B = _ld_rows(r, n, dd)
                blocks.append(np.hstack([B, LD(1) - B]) if c == "FuzzyART" else B)
            X = np.hstack(blocks)
            cls = "FusionART"
        else:
            cls = LD_CLASSES[((i // 4) if kind == "host" else 2 * (i // 4) + i % 4) % len(LD_CLASSES)]
            spec = specs.elem_spec(r, cls, d)
            X = _ld_rows(r, n, d)
        host = kind == "host"
        tagc = f"SimpleARTMAP({cls})" if host else cls
        y = gen.labels(r, n, k=r.choice([1, 2, 2, 3])) if host else None
        try:
            with quiet():
                m = make(spec)
                m_host = None
                if host:
                    from artlib import SimpleARTMAP
                    m_host = SimpleARTMAP(m)
        except Exception as e:
            ctx.issue("violation", f"{cls}.__init__:{exc_enum(e)}", f"constructor raised {e!r}", {"spec": spec})
            continue
        recs = []        # one per presented sample: dict(x, want, got, T, passed, veto, before, after)
        orig_step = m.step_fit

        def framed(x, match_reset_func=None, match_tracking="MT+", epsilon=0.0, _m=m, _o=orig_step):
            rec = {"x": np.array(x, copy=True), "want": "?", "veto": None}
            W0 = list(getattr(_m, "W", []))
            rec["before"] = deepcopy(W0)
            if W0:
                try:
                    with np.errstate(all="ignore"):
                        veto = None
                        if match_reset_func is not None:
                            veto = [not match_reset_func(x, w, c_, params=_m.params, cache=None) for c_, w in enumerate(W0)]
                        rec["veto"] = veto
                        rec["want"], rec["T"], rec["passed"] = _ld_rule(_m, x, op, match_tracking, epsilon, veto)
                        w_, T_ = rec["want"], rec["T"]
                        # the situation of interest: an OLDER unvetoed category that also passes the vigilance test has an
                        # activation below the winner's by less than float64 resolution
                        rec["subulp"] = w_ is not None and any(
                            T_[w_] > T_[k] and float(T_[k]) == float(T_[w_]) and not (veto and veto[k])
                            and _ld_passes(_m, x, k, op) for k in range(w_))
                except Exception as e:   # the estimator's kernels raised: the training call below reports it
                    rec["want"] = "?"
                    rec["kernel-exc"] = repr(e)
            else:
                rec["want"], rec["T"], rec["passed"] = None, [], {}
            recs.append(rec)
            c = _o(x, match_reset_func=match_reset_func, match_tracking=match_tracking, epsilon=epsilon)
            rec["got"] = int(c)
            rec["after"] = deepcopy(list(_m.W))
            return c
        object.__setattr__(m, "step_fit", framed)
        stream, ys = [], []

        def replay(step=None):
            S = np.array(stream, dtype=LD)
            hi, lo = _ld_split(S)
            return {"spec": spec, "host": "SimpleARTMAP" if host else None, "mode": mode, "eps": eps, "dtype": "longdouble",
                    "X_hi": hi, "X_lo": lo, "X": "np.longdouble(X_hi) + np.longdouble(X_lo), presented row by row through partial_fit",
                    "y": ys if host else None, "step": step}

        def present(B, yB=None):
            for x in B:
                stream.append(np.array(x, dtype=LD))
            if host:
                ys.extend(int(v) for v in yB)
            with quiet():
                if host:
                    m_host.partial_fit(B, np.array(yB, dtype=int), match_tracking=mode, epsilon=eps)
                else:
                    m.partial_fit(B, match_tracking=mode, epsilon=eps)
        try:
            parts = gen.compositions(r, n)
            a0 = 0
            for sz in parts:
                present(X[a0:a0 + sz], None if y is None else y[a0:a0 + sz])
                a0 += sz
            cov.hit(f"longdouble:history:{kind}:{cls}")
            for _p in range(3):
                pr = _ld_near_tie(m, r, [rc["x"] for rc in recs], [rc["got"] for rc in recs], op)
                if pr is None:
                    continue
                x, ci, cj = pr
                yp = None
                if host:
                    yp = [m_host.map[r.choice([cj, cj, ci])]]
                cov.hit(f"longdouble:near-tie-probe:newer-category-ahead-by-less-than-a-float64-ulp:{kind}:{cls}")
                present(x[None, :], yp)
        except Exception as e:
            ctx.issue("violation", f"{tagc}.fit:longdouble:{exc_enum(e)}",
                      f"training raised {e!r} on valid np.longdouble data (mode {mode}, eps {eps})", replay(len(recs) - 1))
            cov.case(("longdouble", tagc, repr(spec), X.tolist(), mode, eps, None if y is None else y.tolist()), False)
            continue
        # ---- oracle: the statement, at the precision of the estimator's own activations
        nontrivial = False
        for si, rc in enumerate(recs):
            if "got" not in rc or rc["want"] == "?":
                cov.hit("longdouble:rule-not-evaluable:" + ("kernel-raised" if "kernel-exc" in rc else "step-did-not-return"))
                continue
            if rc["veto"] and mode != "MT~" and any(ok and rc["veto"][k] for k, ok in rc["passed"].items()):
                cov.hit(f"longdouble:veto-then-track:{mode}")
            before, after, got, want, T = rc["before"], rc["after"], rc["got"], rc["want"], rc["T"]
            nb = len(before)
            exp = nb if want is None else want
            if len(rc["passed"]) >= 2 or (rc["veto"] and any(rc["veto"])):
                nontrivial = True
            if rc.get("subulp"):
                cov.hit(f"longdouble:winner-decided-below-float64-resolution:{kind}:{cls}")
            if got != exp:
                ctx.issue("violation", f"{tagc}:longdouble:not-best-vigilance-passing-category",
                          f"step {si}: np.longdouble sample assigned to {got} of {nb} categories; the estimator's own category_choice / "
                          f"match_criterion_bin values give {'a new category' if want is None else want} as the unvetoed vigilance-"
                          f"passing category of highest activation (activations {[repr(t) for t in T]}, vigilance tests "
                          f"{rc['passed']}, vetoed {rc['veto']}, mode {mode}, eps {eps}); activations that differ below float64 "
                          f"resolution are still different", replay(si))
                break
            changed = [k for k in range(min(nb, len(after))) if not np.array_equal(before[k], after[k], equal_nan=True)]
            if len(after) != nb + (1 if got == nb else 0) or any(k != got for k in changed):
                ctx.issue("violation", f"{tagc}:longdouble:frame",
                          f"step {si}: label {got}, |W| {nb}->{len(after)}, weights changed {changed}", replay(si))
                break
            if got == nb:
                try:
                    with quiet():
                        wn = m.new_weight(rc["x"], m.params)
                    if not np.array_equal(np.asarray(wn), np.asarray(after[-1]), equal_nan=True):
                        ctx.issue("violation", f"{tagc}:longdouble:new-not-from-sample",
                                  f"step {si}: appended weight differs from new_weight(x)", replay(si))
                        break
                except Exception:
                    pass
            cov.hit("oracle:longdouble-winner-from-public-kernels-at-full-precision")
        cov.case(("longdouble", tagc, repr(spec), X.tolist(), mode, eps, None if y is None else y.tolist()), nontrivial)


def _fit_gif(m, X, reset, mode, eps):
    """train through the public fit_gif: Agg backend, a tiny tick-less figure (the frames are not what C01 is about), a temporary
    gif file, and the figure fit_gif opened is closed again"""
    import os
    import tempfile
    import matplotlib
    matplotlib.use("Agg")
    import matplotlib.pyplot as plt
    had = set(plt.get_fignums())
    try:
        rc = {"figure.figsize": (0.8, 0.6), "xtick.bottom": False, "xtick.labelbottom": False, "ytick.left": False,
              "ytick.labelleft": False}
        with tempfile.TemporaryDirectory() as tmp, plt.rc_context(rc):
            # n_cluster_estimate only sizes the colour table (one scatter call per colour and frame); n samples make
            # at most n categories
            m.fit_gif(X, match_reset_func=reset, match_tracking=mode, epsilon=eps, filename=os.path.join(tmp, "c01.gif"),
                      n_cluster_estimate=len(X))
    finally:
        for num in set(plt.get_fignums()) - had:
            plt.close(num)


def _has_matplotlib():
    try:
        import matplotlib  # noqa: F401
        import PIL  # noqa: F401
        return True
    except Exception:
        return False


# ---------------------------------------------------------------------------------------------------------------
# drawn histories.  Drawing a model (visualize / plot_cluster_bounds between two training calls, the frame fit_gif draws
# after every sample) presents no sample, so by the statement no category can win and no weight may change: the weights a
# sample's search starts from are the ones the previous sample's search left, a category opened from a sample is still
# `new_weight(sample)` until it wins, and every search is the one the rule prescribes on those weights.  A drawing call
# that raises is tolerated (the property does not say a model can be drawn) and has to leave the weights alone as well.

class _Watch:
    """wraps `step_fit` of the module that runs the generic search.  Per presented sample: the weights before (copies), the
    rule's answer from the module's own public kernels on that state, the label returned, the weights after.
    `marks` = what the caller did between searches, as (number of searches completed so far, description)"""

    def __init__(self, m, rule=True):
        self.m, self.rule, self.recs, self.marks = m, rule, [], []
        self.inv = specs.is_inverted(type(m).__name__)
        self.orig = m.step_fit
        object.__setattr__(m, "step_fit", self.step)

    def mark(self, what):
        self.marks.append((len(self.recs), what))

    def between(self, k):
        return [w for (p, w) in self.marks if p == k or p is None]

    def step(self, x, match_reset_func=None, match_tracking="MT+", epsilon=0.0):
        import operator
        from copy import deepcopy
        m = self.m
        W0 = list(getattr(m, "W", []))
        rec = {"x": np.array(x, copy=True), "want": "?", "veto": None, "before": deepcopy(W0), "mode": match_tracking,
               "eps": epsilon, "T": [], "passed": {}}
        self.recs.append(rec)
        if self.rule:
            op = operator.gt if match_tracking in ("MT0", "MT~") else operator.ge
            try:
                with np.errstate(all="ignore"):
                    if match_reset_func is not None:
                        rec["veto"] = [not match_reset_func(x, w, c_, params=m.params, cache=None) for c_, w in enumerate(W0)]
                    if W0:
                        rec["want"], rec["T"], rec["passed"] = _ld_rule(m, x, op, match_tracking, epsilon, rec["veto"], inv=self.inv)
                    else:
                        rec["want"] = None
            except Exception as e:   # the kernels raised: the training call below reports it
                rec["want"] = "?"
                rec["kernel-exc"] = repr(e)
        c = self.orig(x, match_reset_func=match_reset_func, match_tracking=match_tracking, epsilon=epsilon)
        rec["got"] = int(c)
        rec["after"] = deepcopy(list(m.W))
        return c


def _same_w(a, b):
    a, b = np.asarray(a), np.asarray(b)
    return a.shape == b.shape and np.array_equal(a, b, equal_nan=True)


def _judge_watched(ctx, tagc, w, replay, hit):
    """the statement on a watched history: (1) the search of every sample starts from the weights the previous search
    left (a weight changes only when its category wins a sample), also for the weights found at the end; (2) the label is the
    rule's; (3) only the winner's weight changes / exactly one category, `new_weight(sample)`, is appended.
    Returns True when nothing was reported"""
    recs, m = w.recs, w.m
    done = [rc for rc in recs if "got" in rc]
    nontrivial = False
    states = [(si, rc["before"], f"at the start of the search of sample {si}") for si, rc in enumerate(recs) if si > 0]
    if done and len(done) == len(recs):
        states.append((len(recs), list(m.W), "at the end of the history"))
    for si, W1, when in states:
        prev = recs[si - 1]
        if "after" not in prev:
            break
        W0 = prev["after"]
        moved = [k for k in range(min(len(W0), len(W1))) if not _same_w(W0[k], W1[k])]
        if len(W0) != len(W1) or moved:
            k = moved[0] if moved else None
            fresh = k is not None and prev["got"] == k and k == len(prev["before"])
            ctx.issue("violation", f"{tagc}:weight-changed-without-winning",
                      f"{when} there are {len(W1)} categories and the weight(s) of {moved} differ from what the search of sample "
                      f"{si - 1} (label {prev['got']}) left ({len(W0)} categories), although no sample was presented in between"
                      f" (in between: {w.between(si) or 'nothing'})"
                      + (f"; category {k}: {np.asarray(W0[k]).tolist()} -> {np.asarray(W1[k]).tolist()}" if k is not None else "")
                      + ("; that category had just been opened from sample %d and is no longer new_weight(sample)" % (si - 1)
                         if fresh else ""), replay(si - 1))
            return False
        hit("oracle:weights-at-the-next-search-are-those-the-previous-search-left")
    for si, rc in enumerate(done):
        before, after, got, want = rc["before"], rc["after"], rc["got"], rc["want"]
        nb = len(before)
        if want == "?":
            hit("rule-not-evaluable:" + ("kernel-raised" if "kernel-exc" in rc else "not-asked"))
        else:
            exp = nb if want is None else want
            if len(rc["passed"]) >= 2 or (rc["veto"] and any(rc["veto"])):
                nontrivial = True
            if rc["veto"] and rc["mode"] != "MT~" and any(ok and rc["veto"][k] for k, ok in rc["passed"].items()):
                hit(f"veto-then-track:{rc['mode']}")
            if got != exp:
                ctx.issue("violation", f"{tagc}:not-best-vigilance-passing-category",
                          f"step {si}: sample assigned to {got} of {nb} categories; the estimator's own category_choice / "
                          f"match_criterion_bin values on the weights of that moment give "
                          f"{'a new category' if want is None else want} as the unvetoed vigilance-passing category of highest "
                          f"activation (activations {[float(t) for t in rc['T']]}, vigilance tests {rc['passed']}, vetoed "
                          f"{rc['veto']}, mode {rc['mode']}, eps {rc['eps']}; before this search: {w.between(si) or 'nothing'})",
                          replay(si))
                return False
            hit("oracle:winner-from-public-kernels")
        changed = [k for k in range(min(nb, len(after))) if not _same_w(before[k], after[k])]
        if got > nb or len(after) != nb + (1 if got == nb else 0) or any(k != got for k in changed):
            ctx.issue("violation", f"{tagc}:frame", f"step {si}: label {got}, |W| {nb}->{len(after)}, weights changed {changed}",
                      replay(si))
            return False
        if got == nb:
            try:
                with quiet():
                    wn = m.new_weight(rc["x"], m.params)
            except Exception:
                wn = None
            if wn is not None and not _same_w(wn, after[-1]):
                ctx.issue("violation", f"{tagc}:new-not-from-sample",
                          f"step {si}: appended weight {np.asarray(after[-1]).tolist()} differs from new_weight(x) "
                          f"{np.asarray(wn).tolist()}", replay(si))
                return False
    w.nontrivial = nontrivial
    return True


def _bayes_cov(r, flavour):
    """2x2 cov_init accepted by validation (any ndarray), positive definite symmetric part, positive determinant:
    'asymmetric' (off-diagonal entries differ), 'round-off' (R diag R^T evaluated in floating point: symmetric up to the
    last bits), 'symmetric'"""
    import math
    s = r.choice([2.0 ** -8, 2.0 ** -7, 2.0 ** -6, 2.0 ** -5])
    a, c = s * r.choice([1.0, 1.5, 2.0]), s * r.choice([1.0, 0.75])
    b = s * r.choice([0.0, 0.25, -0.5])
    if flavour == "asymmetric":
        e = s * r.choice([0.125, 0.25, -0.375])
        return [[a, b + e], [b - e, c]]
    if flavour == "round-off":
        for _ in range(20):
            th = r.uniform(0.1, 1.4)
            R = np.array([[math.cos(th), -math.sin(th)], [math.sin(th), math.cos(th)]])
            C = R @ np.diag([s * r.uniform(1.0, 3.0), s * r.uniform(0.3, 1.0)]) @ R.T
            if C[0, 1] != C[1, 0]:
                return C.tolist()
        C[0, 1] = np.nextafter(C[0, 1], np.inf)
        return C.tolist()
    return [[a, b], [b, c]]


DRAW_ROUTES = ["visualize-between-partial_fit", "fit_gif", "plot_cluster_bounds-between-partial_fit",
               "visualize:own-labels:short-colours-between-partial_fit"]
BAYES_COV = ["asymmetric", "round-off", "asymmetric", "round-off", "symmetric"]


def drawn_histories(ctx):
    """histories in which the model is drawn while training is still going on: every elementary class (2 features), half
    of them BayesianART with a cov_init that is not symmetric / symmetric only up to round-off; drawn after every
    partial_fit batch (visualize with default or too few colours and the estimator's own labels_, plot_cluster_bounds on
    the caller's axes) or trained through fit_gif; every match-tracking mode, vetoing reset functions.  Oracle:
    `_judge_watched`, plus the assignments and weights of the same history without the drawing calls (the rule makes every
    search a function of the weights, the sample and the vetoes)"""
    cov = ctx.cov
    if not _has_matplotlib():
        cov.hit("drawn:matplotlib-not-available")
        return
    import os
    import tempfile
    import matplotlib
    matplotlib.use("Agg")
    import matplotlib.pyplot as plt
    from matplotlib.pyplot import cm
    Nd = ctx.scale(30, 300)
    others = [c for c in specs.ELEM if c != "BayesianART"]
    rcp = {"figure.figsize": (0.8, 0.6), "xtick.bottom": False, "xtick.labelbottom": False, "ytick.left": False,
           "ytick.labelleft": False}
    for i in range(Nd):
        r = gen.rng_for(ctx.seed, "C01-drawn", i)
        j = ctx.seed * Nd + i
        bayes = j % 2 == 0
        cls = "BayesianART" if bayes else others[(j // 2) % len(others)]
        route = DRAW_ROUTES[(j // 2) % len(DRAW_ROUTES)]
        mode = MODES[(j // 2) % 5] if r.random() < 0.6 else "MT+"
        eps = r.choice([0.0, 2.0 ** -20, 2.0 ** -10])
        n = r.randint(5, 9)
        flavour = None
        if bayes:
            flavour = BAYES_COV[(j // 2) % len(BAYES_COV)]
            C0 = _bayes_cov(r, flavour)
            spec = {"cls": cls, "rho": float(np.linalg.det(np.array(C0)) * r.choice([0.125, 0.25, 0.3, 0.45, 0.7])), "cov_init": C0}
            cen = [[r.uniform(0.15, 0.85), r.uniform(0.15, 0.85)] for _ in range(r.randint(2, 3))]
            X = np.clip(np.array([[v + r.gauss(0.0, 0.07) for v in r.choice(cen)] for _ in range(n)]), 0.0, 1.0)
        else:
            spec = build_est(r, cls, 2)[0]
            X = specs.elem_data(r, cls, n, 2, floats=r.random() < 0.5 and cls != "ART1")
        has_reset = r.random() < 0.5
        vt = gen.veto_table(r, n, n + 1) if has_reset else None
        cuts = sorted(r.sample(range(1, n), r.randint(1, 3)))    # 2-4 batches, a drawing call after each
        parts = [n] if route == "fit_gif" else [b_ - a_ for a_, b_ in zip([0] + cuts, cuts + [n])]
        tagc = f"{cls}:drawn-history"
        try:
            m, twin = make(spec), make(spec)
        except Exception as e:
            ctx.issue("violation", f"{cls}.__init__:{exc_enum(e)}", f"constructor raised {e!r}", {"spec": spec})
            continue
        w, w2 = _Watch(m), _Watch(twin, rule=False)

        def mk_reset(watch):
            return None if vt is None else (lambda i_, w_, c_, params=None, cache=None: not vt[len(watch.recs) - 1][c_])

        def replay(step=None):
            return {"spec": spec, "cov_init": flavour, "X": X, "mode": mode, "eps": eps, "veto": vt, "parts": parts,
                    "route": route, "drawn": [what if p is None else f"after {p} samples: {what}" for p, what in w.marks], "step": step,
                    "how": "partial_fit batch by batch (reset function = veto table), the drawing call after every batch"
                    if route != "fit_gif" else "fit_gif(X, match_reset_func=<veto table>, match_tracking=mode, epsilon=eps, "
                    "filename=<temporary file>, n_cluster_estimate=2), matplotlib Agg backend"}
        failed = None
        with plt.rc_context(rcp), tempfile.TemporaryDirectory() as tmp:
            had = set(plt.get_fignums())
            try:
                if route == "fit_gif":
                    w.marks.append((None, "the frame fit_gif draws after every sample"))
                    try:
                        with quiet():
                            # a palette smaller than the number of categories: the newest categories are then not drawn
                            m.fit_gif(X, match_reset_func=mk_reset(w), match_tracking=mode, epsilon=eps,
                                      filename=os.path.join(tmp, "c01.gif"), n_cluster_estimate=r.choice([2, n]), fps=50)
                        cov.hit(f"drawn:fit_gif:completed:{cls}")
                    except Exception as e:
                        if w.recs and "got" in w.recs[-1]:
                            w.mark(f"fit_gif: drawing the frame raised {exc_enum(e)}")
                            cov.hit(f"drawn:fit_gif:frame-raised-after-a-completed-search:{cls}:{exc_enum(e)}")
                        else:
                            failed = e
                else:
                    a0 = 0
                    for sz in parts:
                        try:
                            with quiet():
                                m.partial_fit(X[a0:a0 + sz], match_reset_func=mk_reset(w), match_tracking=mode, epsilon=eps)
                        except Exception as e:
                            failed = e
                            break
                        a0 += sz
                        what = route.split("-between")[0]
                        try:
                            with quiet():
                                fig, ax = plt.subplots()
                                ncat = len(m.W)
                                if what == "visualize":
                                    m.visualize(X[:a0], np.array(m.labels_), ax)
                                elif what == "plot_cluster_bounds":
                                    m.plot_cluster_bounds(ax, cm.rainbow(np.linspace(0, 1, ncat + 3)))
                                else:
                                    m.visualize(X[:a0], m.labels_, ax, colors=cm.rainbow(np.linspace(0, 1, max(1, ncat - 1))))
                            w.mark(what)
                            cov.hit(f"drawn:{what}:drawn:{cls}")
                        except Exception as e:
                            w.mark(f"{what} raised {exc_enum(e)}")
                            cov.hit(f"drawn:{what}:raised:{cls}:{exc_enum(e)}")
            finally:
                for num in set(plt.get_fignums()) - had:
                    plt.close(num)
        if failed is not None:
            ctx.issue("violation", f"{cls}.{'fit_gif' if route == 'fit_gif' else 'partial_fit'}:drawn-history:{exc_enum(failed)}",
                      f"training raised {failed!r} on validated data (mode {mode}, reset={has_reset}, drawn so far {w.marks})",
                      replay(len(w.recs) - 1))
            cov.case(("drawn", cls, repr(spec), X.tolist(), mode, eps, repr(vt), route), False)
            continue
        cov.hit(f"drawn:history:{route}:{cls}" + (f":cov_init-{flavour}" if flavour else ""))
        _judge_watched(ctx, tagc, w, replay, lambda s_: cov.hit("drawn:" + s_))
        k = len([rc for rc in w.recs if "got" in rc])
        if k:
            # the same samples, batches, vetoes and mode without any drawing call
            try:
                with quiet():
                    if route == "fit_gif":
                        twin.fit(X[:k], match_reset_func=mk_reset(w2), match_tracking=mode, epsilon=eps)
                    else:
                        for B in gen.split(X, parts):
                            twin.partial_fit(B, match_reset_func=mk_reset(w2), match_tracking=mode, epsilon=eps)
                got, ref = [rc["got"] for rc in w.recs[:k]], [rc["got"] for rc in w2.recs[:k]]
                if got != ref or len(m.W) != len(twin.W) or any(not _same_w(a, b) for a, b in zip(m.W, twin.W)):
                    ctx.issue("violation", f"{tagc}:searches-differ-from-the-history-without-drawing",
                              f"assignments {got} / {len(m.W)} categories; the same samples, batches, vetoes and mode without the "
                              f"drawing calls give {ref} / {len(twin.W)} categories"
                              + ("" if got != ref or len(m.W) != len(twin.W) else " with different weights"), replay(None))
                cov.hit("drawn:oracle:same-searches-as-without-drawing")
            except Exception as e:
                cov.hit(f"drawn:twin-raised:{cls}:{exc_enum(e)}")
        cov.case(("drawn", cls, repr(spec), X.tolist(), mode, eps, repr(vt), route), bool(getattr(w, "nontrivial", False)))


def plotted_then_trained(ctx):
    """the shared generator of plotting calls inside histories (harness/artv/plotpure.py): for the estimators of C01's
    quantifier (elementary classes, the A-side of SimpleARTMAP / ARTMAP) the plotting call must not have changed a weight
    of the searching module, and the partial_fit that follows is judged sample by sample with `_judge_watched`"""
    from .. import plotpure
    cov = ctx.cov
    for sc in plotpure.scenarios(ctx, "C01", quick=12, thorough=120):
        if sc.kind in specs.ELEM:
            m, prefix = sc.est, ""
        elif sc.kind in ("SimpleARTMAP", "ARTMAP"):
            m, prefix = sc.est.module_a, ".module_a"
        else:
            continue
        tagc = f"{sc.kind}:after-{sc.plot.split(':')[0]}" if prefix == "" else f"{sc.kind}.module_a:after-{sc.plot.split(':')[0]}"
        desc = dict(sc.desc, trained_by=sc.trained_by, plotting_call_raised=sc.raised)
        moved = [p for p in sc.changed if p.startswith(prefix + ".W")]
        if moved:
            ctx.issue("violation", f"{tagc}:weight-changed-without-winning",
                      f"{sc.plot} after {sc.trained_by} changed {moved[:6]} although no sample was presented", desc)
            continue
        cov.hit("plotpure:weights-of-the-searching-module-unchanged-by-the-plotting-call")
        if sc.raised is not None and sc.plot.startswith("fit_gif"):
            cov.hit("plotpure:fit_gif-stopped-in-a-frame")
            continue
        k = min(len(sc.rows), 3)
        w = _Watch(m)
        w.mark(f"{sc.plot} (before the first watched search)")
        try:
            sc.fam.pfit(sc.est, sc.rows.sl(0, k))
        except Exception as e:
            cov.hit(f"plotpure:continuation-raised:{sc.kind}:{exc_enum(e)}")
            continue
        _judge_watched(ctx, tagc, w, lambda step=None: dict(desc, then_partial_fit_rows=k, step=step),
                       lambda s_: cov.hit("plotpure:" + s_))
        cov.hit(f"plotpure:continued:{sc.kind}:{sc.plot}")
        cov.case(("plotpure", sc.kind, repr(sc.fam.spec), repr(sc.desc["rows"]), sc.plot, sc.trained_by),
                 bool(getattr(w, "nontrivial", False)))


def run(ctx):
    longdouble_histories(ctx)
    drawn_histories(ctx)
    plotted_then_trained(ctx)
    cov = ctx.cov
    N = ctx.scale(900, 9000)
    nmax = ctx.scale(24, 120)
    classes = specs.ELEM + ["FusionART"]
    lines, expect, refill = [], [], []
    Nflag = ctx.scale(120, 2500)
    # re-configured histories: the estimator is trained in >= 2 partial_fit batches and hyper-parameters are re-assigned
    # between batches through the public routes (`model.rho = v`, which BaseART.__setattr__ routes into params, or
    # set_params); every oracle / model line below then uses the configuration IN FORCE at that step.  About a third of
    # them run as the A-side of a SimpleARTMAP (the host's label map supplies the vetoes, `clf.module_a.rho = v`).
    Nre = ctx.scale(280, 2000)
    # histories trained through fit_gif (BaseART's training loop with a frame drawn after every sample, inherited by every
    # estimator of the quantifier): always with a reset function that vetoes, a non-zero epsilon, 4-8 samples of 2
    # features (a frame costs ~20 ms); class x mode rotate with the seed so that all 45 combinations are visited over
    # the seeds.  Every per-step oracle / model line below applies unchanged: it is the property on the observed search
    Ngif = ctx.scale(27, 180) if _has_matplotlib() else 0
    if not Ngif:
        cov.hit("fit_gif:matplotlib-not-available")
    for i in range(N + Nflag + Nre + Ngif):
        r = gen.rng_for(ctx.seed, "C01", i)
        gif = i >= N + Nflag + Nre
        reassign = (i >= N + Nflag) and not gif
        cls = classes[i % len(classes)] if i < N else "FusionART"
        d = r.randint(1, 4)
        n = r.randint(1, nmax)
        mode = MODES[(i // len(classes)) % 5]
        if reassign:
            cls = specs.ELEM[i % len(specs.ELEM)]
            mode = MODES[(i // len(specs.ELEM)) % 5]
            n = max(n, 3)
        eps = r.choice([0.0, 2.0 ** -20, 2.0 ** -10, 1e-10, 0.125])
        has_reset = r.random() < 0.7
        floats = r.random() < 0.3
        if gif:
            j = ctx.seed * Ngif + (i - (N + Nflag + Nre))
            cls = classes[j % len(classes)]
            mode = MODES[j % 5]
            d, n = 2, r.randint(4, 8)
            eps = r.choice([2.0 ** -20, 2.0 ** -10, 1e-10, 0.125, 0.25, 0.45])
            has_reset = True
        spec, chans, ds = build_est(r, cls, d)
        if cls == "FusionART":
            X = np.hstack([specs.elem_data(r, c, n, dd, floats=floats) for c, dd in zip(chans, ds)])
            inv = [0] * len(chans)
            rho = [s["rho"] for s in spec["modules"]]
        else:
            X = specs.elem_data(r, cls, n, d, floats=floats and cls != "ART1")
            inv = [1 if specs.is_inverted(cls) else 0]
            rho = [spec["rho"]]
        if cls not in ("ART1",) and r.random() < 0.15:
            # single-precision input is valid data; the search (activations, match values, tracked thresholds) is still
            # the one the rule prescribes
            X = X.astype(np.float32)
            cov.hit("float32-input")
        vt = gen.veto_table(r, n, n + 1)
        if gif and not any(any(row) for row in vt):
            vt = [[r.random() < 0.5 for _ in range(n + 1)] for _ in range(n)]
        if cls == "FusionART" and len(chans) >= 2 and ((i >= N and not gif) or (i // len(classes)) % 2 == 0):
            # a crisp "flag" channel with vigilance 0: match values are exactly 0 and still pass `0 >= 0`, so a
            # veto has to track that channel's threshold up from 0 (only MT+ with epsilon > 0 then decides later
            # candidates differently)
            k0 = r.randrange(len(chans))
            if chans[k0] == "FuzzyART":
                spec["modules"][k0]["rho"] = 0.0
                spec["modules"][k0]["alpha"] = max(spec["modules"][k0]["alpha"], 2.0 ** -10)
                rho = [s_["rho"] for s_ in spec["modules"]]
                a0 = sum(specs.width(c, dd) for c, dd in zip(chans[:k0], ds[:k0]))
                raw = np.array([[float(r.randint(0, 1)) for _ in range(ds[k0])] for _ in range(n)])
                X[:, a0:a0 + 2 * ds[k0]] = gen.cc(raw)
                mode, eps, has_reset = "MT+", r.choice([0.125, 2.0 ** -10]), True
                vt = [[r.random() < 0.5 for _ in range(n + 1)] for _ in range(n)]
                cov.hit("fusion-flag-channel:rho=0")
        # configuration in force: conf_at[si] = hyper-parameters the step si has to be judged with
        conf = {k: v for k, v in spec.items() if k != "cls"} if cls != "FusionART" else None
        host, y, sched, parts_re = False, None, {}, None
        if reassign:
            host = r.random() < 0.35
            cuts = sorted(r.sample(range(1, n), r.randint(1, min(n - 1, 4))))
            parts_re = [b - a for a, b in zip([0] + cuts, cuts + [n])]
            cur = dict(conf)
            for bi in range(1, len(parts_re)):
                if bi == 1 or r.random() < 0.7:
                    ch = reassignment(r, cls, d, cur)
                    sched[bi] = (r.choice(["attr", "attr", "attr", "set_params"]), ch)
                    cur.update(ch)
            if host:
                y = gen.labels(r, n, k=r.choice([2, 3]))
                has_reset = True
        conf_at = []
        if conf is not None:
            cur = dict(conf)
            for bi, sz in enumerate(parts_re if reassign else [n]):
                if bi in sched:
                    cur = dict(cur)
                    cur.update(sched[bi][1])
                conf_at += [cur] * sz
        sched_rep = {str(bi): {"route": rt, "values": ch} for bi, (rt, ch) in sched.items()}
        tagc = f"SimpleARTMAP({cls})" if host else (f"{cls}.fit_gif" if gif else cls)
        key = (cls, spec, X.tolist(), mode, eps, vt if has_reset else None)
        if gif:
            key = key + ("fit_gif",)
        if reassign:
            key = key + (host, None if y is None else y.tolist(), tuple(parts_re), repr(sorted(sched_rep.items())))
        try:
            with quiet():
                m = make(spec)
                m_host = None
                if host:
                    from artlib import SimpleARTMAP
                    m_host = SimpleARTMAP(m)
        except Exception as e:  # construction of a valid spec must not fail
            ctx.issue("violation", f"{cls}.__init__:{exc_enum(e)}", f"constructor raised {e!r}", {"spec": spec})
            continue
        rec = Recorder(m, fusion=(cls == "FusionART"))
        frames = []
        pframes, maps = [], []
        orig_step = m.__dict__["step_fit"]

        fullM = []

        def framed(x, *a, _o=orig_step, _m=m, _cls=cls, _h=m_host, **kw):
            if _cls != "FusionART":
                pframes.append([_params_snapshot(_m.params), None])
            if _h is not None:
                maps.append(dict(_h.map))
            try:
                return framed_(x, *a, _o=_o, _m=_m, _cls=_cls, **kw)
            finally:
                if _cls != "FusionART":
                    pframes[-1][1] = _params_snapshot(_m.params)

        def framed_(x, *a, _o=orig_step, _m=m, _cls=cls, _re=reassign, _ca=conf_at, **kw):
            def _pf():  # hyper-parameters in force for this step
                return _m.params if not _re else {**_m.params, **_ca[len(frames)]}
            before = [np.array(w, dtype=float).copy() for w in _m.W]
            # match values of EVERY category for this sample, from the class's own public kernels (unwrapped, so the
            # recorder does not see the calls) on the state before the step: used only when the estimator's search
            # stopped before a category the rule still has to judge
            fm = None
            if _cls != "FusionART":
                try:
                    with np.errstate(all="ignore"):
                        fm = []
                        for wb in _m.W:
                            _, ch_ = type(_m).category_choice(_m, x, wb, params=_pf())
                            fm.append([float(type(_m).match_criterion(_m, x, wb, params=_pf(), cache=ch_)[0])])
                except Exception:
                    fm = None
            fullM.append(fm)
            c = _o(x, *a, **kw)
            after = [np.array(w, dtype=float).copy() for w in _m.W]
            frames.append((before, after, int(c), np.array(x, dtype=float).copy()))
            return c
        object.__setattr__(m, "step_fit", framed)
        reset = None
        if has_reset:
            reset = rec.reset_logger(lambda i_, w_, c_, params, cache: not vt[len(rec.steps) - 1][c_])
        if host:
            # the host's own veto (label map) is the reset function; its calls land in the current step
            def host_reset(i_, w_, cluster_a, params=None, extra=None, cache=None, _f=type(m_host).match_reset_func,
                           _h=m_host, **kw):
                ans = _f(_h, i_, w_, cluster_a, params=params, extra=extra, cache=cache, **kw)
                if rec.cur is not None:
                    rho_ = params.get("rho") if isinstance(params, dict) else None
                    rec.cur.resets.append((int(cluster_a), bool(ans), None if rho_ is None else float(rho_)))
                return ans
            object.__setattr__(m_host, "match_reset_func", host_reset)
        parts = gen.compositions(r, n) if not reassign else parts_re
        rep_re = {"parts": parts, "reassigned-before-batch": sched_rep, "host": "SimpleARTMAP" if host else None,
                  "y": y} if reassign else {}
        if gif:
            rep_re = {"trained-through": "fit_gif(X, match_reset_func=<veto table>, match_tracking=mode, epsilon=eps, "
                                         "filename=<temporary file>) with the matplotlib Agg backend"}
        try:
            with quiet():
                if reassign:
                    target = m_host.module_a if host else m
                    for bi, B in enumerate(gen.split(X, parts)):
                        if bi in sched:
                            route, ch = sched[bi]
                            if route == "attr":
                                for k_, v_ in ch.items():
                                    setattr(target, k_, v_)
                            else:
                                target.set_params(**ch)
                            cov.hit(f"reassign:{route}:" + ("rho-only" if list(ch) == ["rho"] else "several"))
                            cov.hit("reassign:" + ("host-A-side" if host else "elementary"))
                        if host:
                            a0 = sum(parts[:bi])
                            m_host.partial_fit(B, y[a0:a0 + len(B)], match_tracking=mode, epsilon=eps)
                        else:
                            m.partial_fit(B, match_reset_func=reset, match_tracking=mode, epsilon=eps)
                elif gif:
                    _fit_gif(m, X, reset, mode, eps)
                    cov.hit(f"fit_gif:trained:{cls}")
                    cov.hit(f"fit_gif:mode:{mode}:epsilon>0:reset-function-vetoes")
                elif len(parts) == 1 and r.random() < 0.5:
                    m.fit(X, match_reset_func=reset, match_tracking=mode, epsilon=eps)
                else:
                    for B in gen.split(X, parts):
                        m.partial_fit(B, match_reset_func=reset, match_tracking=mode, epsilon=eps)
        except Exception as e:
            if gif and rec.steps and rec.steps[-1].exc is None and rec.steps[-1].ret is not None:
                # every search that was started has returned: the exception comes from drawing the frame (visualize /
                # the gif writer), which C01 does not constrain; the searches observed so far are judged below
                cov.hit(f"fit_gif:frame-drawing-raised-after-a-completed-search:{cls}:{exc_enum(e)}")
            else:
                sig = f"{cls}.{'fit_gif' if gif else 'fit'}:{exc_enum(e)}"
                ctx.issue("violation", sig, f"training raised {e!r} on validated data (mode {mode}, reset={has_reset})",
                          {"spec": spec, "X": X, "mode": mode, "eps": eps, "veto": vt if has_reset and not host else None, "parts": parts,
                           **rep_re})
                cov.case(key, False)
                continue
        if gif and len(rec.steps) == n:
            # the assignment fit_gif publishes (labels_) is the outcome of each sample's search
            rets = [st_.ret for st_ in rec.steps]
            have = getattr(m, "labels_", None)
            if have is None or [int(v) for v in np.asarray(have).ravel()] != rets:
                ctx.issue("violation", f"{tagc}:labels_-differ-from-the-search-outcomes",
                          f"labels_ after fit_gif is {None if have is None else np.asarray(have).tolist()}, the searches returned {rets} "
                          f"(mode {mode}, eps {eps})",
                          {"spec": spec, "X": X, "mode": mode, "eps": eps, "veto": vt, **rep_re})
            cov.hit("oracle:fit_gif-labels_-are-the-search-outcomes")
        nontrivial = False
        if host:
            # the veto pattern of this history: category c is vetoed for sample si when the host's map (before the
            # step) ties it to another class
            vt = [[(c_ in mp and mp[c_] != y[si_]) for c_ in range(n + 1)] for si_, mp in enumerate(maps)]
            rep_re = dict(rep_re, veto=vt)
        # ---- oracle: the hyper-parameters of the estimator are, before and after every sample's search, the ones
        #      configured (constructor, then the latest assignment): whatever a search does to the vigilance lives
        #      "only for the rest of that sample's search", and a re-assigned value stays in force
        if cls != "FusionART" and (len(pframes) == len(conf_at) or (gif and len(pframes) <= len(conf_at))):
            for si, (pb, pa) in enumerate(pframes):
                bad_b = _params_differ(pb, conf_at[si])
                bad_a = _params_differ(pa, conf_at[si]) if pa is not None else []
                if bad_b or bad_a:
                    when = "before" if bad_b else "after"
                    have = pb if bad_b else pa
                    bad = bad_b or bad_a
                    ctx.issue("violation", f"{tagc}:hyper-parameters-{when}-search-differ-from-those-in-force",
                              f"step {si}: {when} the sample's search params holds "
                              f"{ {k: have.get(k) for k in bad} }, in force (configured"
                              f"{', re-assigned before batch(es) ' + ','.join(sched_rep) if sched else ''}) is "
                              f"{ {k: conf_at[si][k] for k in bad} } (mode {mode}, eps {eps}, reset function {has_reset})",
                              {"spec": spec, "X": X, "step": si, "mode": mode, "eps": eps,
                               "veto": vt if has_reset else None, **rep_re})
                    break
            if reassign:
                cov.hit("oracle:params-in-force-before-and-after-every-search")

        def inforce(si_):
            """hyper-parameters the step has to be judged with (non-scalar ones are never re-assigned)"""
            return m.params if not reassign else {**m.params, **conf_at[si_]}
        # ---- oracle part: frame + winner qualifies (statement on the implementation)
        for si, ((before, after, c, x), st) in enumerate(zip(frames, rec.steps)):
            nb = len(before)
            if c < nb:
                if len(after) != nb:
                    ctx.issue("violation", f"{cls}:frame", f"step {si}: resonance with {c} but |W| {nb}->{len(after)}",
                              {"spec": spec, "X": X, "step": si, **rep_re})
                changed = [k for k in range(nb) if not np.array_equal(before[k], after[k], equal_nan=True)]
                if any(k != c for k in changed):
                    ctx.issue("violation", f"{cls}:frame", f"step {si}: winner {c} but weights {changed} changed",
                              {"spec": spec, "X": X, "step": si, "mode": mode, **rep_re})
            else:
                if c != nb or len(after) != nb + 1 or any(
                        not np.array_equal(before[k], after[k], equal_nan=True) for k in range(nb)):
                    ctx.issue("violation", f"{cls}:frame", f"step {si}: new category label {c}, |W| {nb}->{len(after)}",
                              {"spec": spec, "X": X, "step": si, "mode": mode, **rep_re})
                else:
                    with quiet():
                        try:
                            wn = np.array(m.new_weight(x, inforce(si)), dtype=float)
                            if not np.array_equal(wn, after[-1], equal_nan=True):
                                ctx.issue("violation", f"{cls}:new-not-from-sample",
                                          f"step {si}: appended weight differs from new_weight(x)",
                                          {"spec": spec, "X": X, "step": si, **rep_re})
                        except Exception:
                            pass
        # ---- oracle: a weight changes only when its category wins a sample: the weights a search starts from are the ones
        #      the previous search of this history left (whatever happened between them: a new batch, a re-assignment of
        #      hyper-parameters, the frame fit_gif draws)
        for si in range(1, len(frames)):
            W0, W1 = frames[si - 1][1], frames[si][0]
            moved = [k for k in range(min(len(W0), len(W1))) if not np.array_equal(W0[k], W1[k], equal_nan=True)]
            if len(W0) != len(W1) or moved:
                ctx.issue("violation", f"{tagc}:weight-changed-without-winning",
                          f"at the start of the search of sample {si} there are {len(W1)} categories and the weights of {moved} "
                          f"differ from what the search of sample {si - 1} (label {frames[si - 1][2]}) left ({len(W0)} categories); "
                          f"no sample was presented in between",
                          {"spec": spec, "X": X, "step": si - 1, "mode": mode, "eps": eps, "veto": vt if has_reset else None,
                           "parts": parts, **rep_re})
                break
        else:
            cov.hit("oracle:weights-at-the-next-search-are-those-the-previous-search-left")
        # ---- oracle: without a reset function the winner is the oldest category of maximal activation among
        #      those passing the vigilance test; recomputed from public kernel calls on the weights before the step
        if not has_reset and cls not in ("GaussianART", "BayesianART", "FusionART"):
            strict = mode in ("MT0", "MT~")
            for si, (before, after, c, x) in enumerate(frames):
                if not before:
                    continue
                try:
                    with quiet():
                        Ts, Ms = [], []
                        for wb in before:
                            t_, ch_ = m.category_choice(x, wb, params=inforce(si))
                            mm_, _ = m.match_criterion(x, wb, params=inforce(si), cache=ch_)
                            Ts.append(float(t_))
                            Ms.append(float(mm_))
                except Exception:
                    break
                rho_ = inforce(si)["rho"]
                ok_ = [k for k in range(len(before)) if not np.isnan(Ts[k]) and (Ms[k] > rho_ if strict else Ms[k] >= rho_)]
                want = min(ok_, key=lambda k: (-Ts[k], k)) if ok_ else len(before)
                if want != c:
                    ctx.issue("violation", f"{cls}:not-best-vigilance-passing-category",
                              f"step {si}: assigned {c}, but the oldest category of maximal activation among those passing "
                              f"vigilance is {want} (activations {Ts}, match values {Ms}, rho {rho_}"
                              f"{' in force after re-assignment' if reassign else ''}, mode {mode})",
                              {"spec": spec, "X": X, "step": si, "mode": mode, "eps": eps, **rep_re})
                    break
                if reassign:
                    cov.hit("oracle:winner-recomputed-with-params-in-force")
                if len(ok_) >= 2 and sorted(Ts[k] for k in ok_)[-1] == sorted(Ts[k] for k in ok_)[-2]:
                    cov.hit("oracle:tie-among-qualifying")
        # ---- oracle: a tracked vigilance lives "only for the rest of that sample's search": the first
        #      category visited for every sample is judged against the configured value
        if cls != "FusionART":
            for si, st in enumerate(rec.steps):
                conf_rho = conf_at[si]["rho"] if si < len(conf_at) else spec["rho"]
                if st.Mseq and st.Mseq[0][2] is not None and st.Mseq[0][2] != conf_rho:
                    ctx.issue("violation", f"{tagc}:vigilance-leaks-across-samples",
                              f"step {si}: the first candidate was tested against rho={st.Mseq[0][2]}, configured {conf_rho}"
                              f"{' (in force since the latest re-assignment)' if reassign else ''} "
                              f"(mode {mode}, eps {eps}, reset function {has_reset})",
                              {"spec": spec, "X": X, "step": si, "mode": mode, "eps": eps, "veto": vt if has_reset else None,
                               **rep_re})
                    break
        # ---- model tie: one `search` line per step that had categories
        for si, st in enumerate(rec.steps):
            if st.ncat == 0:
                cov.hit("first-sample")
                continue
            T, M = step_table(st, mode, has_reset)
            if len(st.Mseq) >= 2 or any(not a for (_, a, _) in st.resets):
                nontrivial = True
            veto = [1 if (has_reset and vt[si][c]) else 0 for c in range(st.ncat)]
            if reassign:
                rho = [conf_at[si]["rho"]]
                cov.hit("search-line:vigilance-in-force-at-that-step")
            ms = ",".join("?" if mv is None else ":".join(f2hex(v) for v in mv) for mv in M)
            line = "search %s %s %s %s %s %s %s" % (
                mode, ",".join(map(str, inv)), ",".join(f2hex(v) for v in rho), f2hex(eps),
                vec_f(T), ms, ",".join(map(str, veto)))
            lines.append(line)
            expect.append((i, si, st, tagc, mode, has_reset, spec, X, eps, vt, rep_re))
            filled = None
            if si < len(fullM) and fullM[si] is not None and len(fullM[si]) == st.ncat and any(mv is None for mv in M):
                ms2 = ",".join(":".join(f2hex(v) for v in (mv if mv is not None else fullM[si][c])) for c, mv in enumerate(M))
                filled = "search %s %s %s %s %s %s %s" % (
                    mode, ",".join(map(str, inv)), ",".join(f2hex(v) for v in rho), f2hex(eps),
                    vec_f(T), ms2, ",".join(map(str, veto)))
            refill.append(filled)
        cov.case(key, nontrivial)
        cov.traces += 1
        if i < 3:
            cov.sample({"class": cls, "spec": spec, "mode": mode, "eps": eps, "n": n, "reset": has_reset,
                        "labels": [s.ret for s in rec.steps]})
    outs = run_driver(lines)
    # second pass for steps the model could not follow because the estimator never evaluated a category the rule
    # still had to judge: the missing match values come from the estimator's own public kernels
    again = [k for k, out in enumerate(outs) if out == "unrecorded-match" and refill[k] is not None]
    outs2 = dict(zip(again, run_driver([refill[k] for k in again]))) if again else {}
    for k_, (line, out, (i, si, st, cls, mode, has_reset, spec, X, eps, vt, rep_re)) in enumerate(zip(lines, outs, expect)):
        rep = {"case": i, "step": si, "class": cls, "spec": spec, "mode": mode, "eps": eps, "X": X,
               "veto": vt if has_reset else None, "line": line, "model": out, **rep_re}
        if k_ in outs2 and outs2[k_].startswith("w="):
            w2 = parse_kv(outs2[k_])["w"]
            exp_w = "-" if st.ret == st.ncat else str(st.ret)
            cov.hit("search-stopped-early:rule-evaluated-with-kernel-match-values")
            if w2 != exp_w:
                ctx.issue("violation", f"{cls}:search-outcome-differs-from-rule",
                          f"case {i} step {si}: the estimator returned label {st.ret} ({st.ncat} categories) after visiting only "
                          f"{[c for (c, _, _) in st.resets] or len(st.Mseq)} candidates; the search rule applied to the recorded activations / reset "
                          f"answers and the match values of the estimator's own match_criterion for the categories it never "
                          f"tested gives {w2} (mode {mode}, eps {eps})", dict(rep, line=refill[k_], model=outs2[k_]))
                continue
        if not out.startswith("w="):
            ctx.issue("diff", f"search:{cls}", f"model could not follow the recorded step: {out}", rep)
            continue
        kv = parse_kv(out)
        w = kv["w"]
        exp_w = "-" if st.ret == st.ncat else str(st.ret)
        visits = [v.split(":") for v in kv["v"].split(",")] if kv.get("v") else []
        if w == "-":
            cov.hit("new-category")
        elif visits and visits[-1][0] == w and len(visits) == 1:
            cov.hit("resonance-rank1")
        else:
            cov.hit("resonance-deeper")
        if w != exp_w:
            # the model was run on the implementation's OWN activations, match values and reset answers of this
            # step: C01 fixes the outcome as a function of those, so a different label is a violation at this step
            ctx.issue("violation", f"{cls}:search-outcome-differs-from-rule",
                      f"case {i} step {si}: the estimator returned label {st.ret} ({st.ncat} categories); the search rule applied "
                      f"to the recorded activations, match values and reset answers gives {w} (mode {mode}, eps {eps})", rep)
            continue
        # visits: category sequence, thresholds in force, test results
        nch = len(visits[0]) - 3 if visits else 1
        mod_c = [int(v[0]) for v in visits]
        mod_m = [v[-2] == "1" for v in visits]
        mod_ok = [v[-1] == "1" for v in visits]
        mod_th = [v[1:1 + nch] for v in visits]
        imp_m = [mb for (_, mb, _) in st.Mseq]
        if mod_m != imp_m:
            ctx.issue("violation", f"{cls}:vigilance-test-differs-from-rule",
                      f"case {i} step {si}: the estimator's vigilance tests along the search answered {imp_m}; the recorded match "
                      f"values tested against the configured / tracked thresholds give {mod_m} (mode {mode}, eps {eps})", rep)
            continue
        if cls.split(".")[0] != "FusionART":
            imp_th = [[f2hex(rho_)] for (_, _, rho_) in st.Mseq]
            if imp_th != mod_th:
                # the thresholds are the estimator's own (seen by its vigilance test); the rule fixes them as a function of
                # the recorded match values: configured value first, then match+eps / match-eps / match after each veto
                ctx.issue("violation", f"{cls}:tracked-threshold-differs-from-rule",
                          f"case {i} step {si}: thresholds in force along the search {[hex2f(t[0]) for t in imp_th]} differ from "
                          f"the ones the mode prescribes from the recorded match values {[hex2f(t[0]) for t in mod_th]} (mode {mode}, eps {eps}, input dtype {np.asarray(X).dtype})", rep)
                continue
        if has_reset and mode != "MT~":
            imp_c = [c for (c, _, _) in st.resets]
            imp_ok = [a for (_, a, _) in st.resets]
            if imp_c != mod_c or imp_ok != mod_ok:
                ctx.issue("diff", f"search:{cls}:visits", f"case {i} step {si}: reset calls {list(zip(imp_c, imp_ok))} "
                          f"model visits {list(zip(mod_c, mod_ok))}", rep)
                continue
            if any((not a) and mb for (_, a, _), mb in zip(st.resets, imp_m)):
                cov.hit(f"veto-then-track:{mode}")
                if cls.endswith(".fit_gif"):
                    k1 = next(k for k, ((_, a, _), mb) in enumerate(zip(st.resets, imp_m)) if (not a) and mb)
                    cov.hit(f"fit_gif:veto-then-track:{mode}" + (":later-candidate-tested-against-the-tracked-vigilance"
                                                                 if len(imp_m) > k1 + 1 else ""))
        live = [x for x in step_table(st, mode, has_reset)[0] if x == x]
        if len(set(live)) < len(live):
            cov.hit("exact-tie")
    # ---- tie (ii): end-to-end over Q
    e2e.base_histories(ctx, "C01", ctx.scale(120, 3000), nmax, fields=("labels", "W"))
    e2e.sphere_histories(ctx, "C01", ctx.scale(80, 2000), ctx.scale(16, 50))
